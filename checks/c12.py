"""C12 - compiler emulation: aliases, implicit options, modes and passes
(DESIGN.md section 2, C12)."""

import collections
import itertools
import json
import logging
import os
import re
import string
import tomllib

from vlib import core, observe
from vlib.core import Result, make_violation

PROP = "C12"
RULE = (
    "randomly generated .cbi/config files (own TOML writer): new compilers, alias chains of length 0-4 incl. loops and "
    "dangling targets, implicit options, parser rules with append_const / store_split / extend_match (with and without "
    "default / override), modes, passes with modes, and redefinitions of built-in compilers (extra options, rules, "
    "redefined modes/passes, alias<->compiler flips, a flag declared again by a later rule with another arity: value-less -> "
    "value-taking and back, for the built-in -fopenmp and for flags of the same table), crossed with command lines enabling every subset of the configured "
    "flags in both `--f=v` and `--f v` spellings and argv[0] spelled bare or with directory prefixes; plus the four "
    "built-in definition files with every documented flag combination. Oracle: an independent interpreter of the "
    "documented rules (model in this file, reading the built-in TOML files itself) giving, per pass, the ordered "
    "command-line part and the multiset contributed by passes/modes; relations on the implementation: implicit options == "
    "the same options given explicitly, purity (parsing a command twice or after other commands gives the same result), "
    "alias loops / unknown targets are reported (ERROR) without hanging; through finder.find a line guarded by a "
    "pass/mode macro is attributed iff some pass defines it. Non-trivial: alias chain >=2, a flag selecting >=2 passes, a "
    "pass pulling in a mode, a user file modifying a built-in compiler, or a command using a flag that was declared again; distinct by config text+argv."
)
ASSUMPTIONS = [
    "the order in which several active modes contribute is unspecified: contributions of passes/modes are compared as multisets after the ordered command-line part",
    "flag names are generated so that they cannot collide with -D/-I/-O/-o/-g/-c (C11's subject); the only built-in flag a user file re-declares is -fopenmp; a later rule for a flag replaces the earlier one (action, arity and default passes), only single-spelling rules are re-declared",
    "a default declared for a pass-selecting flag is active even when the flag is absent (built-in icx/nvcc behaviour, relied on by the existing tests)",
]

BUILTIN_FILES = ["clang", "gnu", "intel", "nvidia"]


# ---------------------------------------------------------------- model


def load_builtins():
    out = {}
    for f in BUILTIN_FILES:
        with open(os.path.join(core.REPO, "codebasin", "compilers", f + ".toml"), "rb") as fh:
            t = tomllib.load(fh)
        for name, d in t["compiler"].items():
            out[name] = norm_def(d)
    return out


def norm_def(d):
    if "alias_of" in d:
        return {"alias_of": d["alias_of"], "options": [], "parser": [], "modes": {}, "passes": {}}
    return {
        "alias_of": None,
        "options": list(d.get("options", [])),
        "parser": [dict(r) for r in d.get("parser", [])],
        "modes": {m["name"]: dict(m) for m in d.get("modes", [])},
        "passes": {p["name"]: dict(p) for p in d.get("passes", [])},
    }


def merge_user(builtins, user):
    comps = {k: json.loads(json.dumps(v)) for k, v in builtins.items()}
    for name, d in user.items():
        if name not in comps:
            comps[name] = norm_def(d)
            continue
        if "alias_of" in d:
            comps[name] = norm_def(d)
            continue
        c = comps[name]
        if c["alias_of"]:
            c["alias_of"] = None
        nd = norm_def(d)
        c["options"] += nd["options"]
        c["parser"] += nd["parser"]
        c["modes"].update(nd["modes"])
        c["passes"].update(nd["passes"])
    return comps


def resolve(comps, name):
    """-> (definition or None, problem or None)"""
    if name not in comps:
        return None, "unrecognized"
    chain = [name]
    while comps[chain[-1]]["alias_of"]:
        a = comps[chain[-1]]["alias_of"]
        if a in chain:
            return None, "loop"
        if a not in comps:
            return None, "dangling"
        chain.append(a)
    return comps[chain[-1]], None


def effective_rules(parser):
    """A later rule for a flag replaces the earlier rule for that flag: every rule keeps only the spellings
    that no later rule declares again; a rule left without any spelling is gone (with its default)."""
    out = []
    for k, r in enumerate(parser):
        later = {f for r2 in parser[k + 1:] for f in r2["flags"]}
        live = [f for f in r["flags"] if f not in later]
        if live:
            out.append(dict(r, flags=live))
    return out


def redeclarations(parser):
    """[(flag, earlier rule takes a value?, final rule takes a value?)] for flags declared more than once"""
    final = {f: r for r in effective_rules(parser) for f in r["flags"]}
    out = []
    for k, r in enumerate(parser):
        for f in r["flags"]:
            if final.get(f) is not None and any(f in r2["flags"] for r2 in parser[k + 1:]):
                out.append((f, r["action"] != "append_const", final[f]["action"] != "append_const"))
    return out


VALUE_FLAGS = {"-D": "defines", "-I": "include_paths", "-isystem": "system", "-include": "include_files"}


def model_parse(defn, argv):
    """Interpret argv (+implicit options) under a compiler definition.
    Returns {pass: (ordered cmdline triple, contributed multiset triple)} for defined passes."""
    defn = defn or {"options": [], "parser": [], "modes": {}, "passes": {}}
    args = list(argv) + list(defn["options"])
    parser_rules = effective_rules(defn["parser"])
    rules = {}
    for r in parser_rules:
        for f in r["flags"]:
            rules[f] = r
    lists = {"defines": [], "include_paths": [], "system": [], "include_files": [], "modes": [], "passes": []}
    flag_passes = {}
    seen_override = set()
    for r in parser_rules:
        if r["action"] in ("store_split", "extend_match") and r.get("dest") == "passes" and "default" in r:
            dv = r["default"]
            flag_passes[r["flags"][0]] = list(dv) if isinstance(dv, list) else [dv]
    i = 0
    while i < len(args):
        a = args[i]
        i += 1
        flag, val = None, None
        for vf in VALUE_FLAGS:
            if a == vf and i < len(args):
                flag, val = vf, args[i]
                i += 1
                break
            if a.startswith(vf) and len(a) > len(vf) and (len(vf) == 2 or a[len(vf)] not in "-="):
                flag, val = vf, a[len(vf):]
                break
        if flag:
            lists[VALUE_FLAGS[flag]].append(val)
            continue
        name, eq, v = a.partition("=")
        r = rules.get(a) or (rules.get(name) if eq else None)
        if r is None:
            continue
        act = r["action"]
        if act == "append_const":
            lists[r["dest"]].append(r["const"])
            continue
        if a in rules and not eq:
            if i >= len(args):
                continue
            v = args[i]
            i += 1
            used = a
        else:
            used = name
        key0 = r["flags"][0]
        if act == "store_split":
            vals = v.split(r.get("sep"))
            if r.get("format"):
                vals = [string.Template(r["format"]).substitute(value=x) for x in vals]
            if r["dest"] == "passes":
                flag_passes[key0] = vals  # whichever spelling was used: the flag's default is replaced
            else:
                lists[r["dest"]] = vals
        elif act == "extend_match":
            vals = re.findall(r["pattern"], v)
            if r.get("format"):
                vals = [string.Template(r["format"]).substitute(value=x) for x in vals]
            if r["dest"] == "passes":
                if r.get("override") and key0 not in seen_override:
                    flag_passes[key0] = list(vals)
                    seen_override.add(key0)
                else:
                    flag_passes.setdefault(key0, []).extend(vals)
            else:
                if r.get("override") and key0 not in seen_override:
                    lists[r["dest"]] = list(vals)
                    seen_override.add(key0)
                else:
                    lists[r["dest"]].extend(vals)
    inc = [p for p in lists["include_paths"] if p not in lists["system"]] + lists["system"]
    passes = set(lists["passes"]) | set(itertools.chain(*flag_passes.values())) | {"default"}
    out = {}
    for p in passes:
        contrib = ([], [], [])
        if p == "default":
            modes = set(lists["modes"])
        else:
            if p not in defn["passes"]:
                continue
            pd = defn["passes"][p]
            for k, key in enumerate(("defines", "include_paths", "include_files")):
                contrib[k].extend(pd.get(key, []))
            modes = pd.get("modes", [])
        for m in modes:
            if m not in defn["modes"]:
                continue
            md = defn["modes"][m]
            for k, key in enumerate(("defines", "include_paths", "include_files")):
                contrib[k].extend(md.get(key, []))
        out[p] = ((list(lists["defines"]), inc, list(lists["include_files"])), tuple(sorted(x) for x in contrib))
    return out


# ---------------------------------------------------------------- observation


def toml_value(v):
    if isinstance(v, bool):
        return "true" if v else "false"
    if isinstance(v, list):
        return "[" + ", ".join(toml_value(x) for x in v) + "]"
    return json.dumps(v)


def write_toml(user):
    """user: name -> definition dict (raw, as in TOML)"""
    out = []
    for name, d in user.items():
        q = json.dumps(name)
        out.append(f"[compiler.{q}]")
        for k in ("alias_of", "options"):
            if k in d:
                out.append(f"{k} = {toml_value(d[k])}")
        for sect in ("parser", "modes", "passes"):
            for item in d.get(sect, []):
                out.append(f"[[compiler.{q}.{sect}]]")
                for k, v in item.items():
                    out.append(f"{k} = {toml_value(v)}")
        out.append("")
    return "\n".join(out) + "\n"


class Capture(logging.Handler):
    def __init__(self):
        super().__init__(level=logging.DEBUG)
        self.records = []

    def emit(self, record):
        self.records.append((record.levelno, record.getMessage()))


class Session:
    """chdir into a scratch directory holding .cbi/config, reset the process-wide cache"""

    def __init__(self, toml_text):
        self.toml_text = toml_text

    def __enter__(self):
        from codebasin import config

        self.scratch = core.Scratch("c12")
        self.dir = self.scratch.__enter__()
        if self.toml_text is not None:
            os.makedirs(os.path.join(self.dir, ".cbi"))
            with open(os.path.join(self.dir, ".cbi", "config"), "w") as f:
                f.write(self.toml_text)
        self.cwd = os.getcwd()
        os.chdir(self.dir)
        config._compilers = None
        self.log = logging.getLogger("codebasin")
        self.cap = Capture()
        self.old = (self.log.level, logging.root.manager.disable)
        logging.disable(logging.NOTSET)
        self.log.setLevel(logging.DEBUG)
        self.log.addHandler(self.cap)
        return self

    def parse(self, argv0, argv):
        from codebasin import config

        cfgs = config.ArgumentParser(argv0).parse_args(list(argv))
        out = {}
        for c in cfgs:
            if c.pass_name in out:
                raise AssertionError(f"pass {c.pass_name} listed twice")
            out[c.pass_name] = (list(c.defines), list(c.include_paths), list(c.include_files))
        return out

    def __exit__(self, *a):
        from codebasin import config

        os.chdir(self.cwd)
        self.log.removeHandler(self.cap)
        self.log.setLevel(self.old[0])
        logging.disable(self.old[1])
        config._compilers = None
        self.scratch.__exit__(None, None, None)
        return False


def compare(exp, got):
    """exp: model output; got: {pass: triple}.  -> description of the first difference or None"""
    if set(exp) != set(got):
        return "passes", sorted(exp), sorted(got)
    for p in sorted(exp):
        (cmd, contrib) = exp[p]
        for k, key in enumerate(("defines", "include_paths", "include_files")):
            g = got[p][k]
            n = len(cmd[k])
            if g[:n] != cmd[k] or sorted(g[n:]) != list(contrib[k]):
                return f"{key}", {"pass": p, "command-line part": cmd[k], "contributed": list(contrib[k])}, {"pass": p, key: g}
    return None


# ---------------------------------------------------------------- generator

NEW = ["zcc", "ycc", "xcc", "wcc"]
BUILTINS = ["gcc", "g++", "clang", "clang++", "icx", "icpx", "nvcc"]


def config_strategy():
    from hypothesis import strategies as st

    mode_names = ["m0", "m1", "m2"]
    pass_names = ["p-1", "p-2", "p-3", "px"]

    def contrib(tag):
        return st.fixed_dictionaries(
            {},
            optional={
                "defines": st.lists(st.sampled_from([f"{tag}_A", f"{tag}_B=2", "SHARED"]), max_size=2, unique=True),
                "include_paths": st.lists(st.sampled_from([f"/{tag}/inc", "/shared/inc"]), max_size=2, unique=True),
                "include_files": st.lists(st.sampled_from([f"{tag}.h"]), max_size=1),
            },
        )

    @st.composite
    def valued_rule(draw, flag):
        """a rule that makes `flag` take a value: selects passes (split / match) or modes (match)"""
        kind = draw(st.sampled_from(["split", "match", "matchmode"]))
        if kind == "split":
            r = {"flags": [flag], "action": "store_split", "sep": ",", "format": "p-$value", "dest": "passes"}
        elif kind == "match":
            r = {"flags": [flag], "action": "extend_match", "pattern": "v(\\d+)", "format": "p-$value", "dest": "passes"}
        else:
            r = {"flags": [flag], "action": "extend_match", "pattern": "m(\\d)", "format": "m$value", "dest": "modes"}
        if kind != "matchmode" and draw(st.booleans()):
            r["default"] = draw(st.lists(st.sampled_from(pass_names), min_size=1, max_size=2, unique=True))
        if kind != "split" and draw(st.booleans()):
            r["override"] = draw(st.booleans())
        return r

    @st.composite
    def definition(draw, flag_prefix, redefines_builtin=False):
        d = {}
        modes = draw(st.lists(st.sampled_from(mode_names), max_size=3, unique=True))
        passes = draw(st.lists(st.sampled_from(pass_names), max_size=4, unique=True))
        rules = []
        for j in range(draw(st.integers(0, 4))):
            # compiler options start with one dash more often than with two
            flag = draw(st.sampled_from(["--", "-"])) + f"{flag_prefix}{j}"
            kind = draw(st.sampled_from(["mode", "pass", "define", "split", "match", "match", "split", "matchmode"]))
            if kind == "matchmode":
                # extend_match feeding a list other than the passes, with and without override
                r = {"flags": [flag], "action": "extend_match", "pattern": "m(\\d)", "format": "m$value", "dest": "modes"}
                if draw(st.booleans()):
                    r["override"] = draw(st.booleans())
                rules.append(r)
                continue
            if kind == "mode":
                rules.append({"flags": [flag], "action": "append_const", "dest": "modes", "const": draw(st.sampled_from(mode_names))})
            elif kind == "pass":
                rules.append({"flags": [flag], "action": "append_const", "dest": "passes", "const": draw(st.sampled_from(pass_names))})
            elif kind == "define":
                rules.append({"flags": [flag], "action": "append_const", "dest": "defines", "const": f"FLAG_{flag_prefix}{j}"})
            elif kind == "split":
                r = {"flags": [flag] + ([flag + "-alt"] if draw(st.booleans()) else []), "action": "store_split", "sep": ",", "format": "p-$value", "dest": "passes"}
                if draw(st.booleans()):
                    r["default"] = draw(st.lists(st.sampled_from(pass_names), min_size=1, max_size=2, unique=True))
                    if len(r["default"]) == 1 and draw(st.booleans()):
                        r["default"] = r["default"][0]  # the schema allows a plain string
                rules.append(r)
            else:
                r = {"flags": [flag], "action": "extend_match", "pattern": "v(\\d+)", "format": "p-$value", "dest": "passes"}
                if draw(st.booleans()):
                    r["default"] = draw(st.lists(st.sampled_from(pass_names), min_size=1, max_size=2, unique=True))
                    if len(r["default"]) == 1 and draw(st.booleans()):
                        r["default"] = r["default"][0]
                if draw(st.booleans()):
                    r["override"] = draw(st.booleans())
                rules.append(r)
        if redefines_builtin and draw(st.integers(0, 2)) == 0:
            # the user's rule replaces the built-in one for this flag
            rules.append({"flags": ["-fopenmp"], "action": "append_const", "dest": "defines", "const": "USER_OPENMP=1"})
        # constructed scenario "a flag is declared again with another arity": a later rule of the same table, or a
        # user rule for the built-in (value-less) -fopenmp, gives a value-less flag a value or takes the value away
        again = [r["flags"][0] for r in rules if len(r["flags"]) == 1] + (["-fopenmp"] if redefines_builtin else [])
        if again and draw(st.integers(0, 2)) == 0:
            flag = draw(st.sampled_from(again))
            tag = re.sub(r"\W", "", flag).upper()
            rules.append(draw(valued_rule(flag)) if draw(st.integers(0, 3)) else {"flags": [flag], "action": "append_const", "dest": "defines", "const": f"AGAIN_{tag}"})
        if rules:
            d["parser"] = rules
        opts = draw(st.lists(st.sampled_from(["-DIMPL", "-DIMPL2=3", "-I/impl/inc", "-isystem", "/impl/sys", "-include", "impl.h"] + [r["flags"][0] for r in effective_rules(rules) if r["action"] == "append_const"]), max_size=3))
        # keep "-isystem"/"-include" paired with their value
        fixed = []
        for o in opts:
            if o in ("/impl/sys", "impl.h"):
                continue
            fixed.append(o)
            if o == "-isystem":
                fixed.append("/impl/sys")
            if o == "-include":
                fixed.append("impl.h")
        if fixed:
            d["options"] = fixed
        if modes:
            d["modes"] = [{"name": m, **draw(contrib(m.upper()))} for m in modes]
        if not fixed and not rules and not modes and not passes and draw(st.booleans()):
            d["options"] = ["-DONLY_OPTION"]  # otherwise: an empty table, a compiler that is known and adds nothing
        if passes:
            d["passes"] = [{"name": p, **draw(contrib(p.replace("-", "").upper())), **({"modes": draw(st.lists(st.sampled_from(mode_names), max_size=2, unique=True))} if draw(st.booleans()) else {})} for p in passes]
        return d

    @st.composite
    def cfg(draw):
        user = {}
        for i, name in enumerate(draw(st.lists(st.sampled_from(NEW), min_size=1, max_size=4, unique=True))):
            if draw(st.integers(0, 2)) == 0:
                user[name] = {"alias_of": draw(st.sampled_from(NEW + BUILTINS + ["nonexistent"]))}
            else:
                user[name] = draw(definition(f"f{name[0]}"))
        for name in draw(st.lists(st.sampled_from(BUILTINS), max_size=2, unique=True)):
            if draw(st.integers(0, 3)) == 0:
                user[name] = {"alias_of": draw(st.sampled_from(NEW + BUILTINS + ["nonexistent"]))}
            else:
                user[name] = draw(definition(f"u{name[0]}{len(name)}", redefines_builtin=True))
        return user

    return cfg()


def commands_for(draw, comps, user):
    """three command lines for compilers of this configuration"""
    from hypothesis import strategies as st

    cmds = []
    names = sorted(set(user) | {"gcc", "nvcc", "icpx"})
    for _ in range(3):
        name = draw(st.sampled_from(names))
        prefix = draw(st.sampled_from(["", "", "/usr/bin/", "../tools/bin/", "./"]))
        defn, problem = resolve(comps, name)
        argv = []
        flags = []
        declared_again = {f for f, _, _ in redeclarations(defn["parser"])} if defn else set()
        if defn:
            for r in effective_rules(defn["parser"]):
                f = draw(st.sampled_from(r["flags"])) if r["action"] == "store_split" and len(r["flags"]) > 1 and r["flags"][0].lstrip("-").startswith(("f", "u")) else r["flags"][0]
                if r["action"] == "append_const":
                    flags.append([f])
                    if f in declared_again:
                        # a flag without a value may still be written with one (clang's -fopenmp=libomp)
                        flags.append([f + "=" + draw(st.sampled_from(["1", "v1", "m1", "libomp"]))])
                elif r["action"] == "store_split":
                    v = draw(st.sampled_from(["1", "1,2", "3,1", "2", "9"])) if f.lstrip("-").startswith(("f", "u")) else draw(st.sampled_from(["spir64", "spir64,spir64_gen", "nvptx64-nvidia-cuda"]))
                    flags.append([f"{f}={v}"] if draw(st.booleans()) else [f, v])
                elif r.get("dest") == "modes":
                    v = draw(st.sampled_from(["m0", "m1,m2", "m2", "x", "m0,m1"]))
                    flags.append([f"{f}={v}"] if draw(st.booleans()) else [f, v])
                    if draw(st.booleans()):
                        flags.append([f, draw(st.sampled_from(["m1", "m2"]))])  # the same flag again
                else:
                    v = draw(st.sampled_from(["v1", "v1,v2", "v3", "none", "v2,v9"])) if f.lstrip("-").startswith(("f", "u")) else draw(st.sampled_from(["sm_70", "compute_80,sm_80", "sm_75,sm_90", "arch=compute_89,code=sm_89"]))
                    flags.append([f"{f}={v}"] if (draw(st.booleans()) and f.lstrip("-").startswith(("f", "u"))) else [f, v])
        chosen = draw(st.lists(st.sampled_from(flags), max_size=5)) if flags else []
        if defn and draw(st.integers(0, 3)) == 0:
            # an argument that only starts like a declared flag is not that flag
            decl = [f for r in defn["parser"] for f in r["flags"] if len(f) > 4 and f.lstrip("-").startswith(("f", "u"))]
            if decl:
                chosen = chosen + [[draw(st.sampled_from(decl))[:-1]]]
        base = draw(st.lists(st.sampled_from([["-DCMD"], ["-D", "CMD2=1"], ["-I/cmd/inc"], ["-isystem", "/cmd/sys"], ["-include", "cmd.h"], ["-I", "/shared/inc"]]), max_size=3))
        parts = chosen + base
        parts = draw(st.permutations(parts)) if parts else []
        for pt in parts:
            argv += pt
        cmds.append({"argv0": prefix + name, "argv": argv})
    return cmds


def case_strategy():
    from hypothesis import strategies as st

    builtins = load_builtins()

    @st.composite
    def case(draw):
        user = draw(config_strategy())
        comps = merge_user(builtins, user)
        return {"user": user, "commands": commands_for(draw, comps, user)}

    return case()


# ---------------------------------------------------------------- checking


def check_case(case, res: Result):
    builtins = load_builtins()
    user = case["user"]
    comps = merge_user(builtins, user)
    text = write_toml(user)
    vs = []
    cj = {"config": text, "commands": case["commands"], "user": user}
    try:
        parsed = tomllib.loads(text)
        import jsonschema

        with open(os.path.join(core.REPO, "codebasin", "schema", "cbiconfig.schema")) as fh:
            jsonschema.validate(parsed, json.load(fh))
    except Exception as e:
        if any(not d for d in user.values()):
            # an empty compiler table is the documented way to declare a compiler that adds nothing
            return [make_violation("schema-rejects-empty-compiler-table", cj, "the configuration is valid", f"{type(e).__name__}: {str(e)[:200]}")]
        raise core.HarnessError(f"generated configuration is not valid for the documented schema: {e}\n{text}")
    results = []
    with Session(text) as s:
        for cmd in case["commands"] + case["commands"][:1]:  # the first command once more at the end: purity
            name = os.path.basename(cmd["argv0"])
            defn, problem = resolve(comps, name)
            n0 = len(s.cap.records)
            try:
                got = s.parse(cmd["argv0"], cmd["argv"])
            except Exception as e:
                vs.append(make_violation(f"exception:{type(e).__name__}", {**cj, "command": cmd}, "parse succeeds", f"{type(e).__name__}: {e}"))
                break
            recs = s.cap.records[n0:]
            exp = model_parse(defn, cmd["argv"])
            d = compare(exp, got)
            if d:
                vs.append(make_violation(f"configuration:{d[0]}" + (f":{problem}" if problem else ""), {**cj, "command": cmd}, d[1], d[2]))
                break
            if problem in ("loop", "dangling") and not any(l >= logging.ERROR for l, m in recs):
                vs.append(make_violation(f"alias-{problem}-not-reported", {**cj, "command": cmd}, "an ERROR record", [m for l, m in recs][:4]))
                break
            if problem == "unrecognized" and not any(l == logging.WARNING and name in m for l, m in recs):
                vs.append(make_violation("unknown-compiler-not-reported", {**cj, "command": cmd}, "a WARNING naming the compiler", [m for l, m in recs][:4]))
                break
            results.append((cmd, got))
        if not vs and results:
            first, again = results[0][1], results[-1][1]
            if first != again:
                vs.append(make_violation("impure:same-command-parsed-again-differs", {**cj, "command": results[0][0]}, first, again))
        if not vs and (len(text) + len(case["commands"])) % 3 == 0:
            # (every third case) the same purity through load_database: a database with all commands must give the
            # concatenation of what single-command databases give
            from codebasin import config

            def load(entries, tag):
                p = os.path.join(s.dir, f"db-{tag}.json")
                with open(p, "w") as f:
                    json.dump(entries, f)
                return config.load_database(p, s.dir)

            ents = []
            for i, cmd in enumerate(case["commands"]):
                src = f"src{i}.c"
                with open(os.path.join(s.dir, src), "w") as f:
                    f.write("int x;\n")
                ents.append({"directory": s.dir, "file": src, "arguments": [cmd["argv0"], *cmd["argv"], "-c", src]})
            try:
                together = load(ents, "all")
                apart = []
                for i, e in enumerate(ents):
                    apart += load([e], f"one{i}")
                if together != apart:
                    bad = next(i for i, (a, b) in enumerate(zip(together + [None] * len(apart), apart + [None] * len(together))) if a != b)
                    vs.append(make_violation("impure:database-differs-from-single-command-databases", cj, apart[bad] if bad < len(apart) else None, together[bad] if bad < len(together) else None))
                res.labels["database-purity-compared"] += 1
            except Exception as e:
                vs.append(make_violation(f"load_database:exception:{type(e).__name__}", cj, "loads", f"{type(e).__name__}: {e}"))
    # implicit == explicit
    if not vs:
        for cmd in case["commands"][:2]:
            name = os.path.basename(cmd["argv0"])
            defn, problem = resolve(comps, name)
            if not defn or not defn["options"]:
                continue
            # owner of the options: the compiler definition the name resolves to
            owner = name
            while comps[owner]["alias_of"]:
                owner = comps[owner]["alias_of"]
            if owner not in user or "options" not in user[owner] or owner in builtins and builtins[owner]["options"]:
                continue
            u2 = json.loads(json.dumps(user))
            opts = u2[owner].pop("options")
            if not u2[owner]:
                continue  # an empty table is not a valid configuration
            with Session(write_toml(u2)) as s2:
                try:
                    explicit = s2.parse(cmd["argv0"], cmd["argv"] + opts)
                except Exception as e:
                    vs.append(make_violation(f"exception:{type(e).__name__}", {**cj, "command": cmd}, "parse succeeds", str(e)))
                    break
            with Session(text) as s1:
                implicit = s1.parse(cmd["argv0"], cmd["argv"])
            if implicit != explicit:
                vs.append(make_violation("implicit-options-differ-from-explicit", {**cj, "command": cmd}, explicit, implicit))
                break
            res.labels["implicit==explicit compared"] += 1
    chains = 0
    for n in user:
        k, cur, seen = 0, n, set()
        while cur in comps and comps[cur]["alias_of"] and cur not in seen:
            seen.add(cur)
            cur = comps[cur]["alias_of"]
            k += 1
        chains = max(chains, k)
    multi = any(len(model_parse(resolve(comps, os.path.basename(c["argv0"]))[0], c["argv"])) >= 3 for c in case["commands"])
    pass_mode = any(p.get("modes") for d in user.values() for p in d.get("passes", []))
    mod_builtin = any(n in builtins for n in user)
    again = set()
    for c in case["commands"]:
        dfn = resolve(comps, os.path.basename(c["argv0"]))[0]
        for f, was_valued, is_valued in redeclarations(dfn["parser"]) if dfn else []:
            for a in c["argv"]:
                if a == f or a.startswith(f + "="):
                    again.add("flag-declared-again:" + ("valued" if was_valued else "value-less") + "->" + ("valued" if is_valued else "value-less") + (":written-with-=" if a != f else ""))
    nt = chains >= 2 or multi or pass_mode or mod_builtin or bool(again)
    res.case(key=[text, case["commands"]], nontrivial=nt, sample={"config": text, "commands": case["commands"]} if (multi and len(res.samples) < 6) else None, labels=[f"alias-chain={min(chains,4)}", "multi-pass" if multi else "single-pass", "modifies-builtin" if mod_builtin else "new-only", *sorted(again)])
    return vs


def _rand_shard(seed, n, known):
    core.setup_import_path()
    res = Result()
    core.hyp_search(case_strategy(), check_case, n, seed, res, known_sigs=known)
    return res


# ---------------------------------------------------------------- built-in definitions, every documented flag combination


def _builtin_shard(shard, nshards, known):
    core.setup_import_path()
    res = Result()
    builtins = load_builtins()
    combos = []
    for comp in ("gcc", "g++"):
        for k in range(2):
            combos.append((comp, ["-fopenmp"] * k))
    for comp in ("clang", "clang++"):
        for fl in itertools.product([0, 1], repeat=2):
            combos.append((comp, [f for f, on in zip(["-fopenmp", "-fsycl-is-device"], fl) if on]))
    targets = ["spir64", "spir64_x86_64", "spir64_gen", "spir64_fpga", "nvptx64-nvidia-cuda"]
    for comp in ("icx", "icpx"):
        for fl in itertools.product([0, 1], repeat=2):
            base = [f for f, on in zip(["-fopenmp", "-fsycl"], fl) if on]
            combos.append((comp, base))
            for r in range(1, len(targets) + 1):
                for sub in itertools.combinations(targets, r):
                    combos.append((comp, base + ["-fsycl-targets=" + ",".join(sub)]))
    archs = ["sm_70", "sm_75", "sm_80", "sm_89", "sm_90"]
    for k in range(2):
        combos.append(("nvcc", ["-fopenmp"] * k))
        for r in range(1, 4):
            for sub in itertools.combinations(archs, r):
                combos.append(("nvcc", ["-fopenmp"] * k + ["--gpu-architecture=" + sub[0].replace("sm_", "compute_"), "--gpu-code=" + ",".join(sub)]))
                combos.append(("nvcc", ["-fopenmp"] * k + [x for a in sub for x in ("-gencode", f"arch={a.replace('sm_','compute_')},code={a}")]))
    comps = merge_user(builtins, {})
    with Session(None) as s:
        for idx, (comp, argv) in enumerate(combos):
            if idx % nshards != shard:
                continue
            defn, problem = resolve(comps, comp)
            argv = argv + ["-DUSER", "test.cpp"]
            try:
                got = s.parse(comp, argv)
            except Exception as e:
                res.violation(f"builtin:exception:{type(e).__name__}", {"compiler": comp, "argv": argv}, "parse succeeds", str(e))
                continue
            exp = model_parse(defn, argv)
            d = compare(exp, got)
            res.case(key=["builtin", comp, argv], nontrivial=len(exp) >= 2, sample={"compiler": comp, "argv": argv, "passes": sorted(exp)} if idx % 40 == 0 else None, labels=[f"builtin:{comp}"])
            if d:
                res.violation(f"builtin:{comp}:{d[0]}", {"compiler": comp, "argv": argv}, d[1], d[2])
    return res


# ---------------------------------------------------------------- through finder.find


def _find_shard(seed, n, known):
    """a line guarded by _OPENMP / __CUDA_ARCH__ / __SYCL_DEVICE_ONLY__ is attributed iff some pass defines the macro"""
    core.setup_import_path()
    from hypothesis import strategies as st

    from codebasin import CodeBase, config, finder

    res = Result()
    builtins = load_builtins()
    comps = merge_user(builtins, {})
    macros = ["_OPENMP", "__CUDA_ARCH__", "__SYCL_DEVICE_ONLY__", "__NVCC__", "SYCL_LANGUAGE_VERSION", "__SPIR__"]
    cmd = st.sampled_from(
        [("gcc", []), ("gcc", ["-fopenmp"]), ("clang", ["-fsycl-is-device"]), ("icpx", ["-fsycl"]), ("icpx", []), ("icx", ["-fopenmp", "-fsycl-targets=spir64_gen"]), ("nvcc", []), ("nvcc", ["-fopenmp", "--gpu-code=sm_80"]), ("g++", ["-fopenmp", "-D__CUDA_ARCH__=1"])]
    )

    def chk(cmds, r):
        with core.Scratch("c12f") as root:
            src = "".join(f"#ifdef {m}\nint guarded_{i};\n#endif\n" for i, m in enumerate(macros))
            with open(os.path.join(root, "main.cpp"), "w") as f:
                f.write(src)
            db = [{"directory": root, "file": "main.cpp", "arguments": [c, *a, "-c", "main.cpp"]} for c, a in cmds]
            with open(os.path.join(root, "db.json"), "w") as f:
                json.dump(db, f)
            old = os.getcwd()
            os.chdir(root)
            try:
                config._compilers = None
                cfg = {"p": config.load_database(os.path.join(root, "db.json"), root)}
                state = finder.find(root, CodeBase(root), cfg)
            finally:
                os.chdir(old)
            a, _ = observe.attribution_of(state, os.path.join(root, "main.cpp"))
        defined = set()
        for c, argv in cmds:
            defn, _ = resolve(comps, c)
            for p, (cmdl, contrib) in model_parse(defn, argv).items():
                for d in cmdl[0] + list(contrib[0]):
                    defined.add(d.split("=")[0])
        exp = {3 * i + 2: (m in defined) for i, m in enumerate(macros)}
        got = {ln: bool(a.get(ln)) for ln in exp}
        r.case(key=["find", cmds], nontrivial=len(defined) >= 2, sample={"commands": cmds, "macros_defined_by_some_pass": sorted(defined)} if len(defined) >= 3 else None, labels=["finder"])
        if exp != got:
            return [make_violation("finder:guarded-line-attribution", {"commands": cmds}, {macros[(k - 2) // 3]: v for k, v in exp.items()}, {macros[(k - 2) // 3]: v for k, v in got.items()})]
        return []

    core.hyp_search(st.lists(cmd, min_size=1, max_size=3), chk, n, seed, res, known_sigs=known)
    return res


def _find_user_shard(seed, n, known):
    """A user-defined compiler whose flag selects passes that contribute ONLY an include file, ONLY an
    include path or ONLY a define: a line guarded by what that contribution provides is attributed iff
    some pass of some command provides it (through config.load_database + finder.find)."""
    core.setup_import_path()
    from hypothesis import strategies as st

    from codebasin import CodeBase, config, finder

    res = Result()
    kinds = ["include_files", "include_paths", "defines"]

    def toml_for(pkinds):
        out = ['[compiler.devcc]', '[[compiler.devcc.parser]]', 'flags = ["-fdev"]', 'action = "store_split"', 'sep = ","', 'format = "p-$value"', 'dest = "passes"']
        for i, k in enumerate(pkinds):
            out += ["[[compiler.devcc.passes]]", f'name = "p-{i}"']
            if k == "include_files":
                out.append(f'include_files = ["dev{i}.h"]')
            elif k == "include_paths":
                out.append(f'include_paths = ["inc{i}"]')
            else:
                out.append(f'defines = ["DEVMAC{i}"]')
        return "\n".join(out) + "\n"

    case = st.tuples(st.lists(st.sampled_from(kinds), min_size=1, max_size=3), st.lists(st.lists(st.integers(0, 2), max_size=3, unique=True), min_size=1, max_size=3))

    def chk(c, r):
        pkinds, cmds = c
        cmds = [[i for i in sel if i < len(pkinds)] for sel in cmds]
        with core.Scratch("c12u") as root:
            files = {".cbi/config": toml_for(pkinds)}
            src = []
            for i, k in enumerate(pkinds):
                files[f"dev{i}.h"] = f"#define DEVMAC{i} 1\n"
                files[f"inc{i}/only{i}.h"] = f"#define DEVMAC{i} 1\n"
                if k == "include_paths":
                    src.append(f"#include <only{i}.h>")
                else:
                    src.append(f"/* pass {i} */")
                src += [f"#ifdef DEVMAC{i}", f"int guarded{i};", "#endif", f"#undef DEVMAC{i}"]
            files["main.c"] = "\n".join(src) + "\n"
            core.write_tree(root, files)
            db = [{"directory": root, "file": "main.c", "arguments": ["devcc"] + (["-fdev=" + ",".join(str(i) for i in sel)] if sel else []) + ["-c", "main.c"]} for sel in cmds]
            with open(os.path.join(root, "db.json"), "w") as f:
                json.dump(db, f)
            old = os.getcwd()
            os.chdir(root)
            try:
                config._compilers = None
                cfg = {"p": config.load_database(os.path.join(root, "db.json"), root)}
                state = finder.find(root, CodeBase(root), cfg)
            except Exception as e:
                return [make_violation(f"user-pass-pipeline:exception:{type(e).__name__}", {"passes": pkinds, "commands": cmds}, "analysis succeeds", f"{type(e).__name__}: {e}")]
            finally:
                os.chdir(old)
                config._compilers = None
            a, _ = observe.attribution_of(state, os.path.join(root, "main.c"))
        selected = {i for sel in cmds for i in sel}
        exp = {5 * i + 3: (i in selected) for i in range(len(pkinds))}
        got = {ln: bool(a.get(ln)) for ln in exp}
        r.case(key=["user-pass", pkinds, cmds], nontrivial=len(selected) >= 1 and len(cmds) >= 1, sample={"pass_kinds": pkinds, "commands": cmds} if len(selected) >= 2 else None, labels=["finder-user-pass"])
        if exp != got:
            return [make_violation("user-pass-pipeline:guarded-line-attribution", {"passes": pkinds, "commands": cmds}, exp, got)]
        return []

    core.hyp_search(case, chk, n, seed, res, known_sigs=known)
    return res


def _dispatch(job):
    fn, a = job
    return fn(*a)


def run(ctx):
    n = core.NPROC
    nrand = ctx.pick(1500, 50000)
    jobs = [(_rand_shard, (ctx.shard_seed("rand", i), nrand // (n - 4), ctx.known_sigs)) for i in range(n - 4)]
    jobs += [(_builtin_shard, (i, 2, ctx.known_sigs)) for i in range(2)]
    jobs += [(_find_shard, (ctx.shard_seed("find", i), ctx.pick(40, 600), ctx.known_sigs)) for i in range(2)]
    jobs += [(_find_user_shard, (ctx.shard_seed("finduser", i), ctx.pick(60, 1500), ctx.known_sigs)) for i in range(2)]
    res = core.merge_results(core.pool_map(_dispatch, [(j,) for j in jobs]))
    res.exhaustive = False
    res.extra["exhaustive_part"] = "built-in definitions: gcc/g++ x -fopenmp, clang x {-fopenmp,-fsycl-is-device}, icx/icpx x {-fopenmp,-fsycl} x every subset of 5 targets, nvcc x -fopenmp x architecture lists of size <= 3 in two spellings"
    return res


def replay(case):
    core.setup_import_path()
    if "user" in case:
        return check_case({"user": case["user"], "commands": case["commands"]}, Result())
    return []
