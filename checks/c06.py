"""C06 - every counted line lands in exactly one platform set; all reports
agree (DESIGN.md section 2, C06)."""

import collections
import hashlib
import io
import json
import os
from fractions import Fraction

from checks import c07
from vlib import cbcase, core, observe
from vlib.core import Result, make_violation

PROP = "C06"
RULE = (
    "random code bases (1-5 directories, 1-12 C/C++/CUDA/Fortran/asm files with conditionals and includes, non-source "
    "files, unused files, file symlinks) analysed for 0-4 platforms with 0-4 compile commands each (gcc/g++/nvcc/"
    "gfortran entries in real compilation databases). Oracle: the in-process per-line attribution A is the common "
    "reference; get_setmap must be the histogram of A, the summary rows/percentages/total must follow from it, every "
    "cbi-tree row (file and directory, with --prune and -L) must follow from A restricted to the files beneath it, and "
    "cbi-cov must partition each file's counted lines into used/unused as the platform analysed alone does, with the "
    "SHA-512 of the bytes as id. In-process reports for every case, the three real CLIs for a subset. Non-trivial: >=2 "
    "platforms with different line sets, >=2 directories, >=1 unused file and >=3 distinct platform sets; distinct by tree+databases."
)
ASSUMPTIONS = [
    "percentages and coverages are compared at the printed precision (2 decimals, +-0.0051)",
    "code bases without any counted line are discarded (the summary's percentage is undefined there)",
    "SLOC cells above 999 use the tool's own abbreviation and are compared after applying the same rounding",
]


def human(x):
    d = len(str(x))
    if d <= 3:
        return str(x)
    if d <= 6:
        return f"{x/10**3:.1f}k"
    if d <= 9:
        return f"{x/10**6:.1f}M"
    return "?"


def near(printed, acceptable):
    try:
        v = float(printed)
    except (TypeError, ValueError):
        return False
    if v != v:
        return c07.NAN in acceptable
    return any(a != c07.NAN and abs(v - float(a)) <= 0.0051 for a in acceptable)


def m_cov(table, platforms):
    return c07.m_coverage(table, set(platforms) or None)


def m_avg(table, platforms):
    return c07.m_avg_coverage(table, set(platforms) or None)


def plats_of(table):
    return c07.m_platforms(table)


def expected_rows(root, hist, prune):
    """path (relative, '' for the root) -> dict(letters, sloc, table, is_dir, link)"""
    listed = []
    for f, (is_link, h, a) in hist.items():
        if prune and not plats_of(h):
            continue
        listed.append((f, is_link, h))
    tables = collections.defaultdict(collections.Counter)
    is_dir = {"": True}
    link = {}
    for f, is_link, h in listed:
        rel = os.path.relpath(f, root)
        parts = rel.split(os.sep)
        for i in range(len(parts)):
            d = os.sep.join(parts[:i])
            is_dir[d] = True
            if not is_link:
                tables[d].update(h)
            else:
                tables[d]  # touch
        tables[rel] = collections.Counter(h)
        is_dir[rel] = False
        if is_link:
            link[rel] = os.path.realpath(f)
    root_platforms = sorted(plats_of(tables[""]))
    rows = {}
    for path, dirflag in is_dir.items():
        t = {k: v for k, v in tables[path].items()}
        mine = plats_of(t)
        letters = "".join(chr(65 + i) if p in mine else "-" for i, p in enumerate(root_platforms))
        rows[path] = {"letters": letters, "sloc": human(sum(t.values())), "cov": m_cov(t, root_platforms), "avg": m_avg(t, root_platforms), "is_dir": dirflag, "link": link.get(path), "depth": 0 if path == "" else path.count(os.sep) + 1}
    return rows, root_platforms


def parse_rows(stdout, root):
    legend, rows = observe.parse_tree(stdout)
    out = {}
    stack = []
    bad = []
    for depth, name, letters, sloc, cov, avg, is_dir, target in rows:
        if depth is None:
            bad.append(name)
            continue
        if depth == 0:
            path = ""
            stack = [""]
        else:
            stack = stack[:depth]
            parent = stack[-1] if stack else ""
            path = name if parent == "" else parent + os.sep + name
            stack.append(path)
        if path in out:
            bad.append(f"duplicate row {path}")
        out[path] = {"letters": letters, "sloc": sloc, "cov": cov, "avg": avg, "is_dir": is_dir, "link": target, "depth": depth}
    return legend, out, bad


def compare_tree(tag, stdout, root, hist, prune, levels, cj):
    vs = []
    exp, root_platforms = expected_rows(root, hist, prune)
    legend, got, bad = parse_rows(stdout, root)
    if bad:
        vs.append(make_violation(f"tree:{tag}:unparsed-row", cj, None, bad[:5]))
    exp_legend = {chr(65 + i): p for i, p in enumerate(root_platforms)}
    if legend != exp_legend:
        vs.append(make_violation(f"tree:{tag}:legend", cj, exp_legend, legend))
    if levels is not None:
        exp = {p: r for p, r in exp.items() if r["depth"] <= levels}
    if set(exp) != set(got):
        vs.append(make_violation(f"tree:{tag}:rows-listed", cj, sorted(exp), sorted(got)))
        return vs
    for path, e in exp.items():
        g = got[path]
        what = None
        if g["letters"] != e["letters"]:
            what = "platforms"
        elif g["sloc"] != e["sloc"]:
            what = "sloc"
        elif not near(g["cov"], e["cov"]):
            what = "coverage"
        elif not near(g["avg"], e["avg"]):
            what = "avg-coverage"
        elif bool(g["is_dir"]) != bool(e["is_dir"]):
            what = "kind"
        elif e["link"] and g["link"] != e["link"]:
            what = "link-target"
        if what:
            kind = "dir" if e["is_dir"] else ("link" if e["link"] else "file")
            vs.append(make_violation(f"tree:{tag}:{kind}-row:{what}", cj, {"path": path, "letters": e["letters"], "sloc": e["sloc"], "cov": c07.show(e["cov"]), "avg": c07.show(e["avg"])}, {"path": path, **{k: g[k] for k in ("letters", "sloc", "cov", "avg", "link")}}))
            break
    return vs


def compare_summary(tag, stdout, table, cj):
    vs = []
    s = observe.parse_summary(stdout)
    total = sum(table.values())
    exp_rows = {k: v for k, v in table.items()}
    got_rows = {k: v[0] for k, v in s["rows"].items()}
    if got_rows != exp_rows:
        vs.append(make_violation(f"summary:{tag}:rows", cj, sorted((sorted(k), v) for k, v in exp_rows.items()), sorted((sorted(k), v) for k, v in got_rows.items())))
        return vs
    for k, (cnt, pct) in s["rows"].items():
        if not near(pct, {Fraction(100 * cnt, total)}):
            vs.append(make_violation(f"summary:{tag}:percent", cj, float(Fraction(100 * cnt, total)), pct))
            break
    if s["total"] != str(total):
        vs.append(make_violation(f"summary:{tag}:total", cj, total, s["total"]))
    for key, acc in (("divergence", c07.m_divergence(table)), ("coverage", c07.m_coverage(table)), ("avg_coverage", c07.m_avg_coverage(table))):
        if not near(s[key], acc):
            vs.append(make_violation(f"summary:{tag}:{key}", cj, c07.show(acc), s[key]))
    return vs


def compare_cov(tag, cov, root, hist_alone, cj):
    """cov: parsed coverage.json; hist_alone: file_histograms of the platform analysed alone"""
    vs = []
    exp = {}
    for f, (is_link, h, a) in hist_alone.items():
        rel = os.path.relpath(f, root)
        with open(f, "rb") as fh:
            digest = hashlib.sha512(fh.read()).hexdigest()
        exp[rel] = {"id": digest, "used": sorted(l for l, ps in a.items() if ps), "unused": sorted(l for l, ps in a.items() if not ps)}
    got = {}
    for e in cov:
        if e["file"] in got:
            vs.append(make_violation(f"cov:{tag}:duplicate-entry", cj, None, e["file"]))
        got[e["file"]] = {"id": e["id"], "used": sorted(e["used_lines"]), "unused": sorted(e["unused_lines"])}
        if set(e["used_lines"]) & set(e["unused_lines"]) or len(set(e["used_lines"])) != len(e["used_lines"]) or len(set(e["unused_lines"])) != len(e["unused_lines"]):
            vs.append(make_violation(f"cov:{tag}:not-a-partition", cj, None, e))
    if set(got) != set(exp):
        vs.append(make_violation(f"cov:{tag}:files-listed", cj, sorted(exp), sorted(got)))
        return vs
    for rel in exp:
        for k in ("id", "used", "unused"):
            if got[rel][k] != exp[rel][k]:
                vs.append(make_violation(f"cov:{tag}:{k}", cj, {rel: exp[rel]}, {rel: got[rel]}))
                return vs
    return vs


def cov_inprocess(root, dbpath, out):
    import argparse

    from codebasin import config
    from codebasin.coverage.__main__ import _compute

    config._compilers = None
    with cbcase.chdir(root):
        try:
            _compute(argparse.Namespace(ifile=dbpath, ofile=out, source_dir=root, excludes=[]))
        except SystemExit as e:
            if e.code not in (0, None):
                raise RuntimeError(f"cbi-cov exit {e.code}")
    with open(out) as f:
        return json.load(f)


def check_case(case, res: Result, cli=False):
    from codebasin import report

    vs = []
    with core.Scratch("c06") as top:
        root = os.path.join(top, "cb")
        os.makedirs(root)
        m = cbcase.materialise(case, root)
        cj = {"case": case, "texts": m["texts"]}
        try:
            state, cb, cfg = cbcase.analyse(root, m["dbs"])
            hist, problems = cbcase.file_histograms(state, cb)
            setmap = dict(state.get_setmap(cb))
        except Exception as e:
            return [make_violation(f"exception:{type(e).__name__}", cj, "analysis succeeds", f"{type(e).__name__}: {e}")]
        table = collections.Counter()
        for f, (is_link, h, a) in hist.items():
            if not is_link:
                table.update(h)
        table = dict(table)
        total = sum(table.values())
        if total == 0:
            res.discarded["no-counted-line"] += 1
            return []
        if problems:
            vs.append(make_violation("structure:line-in-two-nodes", cj, None, problems[:3]))
        if {k: v for k, v in setmap.items() if v} != table:
            vs.append(make_violation("setmap:not-histogram-of-attribution", cj, sorted((sorted(k), v) for k, v in table.items()), sorted((sorted(k), v) for k, v in setmap.items())))
        # --- summary
        try:
            buf = io.StringIO()
            report.summary(setmap, stream=buf)
            vs += compare_summary("api", buf.getvalue(), {k: v for k, v in setmap.items()}, cj) if set(setmap) == set(table) else []
            for prune, levels in ((False, None), (True, None), (False, 1), (False, 2), (True, 2)):
                buf = io.StringIO()
                report.files(cb, state, stream=buf, prune=prune, levels=levels)
                vs += compare_tree(f"api:prune={int(prune)},L={levels}", buf.getvalue(), root, hist, prune, levels, cj)
        except Exception as e:
            vs.append(make_violation(f"report-exception:{type(e).__name__}", cj, "report succeeds", f"{type(e).__name__}: {e}"))
        # --- coverage export, platform analysed alone
        for pname in sorted(case["platforms"])[:2]:
            try:
                st1, cb1, _ = cbcase.analyse(root, {pname: m["dbs"][pname]})
                h1, _ = cbcase.file_histograms(st1, cb1)
                cov = cov_inprocess(root, m["dbs"][pname], os.path.join(top, f"cov-{pname}.json"))
                vs += compare_cov("api", cov, root, h1, cj)
            except Exception as e:
                vs.append(make_violation(f"cov-exception:{type(e).__name__}", cj, "cbi-cov succeeds", f"{type(e).__name__}: {e}"))
        # --- the real front ends
        if cli and case["platforms"]:
            rc, out, err = observe.run_cli("codebasin", ["-R", "summary", m["analysis"]], cwd=root)
            if rc != 0:
                vs.append(make_violation("cli:codebasin:exit", cj, 0, [rc, out[-300:], err[-300:]]))
            else:
                vs += compare_summary("cli", out, table, cj)
            for prune, levels in ((False, None), (True, 1)):
                args = (["--prune"] if prune else []) + (["-L", str(levels)] if levels else []) + [m["analysis"]]
                rc, out, err = observe.run_cli("codebasin.tree", args, cwd=root)
                if rc != 0:
                    vs.append(make_violation("cli:cbi-tree:exit", cj, 0, [rc, out[-300:], err[-300:]]))
                else:
                    vs += compare_tree(f"cli:prune={int(prune)},L={levels}", out, root, hist, prune, levels, cj)
            pname = sorted(case["platforms"])[0]
            covp = os.path.join(top, "cli-cov.json")
            rc, out, err = observe.run_cli("codebasin.coverage", ["compute", "-S", root, "-o", covp, m["dbs"][pname]], cwd=root)
            if rc != 0:
                vs.append(make_violation("cli:cbi-cov:exit", cj, 0, [rc, out[-300:], err[-300:]]))
            else:
                st1, cb1, _ = cbcase.analyse(root, {pname: m["dbs"][pname]})
                h1, _ = cbcase.file_histograms(st1, cb1)
                with open(covp) as f:
                    vs += compare_cov("cli", json.load(f), root, h1, cj)
            res.labels["cli-triples"] += 1
        nplat = len(plats_of(table))
        ndirs = len({os.path.dirname(f) for f in hist})
        unused = any(not plats_of(h) for (_, h, _) in hist.values())
        nt = nplat >= 2 and ndirs >= 2 and unused and len(table) >= 3
        res.case(
            key=[m["texts"], case["platforms"], case.get("symlinks")],
            nontrivial=nt,
            sample={"files": sorted(os.path.relpath(f, root) for f in hist), "platforms": {p: [cbcase.argv_for(c) for c in cs] for p, cs in case["platforms"].items()}, "setmap": sorted((sorted(k), v) for k, v in table.items())} if nt else None,
            labels=[f"platforms={nplat}", f"sets={min(len(table),6)}", "links" if case.get("symlinks") else "no-links"],
        )
    return vs


def _shard(seed, n, known, cli):
    core.setup_import_path()
    from vlib import gen_cb

    res = Result()
    from hypothesis import strategies as st

    strat = st.one_of(gen_cb.codebases(), gen_cb.codebases(min_platforms=2, header_bias=True), gen_cb.codebases(min_platforms=3, max_files=12))
    core.hyp_search(strat, lambda c, r: check_case(c, r, cli=cli), n, seed, res, known_sigs=known, shrink=not cli)
    return res


def run(ctx):
    n = core.NPROC
    nproc_api = n - 4
    napi = ctx.pick(400, 20000)
    ncli = ctx.pick(24, 1000)
    jobs = [(ctx.shard_seed("api", i), max(1, napi // nproc_api), ctx.known_sigs, False) for i in range(nproc_api)]
    jobs += [(ctx.shard_seed("cli", i), max(1, ncli // 4), ctx.known_sigs, True) for i in range(4)]
    res = core.merge_results(core.pool_map(_shard, jobs))
    res.exhaustive = False
    return res


def replay(case):
    core.setup_import_path()
    res = Result()
    return check_case(case["case"], res, cli=False)
