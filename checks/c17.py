"""C17 - Fortran sources: comment/continuation handling and preprocessor
conditionals (DESIGN.md section 2, C17)."""

import itertools
import os
import re
import subprocess

from vlib import core, observe
from vlib.core import Result, make_violation

PROP = "C17"
RULE = (
    "free-form Fortran program units generated from a grammar: assignments, calls and prints built from tokens and "
    "character literals (both quote kinds, doubled quotes, embedded ! & //), trailing and full-line comments (containing "
    "quotes and &), directive sentinels (!$omp, !$acc, !$, !dir$, !dec$), continuations with and without a leading &, "
    "continuation inside a character literal, comment, blank and directive-sentinel lines interleaved in a continued statement "
    "(the sentinel line is counted, the comment is not), blank lines, "
    "and nested #if/#ifdef/#ifndef/#elif/#else/#endif/#define/#undef lines; every text must pass `gfortran -cpp "
    "-fsyntax-only` silently. Oracle: the generator knows the role of every physical line (statement text, sentinel, "
    "directive, comment, blank), cross-checked by an independent reference scanner (harness error on disagreement); "
    "`gfortran -cpp -E` marker survival under every define set decides conditional selection. Observed: "
    "FileParser(path).parse_file() on .f90/.F90 (set of counted lines, no duplicates, total_sloc) and finder.find "
    "attribution of marker and directive lines, also for an included .inc file that inherits the language. Non-trivial: "
    "a continued statement with an interleaved comment, a literal containing ! or &, or a sentinel, combined with >=1 "
    "conditional; distinct by text."
)
ASSUMPTIONS = [
    "gfortran 12 with -cpp is the reference for well-formedness and for conditional selection",
    "backslashes are not generated (not part of the stated grammar)",
    "a sentinel is `!` + letters* + `$` at the start of a comment, as the statement's examples (!$omp, !$acc, !$, !dir$, !dec$)",
]

# ---------------------------------------------------------------- reference scanner


def scan(text):
    """-> set of counted physical lines (1-based), set of directive lines"""
    counted, directives = set(), set()
    in_char = None
    cont = False
    branch = []  # lexical state at the opening directive of each open conditional
    for n, line in enumerate(text.split("\n"), 1):
        s = line
        if s.startswith("#") or (not (cont and in_char) and s.lstrip().startswith("#")):
            # the preprocessor runs first: a `#` in column one is a directive even between the parts of a
            # continued literal, and every branch continues from the state at the opening directive
            counted.add(n)
            directives.add(n)
            m = re.match(r"\s*#\s*([a-z]*)", s)
            d = m.group(1) if m else ""
            if d in ("if", "ifdef", "ifndef"):
                branch.append((in_char, cont))
            elif d in ("else", "elif") and branch:
                in_char, cont = branch[-1]
            elif d == "endif" and branch:
                branch.pop()
            continue
        has_text = False
        i = 0
        stmt_last = None
        if cont and in_char and (not s.strip() or s.lstrip().startswith("!")):
            continue  # comment / blank lines may sit between the parts of a continued character literal
        if cont:
            # a continuation line may start with & (mandatory inside a character context)
            j = len(s) - len(s.lstrip())
            if j < len(s) and s[j] == "&":
                i = j + 1
            elif not s.strip() or s.lstrip().startswith("!") and not in_char:
                pass
        if not in_char and (not s.strip()):
            continue  # blank line (keeps a pending continuation)
        while i < len(s):
            c = s[i]
            if in_char:
                has_text = True
                stmt_last = c
                if c == in_char:
                    in_char = None
                i += 1
                continue
            if c in "'\"":
                in_char = c
                has_text = True
                stmt_last = c
            elif c == "!":
                m = re.match(r"![A-Za-z]*\$", s[i:])
                if m:
                    has_text = True  # directive sentinel: kept
                break
            elif not c.isspace():
                if c != "&":
                    has_text = True
                elif s[i + 1:].split("!")[0].strip():
                    has_text = True
                stmt_last = c
            i += 1
        if has_text or (stmt_last == "&" and s.strip() != "&" and False):
            counted.add(n)
        if stmt_last is not None:
            cont = stmt_last == "&"
        if in_char and not cont:
            in_char = None  # without a continuation a literal cannot run past the end of its line (free text in a skipped group)
        # comment-only line inside a continued statement leaves `cont` unchanged
    return counted, directives


# ---------------------------------------------------------------- generator

LITS = ["'plain'", '"dq"', "'it''s'", '"a!b"', "'c & d'", '"x // y"', "'say \"hi\"'", '"e&"', "'!'", '""', "'&'",
        "'\\'", '"\\"', "'C:\\dir\\'", '"a\\b"',  # a backslash is an ordinary character
        "'/*'", '"a /* b"', "'*/'",  # C comment markers mean nothing inside a Fortran literal
        "'x &! y'", '"fast &   ! furious"', "'a&!'", '"& !"', "'!&'", '"a ! b & c ! d"', "'&&'", "'! $omp'"]
COMMENTS = ["! comment", "!comment & more", "! it's \"quoted\"", "!! double", "!   ", "! & ampersand &"]
# roles of physical lines that are counted; "sentinel" is a directive sentinel line that sits between the lines of
# a continued statement (top-level sentinels keep the role "code")
COUNTED = ("code", "directive", "sentinel")
SENTINELS = ["!$omp parallel", "!$omp end parallel", "!$acc kernels", "!$acc end kernels", "!$ x = 2", "!dir$ ivdep", "!dec$ novector", "!$OMP BARRIER"]


def case_strategy():
    from hypothesis import strategies as st

    from vlib import gen_pp

    lit = st.sampled_from(LITS)
    expr_tok = st.one_of(st.sampled_from(["x", "y", "1", "2", "x + 1", "y * 2", "(x)"]), st.sampled_from(["x", "1"]))
    trailing = st.one_of(st.just(""), st.just(""), st.sampled_from(COMMENTS).map(lambda c: "  " + c))

    @st.composite
    def cont_sentinel(draw, indent):
        """a full-line directive sentinel (conditional compilation `!$`, `!$omp&`, `!dir$` ...) between the lines of
        a continued statement, outside any character literal: a counted line, unlike an ordinary comment there"""
        t = draw(st.sampled_from(SENTINELS + ["!$   & omp_arg, &", "!$omp& private(x)", "!$acc& copy(y)", "!DIR$ IVDEP", "!$ y, &  ! trailing"]))
        return (draw(st.sampled_from([indent, "", "  ", "\t"])) + t, "sentinel")

    @st.composite
    def statement(draw, marker_id):
        """-> list of (text, role) physical lines; role in code|comment|blank|sentinel"""
        kind = draw(st.sampled_from(["assign", "marker", "string", "print", "assign", "marker"]))
        if kind == "assign":
            parts = ["x", "=", draw(expr_tok), "+", draw(expr_tok)]
        elif kind == "marker":
            parts = ["call", f"m_{marker_id}()"]
        elif kind == "string":
            parts = ["s", "=", draw(lit), "//", draw(lit)]
        else:
            parts = ["print", "*,", draw(lit), ",", draw(expr_tok)]
        lines = []
        ncont = draw(st.sampled_from([0, 0, 0, 1, 1, 2])) if len(parts) >= 3 else 0
        cuts = sorted(draw(st.lists(st.integers(1, len(parts) - 1), min_size=ncont, max_size=ncont, unique=True))) if ncont else []
        segs = []
        prev = 0
        for c in cuts + [len(parts)]:
            segs.append(parts[prev:c])
            prev = c
        indent = draw(st.sampled_from(["", "  ", "    "]))
        for k, seg in enumerate(segs):
            t = indent + ("& " if (k > 0 and draw(st.booleans())) else ("     " if k > 0 else "")) + " ".join(seg)
            if k < len(segs) - 1:
                t += " &"
            t += draw(trailing)
            lines.append((t, "code"))
            if k < len(segs) - 1:
                for _ in range(draw(st.sampled_from([0, 0, 1, 2]))):
                    what = draw(st.sampled_from(["comment", "blank", "sentinel"]))
                    if what == "comment":
                        lines.append((indent + draw(st.sampled_from(COMMENTS)), "comment"))
                    elif what == "sentinel":
                        lines.append(draw(cont_sentinel(indent)))
                    else:
                        lines.append((draw(st.sampled_from(["", "   "])), "blank"))
        if kind == "string" and draw(st.integers(0, 2)) == 0:
            # continuation inside a character literal: the continued part may start with characters
            # that mean something outside a literal (! & // quotes)
            q = draw(st.sampled_from(["'", '"']))
            other = '"' if q == "'" else "'"
            first = draw(st.sampled_from(["abc", "a!b", "a " + other + " b", "", "x // y"]))
            second = draw(st.sampled_from(["def", "!not a comment", "! $omp", other + "quoted" + other, "// z", "& amp", "  spaced", "!$omp x"]))
            lines = [(indent + "s = " + q + first + "&", "code")]
            for _ in range(draw(st.sampled_from([0, 0, 1]))):
                lines.append((indent + draw(st.sampled_from(COMMENTS)), "comment"))
            lines.append((indent + draw(st.sampled_from(["&", "   &", "\t&"])) + second + q + draw(trailing), "code"))
        return lines

    @st.composite
    def block(draw, depth, counter):
        out = []
        for _ in range(draw(st.integers(1, 4))):
            k = draw(st.sampled_from(["stmt", "stmt", "stmt", "comment", "blank", "sentinel", "cond" if depth > 0 else "stmt", "define", "condstmt", "condlit", "prose"]))
            if k == "prose":
                # free text in a group that is always skipped; an apostrophe there is not a Fortran literal
                out.append(("#if 0", "directive"))
                out.append((draw(st.sampled_from(["this doesn't work yet", "TODO: it's broken \"here\"", "don't"])), "code"))
                out.append(("#endif", "directive"))
                out.append((draw(st.sampled_from(COMMENTS)), "comment"))
            elif k == "condlit":
                # a character literal continued across a conditional, one continuation line per branch
                counter[0] += 1
                n = draw(st.sampled_from(["A", "B", "C"]))
                q = draw(st.sampled_from(["'", '"']))
                ind = draw(st.sampled_from(["", "  "]))
                out.append((f"{ind}s = {q}built " + draw(st.sampled_from(["with", "w! th", "it's" if q == '"' else 'say "x"'])) + " &", "code"))
                out.append((draw(st.sampled_from([f"#ifdef {n}", f"#ifndef {n}", f"#if defined({n})"])), "directive"))
                out.append((f"{ind}   &" + draw(st.sampled_from(["this", "a ! b", "x // y"])) + q + draw(trailing), "code"))
                if draw(st.booleans()):
                    out.append((ind + draw(st.sampled_from(COMMENTS)), "comment"))
                out.append(("#else", "directive"))
                out.append((f"{ind}   &" + draw(st.sampled_from(["that", "no ! c", "& d"])) + q + draw(trailing), "code"))
                out.append(("#endif", "directive"))
                out.append((ind + draw(st.sampled_from(COMMENTS)), "comment"))
            elif k == "condstmt":
                # the optional-argument idiom: conditional directives between the lines of one continued statement
                counter[0] += 1
                n = draw(st.sampled_from(["A", "B", "C"]))
                ind = draw(st.sampled_from(["", "  "]))
                amp = draw(st.sampled_from(["", "& "]))
                out.append((f"{ind}call c_{counter[0]}(x, &" + draw(trailing), "code"))
                if draw(st.booleans()):
                    out.append((f"{ind}     {amp}y, &", "code"))
                out.append((draw(st.sampled_from([f"#ifdef {n}", f"#ifndef {n}", f"#if defined({n})"])), "directive"))
                out.append((f"{ind}     {amp}{draw(expr_tok)}, &" + draw(trailing), "code"))
                if draw(st.booleans()):
                    out.append((ind + draw(st.sampled_from(COMMENTS)), "comment"))
                if draw(st.integers(0, 2)) == 0:
                    out.append(draw(cont_sentinel(ind)))
                if draw(st.booleans()):
                    out.append(("#else", "directive"))
                    out.append((f"{ind}     {amp}0, &", "code"))
                out.append(("#endif", "directive"))
                out.append((f"{ind}     {amp}y)", "code"))
            elif k == "stmt":
                counter[0] += 1
                out += draw(statement(counter[0]))
            elif k == "comment":
                out.append((draw(st.sampled_from(["", "  "])) + draw(st.sampled_from(COMMENTS)), "comment"))
            elif k == "blank":
                out.append((draw(st.sampled_from(["", "  ", "\t"])), "blank"))
            elif k == "sentinel":
                out.append((draw(st.sampled_from(["", "  "])) + draw(st.sampled_from(SENTINELS)), "code"))
            elif k == "define":
                n = draw(st.sampled_from(["A", "B", "C"]))
                out.append((f"#undef {n}", "directive"))
                if draw(st.booleans()):
                    out.append((f"#define {n} {draw(st.sampled_from(['1', '0', '']))}".rstrip(), "directive"))
            else:
                n = draw(st.sampled_from(["A", "B", "C"]))
                opener = draw(st.sampled_from([f"#ifdef {n}", f"#ifndef {n}", f"#if defined({n})", f"#if defined(A) && !defined(B)", f"#if ({n}+0) == 1"]))
                out.append((opener, "directive"))
                out += draw(block(depth - 1, counter))
                if draw(st.booleans()):
                    m = draw(st.sampled_from(["A", "B", "C"]))
                    out.append((f"#elif defined({m})", "directive"))
                    out += draw(block(depth - 1, counter))
                if draw(st.booleans()):
                    out.append(("#else", "directive"))
                    out += draw(block(depth - 1, counter))
                out.append(("#endif", "directive"))
        return out

    @st.composite
    def case(draw):
        counter = [0]
        body = draw(block(2, counter))
        inc_body = draw(block(1, counter)) if draw(st.booleans()) else None
        ext = draw(st.sampled_from([".f90", ".F90"]))
        defines = draw(st.lists(gen_pp.define_sets(["A", "B", "C"]), min_size=1, max_size=3))
        # the included text may sit two include levels deep in a directory outside the code base, behind
        # a header whose extension says "C": the language of the including Fortran file is inherited
        nest = inc_body is not None and draw(st.integers(0, 2)) == 0
        # an argument-list fragment included in the middle of a continued statement (it ends with `&` itself)
        frag = draw(st.integers(0, 4)) == 0
        return {"body": body, "inc": inc_body, "ext": ext, "defines": defines, "nest": nest, "frag": frag}

    return case()


HEAD = ["program p", "implicit none", "integer :: x, y", "character(len=40) :: s", "x = 0", "y = 0"]
TAIL = ["end program p"]


def render(case):
    """-> (main text, roles per line, inc text or None, inc roles)"""
    lines = [(t, "code") for t in HEAD]
    body = list(case["body"])
    if case["inc"] is not None:
        # between complete statements only: never inside a continued statement or literal
        def complete(k):
            prev = [t for t, r in body[:k] if r == "code"]
            return not prev or not re.sub(r"!.*$", "", prev[-1]).rstrip().endswith("&") and not re.search(r"&\s*$", prev[-1])
        pos = next((k for k in (2, 1, 0, len(body)) if k <= len(body) and complete(k)), 0)
        body = body[:pos] + [('#include "mid.h"' if case.get("nest") else '#include "part.fi"', "directive")] + body[pos:]
    if case.get("frag"):
        body = body + [("call f_frag(x, &", "code"), ('#include "frag.fi"', "directive"), ("     y)", "code")]
    lines += body + [(t, "code") for t in TAIL]
    main = "\n".join(t for t, _ in lines) + "\n"
    inc = None
    if case["inc"] is not None:
        inc = "\n".join(t for t, _ in case["inc"]) + "\n"
    return main, [r for _, r in lines], inc, [r for _, r in case["inc"]] if case["inc"] is not None else None


def gfortran_ok(d, name, incdir=None):
    p = subprocess.run(["gfortran", "-cpp", "-fsyntax-only", "-ffree-form", "-I", incdir or d, os.path.join(d, name)], cwd=d, stdout=subprocess.PIPE, stderr=subprocess.PIPE, text=True, errors="replace")
    return p.returncode == 0 and not p.stderr.strip(), p.stderr[:200]


def gfortran_markers(d, name, defines, incdir=None):
    p = subprocess.run(["gfortran", "-cpp", "-E", "-P", "-ffree-form", "-I", incdir or d, *["-D" + x for x in defines], os.path.join(d, name)], cwd=d, stdout=subprocess.PIPE, stderr=subprocess.PIPE, text=True, errors="replace")
    if p.returncode or p.stderr.strip():
        return None
    return {int(x) for x in re.findall(r"\bm_(\d+)\(\)", p.stdout)}


def check_case(case, res: Result):
    from codebasin import file_parser
    from codebasin.preprocessor import CodeNode

    vs = []
    main, roles, inc, inc_roles = render(case)
    cj = {"case": case, "main": main, "inc": inc, "ext": case["ext"], "defines": case["defines"]}
    with core.Scratch("c17") as top:
        nest = bool(case.get("nest")) and inc is not None
        d = os.path.join(top, "cb") if nest else top
        incdir = os.path.join(top, "ext") if nest else top
        incname = "inner.h" if nest else "part.fi"
        os.makedirs(d, exist_ok=True)
        os.makedirs(incdir, exist_ok=True)
        name = "main" + case["ext"]
        with open(os.path.join(d, name), "w") as f:
            f.write(main)
        if inc is not None:
            with open(os.path.join(incdir, incname), "w") as f:
                f.write(inc)
        if nest:
            with open(os.path.join(incdir, "mid.h"), "w") as f:
                f.write('#include "inner.h"\n')
        if case.get("frag"):
            with open(os.path.join(incdir, "frag.fi"), "w") as f:
                f.write("     1, 2, &\n")
            try:
                ftree = file_parser.FileParser(os.path.join(incdir, "frag.fi")).parse_file(language="fortran-free")
                fgot = {ln for node in ftree.walk() if isinstance(node, CodeNode) for ln in node.lines}
            except Exception as e:
                return [make_violation(f"fragment:exception:{type(e).__name__}", cj, "a fragment that ends inside a statement is parsed", f"{type(e).__name__}: {e}")]
            if fgot != {1}:
                return [make_violation("fragment:counted-lines", cj, [1], sorted(fgot))]
            res.labels["fragment-included-inside-a-statement"] += 1
        # domain: gfortran accepts every define set silently (syntax of all branches differs per set)
        ok, why = gfortran_ok(d, name, incdir)
        if not ok:
            res.discarded["gfortran-diagnosed"] += 1
            return []
        # expected counted lines by construction, cross-checked by the reference scanner
        for text, rl, label in ((main, roles, "main"), (inc, inc_roles, "inc")):
            if text is None:
                continue
            by_construction = {i for i, r in enumerate(rl, 1) if r in COUNTED}
            sc, _ = scan(text.rstrip("\n"))
            if sc != by_construction:
                raise core.HarnessError(f"reference scanner and generator disagree on {label}: scanner={sorted(sc)} generator={sorted(by_construction)}\n{text}")
        for fname, text, rl in ((name, main, roles), (incname, inc, inc_roles)):
            if text is None:
                continue
            exp = {i for i, r in enumerate(rl, 1) if r in COUNTED}
            exp_dir = {i for i, r in enumerate(rl, 1) if r == "directive"}
            try:
                tree = file_parser.FileParser(os.path.join(d if fname == name else incdir, fname)).parse_file(language="fortran-free" if fname != name else None)
            except Exception as e:
                vs.append(make_violation(f"exception:{type(e).__name__}", cj, "parse succeeds", f"{type(e).__name__}: {e}"))
                return vs
            got, dups = set(), []
            from codebasin.preprocessor import DirectiveNode

            got_dir = set()
            for node in tree.walk():
                if isinstance(node, CodeNode):
                    for ln in node.lines:
                        if ln in got:
                            dups.append(ln)
                        got.add(ln)
                    if isinstance(node, DirectiveNode):
                        got_dir |= set(node.lines)
            if dups:
                vs.append(make_violation("line-counted-twice", cj, None, dups))
            if got != exp:
                kind = "missing" if exp - got and not got - exp else "extra" if got - exp and not exp - got else "both"
                lines_txt = {ln: text.split("\n")[ln - 1] for ln in sorted((exp ^ got))[:4]}
                cls = classify(lines_txt, rl, exp, got)
                vs.append(make_violation(f"counted-lines:{kind}:{cls}", cj, {"file": fname, "counted": sorted(exp)}, {"counted": sorted(got), "differing lines": lines_txt}))
            elif got_dir != exp_dir:
                vs.append(make_violation("directive-classification", cj, sorted(exp_dir), sorted(got_dir)))
            elif tree.root.total_sloc != len(exp):
                vs.append(make_violation("total_sloc", cj, len(exp), tree.root.total_sloc))
        if vs:
            return vs
        # conditional selection: marker statements vs gfortran -cpp -E under every define set
        cfg = {}
        gf = {}
        for i, defs in enumerate(case["defines"]):
            m = gfortran_markers(d, name, defs, incdir)
            if m is None:
                res.discarded["gfortran-cpp-diagnosed"] += 1
                return []
            gf[f"p{i}"] = m
            cfg[f"p{i}"] = [observe.entry(os.path.join(d, name), defs, [incdir], [])]
        try:
            state, cb = observe.find(d, cfg)
        except Exception as e:
            return [make_violation(f"find-exception:{type(e).__name__}", cj, "analysis succeeds", f"{type(e).__name__}: {e}")]
        if nest:
            # the text reached through two include levels was scanned as Fortran (language inherited)
            t2 = state.get_tree(os.path.join(incdir, incname))
            exp2 = {i for i, r in enumerate(inc_roles, 1) if r in COUNTED}
            got2 = {ln for node in t2.walk() if isinstance(node, CodeNode) for ln in node.lines} if t2 is not None else None
            if t2 is None:
                res.labels["nested-include-not-reached-by-any-define-set"] += 1
            elif got2 != exp2:
                vs.append(make_violation("nested-include-not-scanned-as-fortran", cj, {"file": "ext/inner.h", "counted": sorted(exp2)}, {"counted": sorted(got2) if got2 is not None else None}))
                return vs
            else:
                res.labels["nested-include-outside-code-base"] += 1
        for fname, text in ((name, main), (incname, inc)):
            if text is None:
                continue
            if fname != name and state.get_tree(os.path.join(incdir, fname)) is None:
                continue  # never reached, so never parsed: nothing to attribute
            a, probs = observe.attribution_of(state, os.path.join(d if fname == name else incdir, fname))
            for ln, t in enumerate(text.split("\n"), 1):
                mm = re.search(r"\bcall m_(\d+)\(\)", t)
                if mm and not t.lstrip().startswith("!"):
                    mid = int(mm.group(1))
                    want = frozenset(p for p, ms in gf.items() if mid in ms)
                    have = (a or {}).get(ln)
                    if have != want:
                        vs.append(make_violation("conditional-selection", cj, {"file": fname, "line": ln, "platforms": sorted(want)}, {"platforms": sorted(have) if have is not None else None}))
                        return vs
        contsent = any(r == "sentinel" for r in roles + (inc_roles or []))
        if contsent:
            res.labels["sentinel-inside-continued-statement"] += 1
        nt = (any(r == "comment" for r in roles) and "&" in main and any(r == "directive" for r in roles)) and bool(re.search(r"['\"][^'\"\n]*[!&][^'\"\n]*['\"]|!\$|!dir\$|!dec\$", main))
        res.case(key=[main, inc, case["defines"]], nontrivial=nt, sample={"main": main, "defines": case["defines"]} if nt else None, labels=["inc" if inc else "no-inc", case["ext"]])
    return vs


def classify(lines_txt, roles, exp, got):
    """name the construct on the first differing line"""
    for ln, t in lines_txt.items():
        s = t.strip()
        if re.match(r"![A-Za-z]*\$", s):
            return "sentinel"
        if s.startswith("!"):
            return "comment-line"
        if s.startswith("&"):
            return "leading-ampersand"
        if s.endswith("&") or re.search(r"&\s*!", s):
            return "continued-line"
        if "'" in s or '"' in s:
            return "character-literal"
        if not s:
            return "blank"
        return "statement"
    return "?"


def _shard(seed, n, known):
    core.setup_import_path()
    res = Result()
    core.hyp_search(case_strategy(), check_case, n, seed, res, known_sigs=known)
    return res


def run(ctx):
    n = core.NPROC
    total = ctx.pick(2400, 200000)
    res = core.merge_results(core.pool_map(_shard, [(ctx.shard_seed("rand", i), total // n, ctx.known_sigs) for i in range(n)]))
    res.exhaustive = False
    return res


def replay(case):
    core.setup_import_path()
    return check_case(case["case"], Result())
