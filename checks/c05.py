"""C05 - a physical line is counted iff it holds code outside comments
(DESIGN.md section 2, C05)."""

import itertools
import os
import subprocess

from vlib import core, model_lines_c
from vlib.core import Result, make_violation

PROP = "C05"
ALPHABET = "a1 \n/*\"'\\#"
RULE = (
    "C source texts: (a) every text of length <= L over the alphabet {a,1,space,newline,/,*,\",',\\,#} that the "
    "reference scanner accepts (no unterminated literal/comment, no stray backslash; '#' lines only as null directives); "
    "(b) Hypothesis token-level texts with identifiers, numbers, string/char literals containing comment markers, the "
    "other quote and escapes, one- and multi-line block comments, line comments (incl. continued ones), continuations "
    "placed between any two characters, real directive lines and blank lines, each also required to be silent under "
    "gcc -E; (b2) constructed scenario: a directive or code line holding a multi-line block comment with an interior line "
    "ending in '*' and more text of the same logical line behind the closing '*/'. Oracle: translation phases 2-3 written directly (model_lines_c) tracking the physical line of every "
    "surviving character; observed through FileParser(path).parse_file(): set of node.lines, directive nodes per logical "
    "line, no duplicates, total_sloc. Non-trivial: a comment/literal delimiter inside the other construct, a continuation "
    "adjacent to / * \" ' or #, or a multi-line comment; distinct by text."
)
ASSUMPTIONS = [
    "the reference scanner is validated against `gcc -E` line structure on continuation- and directive-free texts each run",
    "enumerated texts whose '#' lines are more than null directives are skipped (whether gcc accepts the directive is not decided by the scanner)",
    "tab is folded into space in the enumeration",
]


# ---------------------------------------------------------------- observe


def cbi_lines(path):
    """-> dict(counted=set, directives=[set...], dups=[...], sloc=int) or ('exc', type, msg)"""
    from codebasin import file_parser
    from codebasin.preprocessor import CodeNode, DirectiveNode

    try:
        tree = file_parser.FileParser(path).parse_file()
    except Exception as e:
        return ("exc", type(e).__name__, str(e))
    counted, dups, directives, code = set(), [], [], set()
    for node in tree.walk():
        if isinstance(node, CodeNode):
            for ln in node.lines:
                if ln in counted:
                    dups.append(ln)
                counted.add(ln)
            if isinstance(node, DirectiveNode):
                directives.append(set(node.lines))
            else:
                code |= set(node.lines)
            if node.num_lines != len(node.lines):
                dups.append(("num_lines", node.num_lines, list(node.lines)))
    return {"counted": counted, "directives": directives, "code": code, "dups": dups, "sloc": tree.root.total_sloc}


def judge(text, path, allow_any_directive=False):
    """-> None (outside domain) | (kind or None, expected, observed)"""
    m = model_lines_c.scan(text, allow_any_directive)
    if m is None:
        return None
    with open(path, "w", newline="") as f:
        f.write(text)
    o = cbi_lines(path)
    nl = text.count("\n") + (0 if text.endswith("\n") or text == "" else 1)
    exp = {"counted": sorted(m["counted"]), "directives": [sorted(d) for d in m["directives"]]}
    if isinstance(o, tuple):
        return (f"exception:{o[1]}", exp, f"{o[1]}: {o[2]}")
    obs = {"counted": sorted(o["counted"]), "directives": [sorted(d) for d in o["directives"]], "sloc": o["sloc"]}
    if o["dups"]:
        return ("duplicate-line", exp, {**obs, "dups": o["dups"]})
    if any(l < 1 or l > nl for l in o["counted"]):
        return ("line-outside-file", exp, obs)
    if m["optional"]:
        # blanks inside a literal that sit alone on a physical line may or may not be counted
        opt = m["optional"] & o["counted"]
        o["counted"] -= opt
        o["directives"] = [d - opt for d in o["directives"]]
        o["sloc"] -= len(opt)
        obs["note"] = f"optional lines ignored: {sorted(opt)}"
    if o["counted"] != m["counted"]:
        k = "missing" if m["counted"] - o["counted"] and not (o["counted"] - m["counted"]) else "extra" if not (m["counted"] - o["counted"]) else "shifted"
        return (f"counted:{k}", exp, obs)
    if o["directives"] != m["directives"]:
        return ("directive-classification", exp, obs)
    if o["sloc"] != len(m["counted"]):
        return ("total_sloc", exp, obs)
    return (None, exp, obs)


def minimise(text, kind, path, allow_any_directive):
    """greedy character deletion keeping the same failure kind"""
    cur = text
    changed = True
    budget = 600
    while changed and budget > 0:
        changed = False
        for i in range(len(cur)):
            budget -= 1
            cand = cur[:i] + cur[i + 1:]
            j = judge(cand, path, allow_any_directive)
            if j is not None and j[0] == kind:
                cur, changed = cand, True
                break
    return cur


def normalise(text):
    import re

    t = re.sub(r"[A-Za-z_]\w*", "a", text)
    t = re.sub(r"\d+", "1", t)
    return t


def features(text):
    f = set()
    if "\\\n" in text:
        f.add("continuation")
        for a in "/*\"'#":
            if a + "\\\n" in text or "\\\n" + a in text:
                f.add("continuation-adjacent-delimiter")
    m = model_lines_c.scan(text, True)
    import re

    if re.search(r"/\*[^*]*\n", text):
        f.add("multi-line-comment")
    if re.search(r"\"[^\"\n]*(//|/\*)[^\"\n]*\"", text) or re.search(r"'[^'\n]*(//|/\*)[^'\n]*'", text):
        f.add("comment-marker-in-literal")
    if re.search(r"(//|/\*)[^\n]*[\"']", text):
        f.add("quote-in-comment")
    if STAR_LINE_RE.search(text):
        f.add("comment-line-ends-in-star-then-text")
    return f


# a block comment with an interior physical line ending in '*' (not continued), and non-blank text behind its '*/'
STAR_LINE_RE = __import__("re").compile(r"/\*(?:[^*]|\*(?!/))*\*\n(?:[^*]|\*(?!/))*\*/(?:[ \t]|\\\n)*[^ \t\n\\]")

SIG_SLASH = "root-cause:slash-immediately-before-backslash-newline"
SIG_CHARLIT = "root-cause:comment-opener-inside-character-literal"


def t_slash(text):
    """move every '/' that directly precedes a backslash-newline behind it
    (same spliced text, the slash merely sits on the next physical line)"""
    prev = None
    while prev != text:
        prev = text
        text = text.replace("/\\\n", "\\\n/")
    return text


def t_charlit(text):
    idx = set(model_lines_c.char_literal_slashes(text))
    return "".join("x" if i in idx else c for i, c in enumerate(text))


def classify(text, kind, path, allow):
    """Root-cause classification of a failing text: does the failure vanish
    under a meaning-preserving rewrite that only removes one known trigger?
    Returns a list of signatures (two when both triggers are needed)."""
    def ok(t):
        j = judge(t, path, allow)
        return j is not None and j[0] is None

    # (the slash-before-continuation root cause was repaired in /repo; its classifier is gone so that
    # the defect is reported again if it ever returns)
    b = t_charlit(text)
    if b != text and ok(b):
        return [SIG_CHARLIT]
    return None


def check_text(text, res: Result, path, allow_any_directive=False, sample=True):
    j = judge(text, path, allow_any_directive)
    if j is None:
        res.discarded["scanner-rejects"] += 1
        return []
    f = features(text)
    res.case(key=text if sample else None, nontrivial=bool(f), sample=text if sample else None, labels=sorted(f))
    kind, exp, obs = j
    if kind is None:
        return []
    sigs = classify(text, kind, path, allow_any_directive)
    if sigs:
        return [make_violation(sg, {"text": text, "original": text, "any_directive": allow_any_directive}, exp, obs) for sg in sigs]
    mt = minimise(text, kind, path, allow_any_directive)
    j2 = judge(mt, path, allow_any_directive)
    return [make_violation(f"{kind}|{normalise(mt)!r}", {"text": mt, "original": text, "any_directive": allow_any_directive}, j2[1], j2[2])]


# ---------------------------------------------------------------- (a) enumeration


def _enum_shard(shard, nshards, L, known, max_lines):
    core.setup_import_path()
    res = Result()
    seen_sigs = {}
    with core.Scratch("c05") as d:
        path = os.path.join(d, "t.c")
        idx = 0
        for n in range(0, L + 1):
            for tup in itertools.product(ALPHABET, repeat=n):
                idx += 1
                if idx % nshards != shard:
                    continue
                text = "".join(tup)
                if text.count("\n") > max_lines:
                    continue
                j = judge(text, path)
                if j is None:
                    res.discarded["scanner-rejects"] += 1
                    continue
                f = "\\\n" in text or "/*" in text or "//" in text or '"' in text or "'" in text
                res.case(key=None, nontrivial=f, sample=text if (idx % 50021 == 0 and f) else None)
                if j[0] is None:
                    continue
                sigs = classify(text, j[0], path, False)
                if sigs and all(sg in known for sg in sigs):
                    for sg in sigs:
                        res.suppressed[sg] += 1
                    continue
                if sigs:
                    for sg in sigs:
                        if sg not in seen_sigs:
                            seen_sigs[sg] = 1
                            res.violation(sg, {"text": text, "original": text, "any_directive": False}, j[1], j[2])
                    continue
                mt = minimise(text, j[0], path, False)
                sig = f"{j[0]}|{normalise(mt)!r}"
                if sig in known:
                    res.suppressed[sig] += 1
                elif sig not in seen_sigs:
                    j2 = judge(mt, path)
                    seen_sigs[sig] = 1
                    res.violation(sig, {"text": mt, "original": text, "any_directive": False}, j2[1], j2[2])
    return res


# ---------------------------------------------------------------- (b) token-level texts


def text_strategy():
    from hypothesis import strategies as st

    ident = st.sampled_from(["a", "x1", "foo", "int", "_b"])
    num = st.sampled_from(["1", "42", "0x1F", "1.5e+3"])
    # escapes, also with a backslash-newline between the backslash and the escaped character
    strbody = st.lists(st.sampled_from(["a", " ", "//", "/*", "*/", "'", "\\\"", "\\\\", "\\n", "#", "1", "\\\\\n\"", "\\\\\n\\", "\\\\\nn"]), max_size=4).map("".join)
    string = strbody.map(lambda b: '"' + b + '"')
    chrbody = st.sampled_from(["a", "\\n", "\\'", '"', "\\\\", "/", "*", "0", "ab", "//", "/*", "\\\\\n'", "\\\\\n\\"])
    char = chrbody.map(lambda b: "'" + b + "'")
    cbody = st.lists(st.sampled_from(["x", " ", "\n", "*", "/", "\"", "'", "//", "#", "\\", "* /", "/ *"]), max_size=6).map("".join).filter(lambda b: "*/" not in b)
    block = cbody.map(lambda b: "/*" + b + "*/")
    lbody = st.lists(st.sampled_from(["c", " ", "/*", "*/", "\"", "'", "#", "\\ x"]), max_size=5).map("".join)
    linec = st.builds(lambda b, cont: "//" + b + ("\\\nstill comment" if cont else ""), lbody, st.integers(0, 5).map(lambda x: x == 0))
    punct = st.sampled_from([";", "(", ")", "+", "/", "*", "=", "{", "}", "<", "-", ",", "##", "%"])
    token = st.one_of(ident, ident, num, string, char, block, punct, punct)
    code_line = st.builds(
        lambda toks, seps, end: "".join(t + s for t, s in zip(toks, seps + [""] * len(toks))) + end,
        st.lists(token, min_size=1, max_size=6),
        st.lists(st.sampled_from([" ", " ", "  ", "\t", "", " /**/ "]), min_size=6, max_size=6),
        st.one_of(st.just(""), st.just(" "), linec),
    )
    directive = st.builds(
        lambda lead, gap, body, tail: f"{lead}#{gap}{body}{tail}",
        st.sampled_from(["", " ", "\t", " /* c */ "]),
        st.sampled_from(["", " ", "  "]),
        st.sampled_from(["define X 1", "define F(a) a+1", "undef X", "pragma omp parallel", "", "define S \"//x\"", "define C '\"'", "define Y /* c */ 2", "pragma once", "define Z(a,b) a##b"]),
        st.sampled_from(["", " ", " // t", " /* t */", " /* t\n t */"]),
    )
    blank = st.sampled_from(["", "  ", "\t", "// only comment", "/* only */", "/* multi\n line */", "   /* a */ /* b */  "])
    line = st.one_of(code_line, code_line, directive, blank)

    @st.composite
    def text(draw):
        lines = draw(st.lists(line, min_size=1, max_size=8))
        t = "\n".join(lines)
        # continuations placed between any two characters
        k = draw(st.integers(0, 3))
        for _ in range(k):
            if len(t) < 2:
                break
            pos = draw(st.integers(1, len(t) - 1))
            if t[pos - 1] == "\\" or t[pos - 1:pos + 1] == "\\\n":
                continue
            t = t[:pos] + "\\\n" + t[pos:]
        if draw(st.integers(0, 4)) != 0:
            t += "\n"
        return t

    return text()


def star_comment_strategy():
    """Constructed scenario: a logical line (directive or code) that holds a multi-line block comment
    at least one of whose interior physical lines ends in '*' (banner style, not the closing '*/'),
    with more text of the same logical line behind the closing '*/' - on the same physical line
    and/or on backslash-continuation lines.  Phase 3 replaces the whole comment by one space, so the
    text behind it still belongs to the logical line that was begun before it: behind '#' it is part
    of the directive, behind code a '#' is an ordinary token, not the start of a directive."""
    from hypothesis import strategies as st

    piece = st.sampled_from(["x", " ", "*", "**", "/", "\"", "'", "//", "#", "* /", "/ *", "note", "\t"])
    stars = st.sampled_from(["*", "*", " *", "**", "x*", "/ *", "***"])

    @st.composite
    def star_comment(draw):
        nl = draw(st.integers(1, 3))  # physical lines begun inside the comment
        star_at = draw(st.integers(0, nl - 1))
        rows = []
        for k in range(nl):
            body = "".join(draw(st.lists(piece, max_size=3)))
            if k == star_at:
                end = draw(stars)
            else:
                end = draw(st.sampled_from(["", "", "*", " ", "x", "\\"]))  # "\\": the comment line is continued
            rows.append(body + end)
        last = "".join(draw(st.lists(piece, max_size=2)))
        return "/*" + "\n".join(rows + [last]) + "*/"

    def well_formed(c):
        inner = c[2:-2].replace("\\\n", "")
        return "*/" not in inner and "\\" not in inner

    comment = star_comment().filter(well_formed)
    behind = st.sampled_from([" 1 + 2", " a", "b", " 1 + \\\n 2", " \\\n 2", "\\\n\\\n + 3", " \"s//\" ", " /* c */ 3", " 4 // t", " (a) \\\n  /* c */ \\\n  + a", ""])
    dir_head = st.sampled_from(["define X", "define F(a)", "define Y 1 +", "pragma omp parallel", "pragma", "define S \"/*\""])
    directive = st.builds(
        lambda lead, gap, head, sep, c, b: f"{lead}#{gap}{head}{sep}{c}{b}",
        st.sampled_from(["", " ", "\t", " /* c */ "]),
        st.sampled_from(["", " "]),
        dir_head,
        st.sampled_from([" ", " ", "  ", " \\\n"]),
        comment,
        behind,
    )
    # the comment sits between '#' and the directive name, or in front of the '#'
    directive2 = st.builds(
        lambda c, where, b: (f"{c} # define X{b}" if where else f"# {c} define X{b}"),
        comment,
        st.booleans(),
        behind,
    )
    code = st.builds(
        lambda pre, c, post: f"{pre}{c}{post}",
        st.sampled_from(["int a = 1 ", "x", "foo(", "a;", "\"s\" ", "+"]),
        comment,
        st.sampled_from([" # define X 1", "# pragma once", " #", " b;", " + 1;", " ) \\\n ;", " # \\\n define Y", " \\\n# undef X", ""]),
    )
    plain = st.sampled_from(["int a;", "", "#define Q 2", "// c", "/* only */", "b = a + 1;", "#pragma omp for"])

    @st.composite
    def text(draw):
        before = draw(st.lists(plain, max_size=2))
        host = draw(st.one_of(directive, directive, directive2, code))
        after = draw(st.lists(plain, max_size=2))
        t = "\n".join(before + [host] + after)
        if draw(st.integers(0, 3)) == 0 and len(t) > 2:
            # one more continuation anywhere (texts it makes ill-formed are discarded by the scanner)
            pos = draw(st.integers(1, len(t) - 1))
            if t[pos - 1] != "\\" and t[pos - 1:pos + 1] != "\\\n":
                t = t[:pos] + "\\\n" + t[pos:]
        if draw(st.integers(0, 4)) != 0:
            t += "\n"
        return t

    return text()


def balanced_directives(text):
    """#if/#ifdef/#else/#endif in generated directive lines need not balance
    for the file parser, but gcc diagnoses unbalanced ones: used only to
    decide whether gcc can be asked."""
    return True


def gcc_silent(text, d, lang="c"):
    p = os.path.join(d, "g.c")
    with open(p, "w", newline="") as f:
        f.write(text)
    r = subprocess.run(["gcc", "-E", "-x", lang, "-nostdinc", p], stdout=subprocess.PIPE, stderr=subprocess.PIPE, text=True, errors="replace")
    return (not r.stderr.strip()) and r.returncode == 0, r.stdout


def gcc_counted_lines(stdout):
    """physical lines on which gcc -E (without -P) prints tokens"""
    import re

    cur = None
    lines = set()
    for ln in stdout.split("\n"):
        m = re.match(r'^# (\d+) "([^"]*)"', ln)
        if m:
            cur = int(m.group(1)) if m.group(2).endswith("g.c") else None
            continue
        if cur is not None:
            if ln.strip():
                lines.add(cur)
            cur += 1
    return lines


def _rand_shard(seed, n, known, gcc_every, which="text"):
    core.setup_import_path()
    import re

    res = Result()
    with core.Scratch("c05r") as d:
        path = os.path.join(d, "t.c")
        cnt = [0]

        def chk(text, r):
            m = model_lines_c.scan(text, True)
            if m is None:
                r.discarded["scanner-rejects"] += 1
                return []
            cnt[0] += 1
            structural = False
            if cnt[0] % gcc_every == 0 and not structural:
                ok, out = gcc_silent(text, d)
                if not ok:
                    r.discarded["gcc-diagnosed"] += 1
                    return []
                if "\\\n" not in text and not any(dl for dl in m["directives"]):
                    g = gcc_counted_lines(out)
                    if g != m["counted"]:
                        r.oracle_disagreement(f"reference scanner disagrees with gcc -E on {text!r}: scanner={sorted(m['counted'])} gcc={sorted(g)}")
                        return []
                    r.extra["gcc_confirmed_scanner"] = r.extra.get("gcc_confirmed_scanner", 0) + 1
                r.extra["gcc_silent_checked"] = r.extra.get("gcc_silent_checked", 0) + 1
            vs = check_text(text, r, path, allow_any_directive=True)
            if vs and not structural:
                ok, _ = gcc_silent(text, d)
                if not ok:
                    r.discarded["gcc-diagnosed"] += 1
                    return []
            return vs

        core.hyp_search(text_strategy() if which == "text" else star_comment_strategy(), chk, n, seed, res, known_sigs=known)
        if which != "text":
            res.extra["star_comment_scenario_cases"] = cnt[0]
    return res


# ---------------------------------------------------------------- (c) coverage-guided (atheris)

FUZZ_CHARS = ALPHABET + "\tb(;=<"
_fz = {}


def fuzz_setup(workdir):
    _fz["path"] = os.path.join(workdir, "fz.c")


def fuzz_one(data, stats):
    """bytes -> text over the lexical alphabet; the oracle (reference scanner) is inside the target"""
    text = "".join(FUZZ_CHARS[b % len(FUZZ_CHARS)] for b in data)
    j = judge(text, _fz["path"], True)
    if j is None:
        return None
    stats["in_domain"] += 1
    if j[0] is None:
        return None
    sigs = classify(text, j[0], _fz["path"], True)
    if sigs:
        return [make_violation(sg, {"text": text, "original": text, "any_directive": True}, j[1], j[2]) for sg in sigs]
    mt = minimise(text, j[0], _fz["path"], True)
    j2 = judge(mt, _fz["path"], True)
    return make_violation(f"{j[0]}|{normalise(mt)!r}", {"text": mt, "original": text, "any_directive": True}, j2[1], j2[2])


def _dispatch(job):
    fn, a = job
    return fn(*a)


def run(ctx):
    n = core.NPROC
    L, max_lines = ctx.pick((6, 9), (7, 3))
    jobs = [(_enum_shard, (i, n * 2, L, ctx.known_sigs, max_lines)) for i in range(n * 2)]
    nrand = ctx.pick(12000, 600000)
    jobs += [(_rand_shard, (ctx.shard_seed("rand", i), nrand // n, ctx.known_sigs, ctx.pick(6, 2))) for i in range(n)]
    # constructed scenario: text behind a multi-line comment one of whose lines ends in '*'
    nstar, kstar = ctx.pick((1600, 2), (60000, n))
    jobs += [(_rand_shard, (ctx.shard_seed("star", i), nstar // kstar, ctx.known_sigs, ctx.pick(6, 2), "star")) for i in range(kstar)]
    res = core.merge_results(core.pool_map(_dispatch, [(j,) for j in jobs]))
    res.exhaustive = False
    res.extra["exhaustive_part"] = f"all texts of length <= {L} over the 10-character alphabet with at most {max_lines} newlines that the scanner accepts"
    # coverage-guided campaign on FileParser with the scanner as in-target oracle
    from vlib import fuzz

    findings, stats = fuzz.run_campaign("checks.c05", ctx.known_sigs, ctx.seed, nprocs=ctx.pick(4, 16), runs=ctx.pick(15000, 250000), max_len=ctx.pick(24, 48))
    res.extra["atheris"] = stats
    if "executions" in stats:
        res.evaluations += stats.get("in_domain", 0)
        res.suppressed.update({"(atheris) known root causes": stats.get("suppressed", 0)})
    with core.Scratch("c05fz") as d:
        for fnd in findings:
            # gcc decides whether the text is in the domain before it is reported
            ok, _ = gcc_silent(fnd["case"]["text"], d)
            if ok:
                res.violation(**{k: fnd.get(k) for k in ("signature", "case", "expected", "observed", "note")})
            else:
                res.discarded["gcc-diagnosed (atheris finding)"] += 1
    return res


def replay(case):
    core.setup_import_path()
    res = Result()
    with core.Scratch("c05p") as d:
        return check_text(case["text"], res, os.path.join(d, "t.c"), allow_any_directive=case.get("any_directive", True))
