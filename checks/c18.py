"""C18 - nothing is dropped silently: unhonoured input is always reported
(DESIGN.md section 2, C18)."""

import collections
import json
import logging
import os
import re

from vlib import core, observe, pp_ast, pp_check
from vlib.core import Result, make_violation

PROP = "C18"
RULE = (
    "the C04 tree generator with a known subset of include directives made dangling (quote, angle and computed; reached "
    "and unreached; in headers included once or several times; several translation units and platforms) plus unknown "
    "directives (#foo..., and the exempt #line/#warning/#error), compilation-database entries for missing files (absolute, and relative to an absolute / relative / absent "
    "'directory' while a file of the same relative name exists below another base such as the code-base root), unknown "
    "compilers and unknown flags; databases are loaded with config.load_database and analysed with finder.find while all "
    "WARNING records of the 'codebasin' logger are captured. Oracle: the reference preprocessor model's multiset of "
    "events (one per evaluation of a dangling include with file, line, name and form; every reached unknown directive "
    "exactly once, unreached ones at most once; one per missing-file entry; one per command with an unknown compiler; "
    "every unknown flag named by a warning of its command); nothing else may be warned. A CLI layer checks that the "
    "closing totals equal the numbers of warnings written to cbi.log. Non-trivial: a dangling include evaluated >=2 "
    "times or both forms dangling, together with >=1 honoured include; distinct by rendered tree+databases."
)
ASSUMPTIONS = [
    "gcc cannot confirm these cases (it rejects missing headers and unknown directives); the model is the one validated against gcc in C04",
    "a forced include (-include) that resolves to no file is an #include that resolves to no file: one warning per command naming the file and the header",
    "every platform keeps at least one valid entry (an all-invalid database additionally warns 'No files found', outside the statement)",
]

UNKNOWN_FLAGS = ["-Wall", "-fPIC", "-std=c99", "-pthread", "-march=native", "-Wextra", "-MD", "-m64",
                 # a response file and an option whose value holds a blank (argparse would hand them to the positional)
                 "@opts.rsp", "-iquotemy inc"]
DANGLING = ["nope.h", "sub/missing.h", "gone.hpp"]
# directories (relative to the scratch root) in which a database command may claim to run; "cb/build" and
# "cb/out/obj" are never created
ENTRY_DIRS = ["cb", "cb/src", "cb/src/sub", "cb/inc1", "cb/inc2", "cb/sys1", "ext", "cb/build", "cb/out/obj"]


def shadowed_missing_entries(tree, cbroot):
    """Database entries with a *relative* 'file' that does not exist in the directory the entry runs in
    ('directory' absolute, relative to the code-base root, or absent), although a file of that very
    relative name exists below some other base: the code-base root, the directory holding the database,
    a parent of the real file. Each must be reported as missing; none may be redirected to the namesake."""
    from hypothesis import strategies as st

    files = sorted(tree)

    @st.composite
    def entry(draw):
        f = draw(st.sampled_from(files))
        parts = f.split("/")
        # the base below which the drawn name does exist: "" is the scratch root (where the databases are written)
        cut = draw(st.sampled_from([1, 1] + list(range(len(parts)))))
        cut = min(cut, len(parts) - 1)
        name = "/".join(parts[cut:])
        form = draw(st.sampled_from(["abs", "rel", "rel", "none"]))
        d = cbroot if form == "none" else draw(st.sampled_from(ENTRY_DIRS))
        if os.path.normpath(os.path.join(d, name)) in tree:
            # the entry would be valid: move it to a directory that is never created
            d, form = "cb/build", ("rel" if form == "none" else form)
        return {"dir": d, "form": form, "file": name}

    return st.lists(entry(), max_size=2)


def entry_directory(e, root, cbroot_abs):
    """The 'directory' spelling of a relative bad entry (None: the member is left out) and the absolute
    path of the directory it names."""
    dabs = os.path.join(root, e["dir"])
    if e["form"] == "abs":
        return dabs, dabs
    if e["form"] == "rel":
        return os.path.relpath(dabs, cbroot_abs), dabs
    return None, cbroot_abs


def unknown_strategy():
    from hypothesis import strategies as st

    return st.sampled_from(
        [
            [["unknown", "foo", ""]],
            [["unknown", "foo", "bar 1"]],
            [["unknown", "ident", '"v1"']],
            [["unknown", "assert", "x"]],
            [["unknown", "line", "10"]],
            [["unknown", "warning", "careful"]],
            [["unknown", "error", "stop"]],
            [["unknown", "import", '"q.h"']],
        ]
    )


def case_strategy():
    from hypothesis import strategies as st

    from vlib import gen_pp

    @st.composite
    def case(draw):
        c = draw(gen_pp.include_tree_cases(dangling=DANGLING, unknown=unknown_strategy()))
        # decorate commands with compiler, unknown flags, and add bad entries
        for pname, cmds in c["platforms"].items():
            for cmd in cmds:
                cmd["compiler"] = draw(st.sampled_from(["gcc", "gcc", "g++", "clang", "mycc", "/opt/bin/zcc"]))
                cmd["unknown_flags"] = draw(st.lists(st.sampled_from(UNKNOWN_FLAGS), max_size=3, unique=True))
            c.setdefault("bad_entries", {})[pname] = draw(
                st.lists(st.sampled_from(["cb/src/generated.c", "cb/build/missing.cpp", "cb/src/nofile.h"]), max_size=2)
            )
            # a forced include that resolves to nothing must be reported like any other missing include
            for cmd in cmds:
                cmd["cwd"] = c["cbroot"]  # the databases below run every command in the code-base root
                if draw(st.integers(0, 5)) == 0:
                    cmd["forced"] = list(cmd.get("forced", [])) + ["nowhere_forced.h"]
        # missing-file entries spelled relatively, with a namesake elsewhere in the tree
        for pname in c["platforms"]:
            c.setdefault("rel_bad_entries", {})[pname] = draw(shadowed_missing_entries(c["tree"], c["cbroot"])) if draw(st.integers(0, 2)) == 0 else []
        c["via_argparser"] = False
        return c

    return case()


class Capture(logging.Handler):
    def __init__(self):
        super().__init__(level=logging.DEBUG)
        self.records = []

    def emit(self, record):
        self.records.append((record.levelno, record.getMessage()))


RE_INC = re.compile(r"^(.*):(\d+): (user include|system include) '(.*)' not found\n", re.S)
RE_FORCED = re.compile(r"^(.*): user include '(.*)' \(given with -include\) not found$", re.S)
RE_UNK = re.compile(r"^(.*):(\d+):(\d+): unrecognized directive '(.*)'$", re.S)


def build_db(case, root, pname):
    db = []
    cmds = case["platforms"][pname]
    for cmd in cmds:
        argv = [cmd.get("compiler", "gcc")]
        for i, f in enumerate(pp_check.gcc_flags(root, cmd)):
            argv.append(f)
        argv += cmd.get("unknown_flags", [])
        argv += ["-c", os.path.join(root, cmd["file"])]
        db.append({"directory": os.path.join(root, case["cbroot"]), "file": os.path.join(root, cmd["file"]), "arguments": argv})
    for bad in case.get("bad_entries", {}).get(pname, []):
        db.append({"directory": os.path.join(root, case["cbroot"]), "file": os.path.join(root, bad), "arguments": ["gcc", "-c", os.path.join(root, bad)]})
    rel_entries = []
    for e in case.get("rel_bad_entries", {}).get(pname, []):
        spelled, dabs = entry_directory(e, root, os.path.join(root, case["cbroot"]))
        if os.path.isfile(os.path.join(dabs, e["file"])):
            continue  # the operating system finds the file: not a missing-file entry (the generator avoids this)
        ent = {"file": e["file"], "arguments": ["gcc", "-c", e["file"]]}
        if spelled is not None:
            ent["directory"] = spelled
        rel_entries.append(ent)
    # interleaved: the first goes before the valid entries, the others after
    return rel_entries[:1] + db + rel_entries[1:]


def expected_events(case, root, layouts, counted):
    expected, events, per_cmd = pp_check.model_expect(case, root, layouts, counted)
    missing = collections.Counter()
    unknown_reached = set()
    expected_events.missing_forced = collections.Counter()
    for (pname, i), evs in events.items():
        for e in evs:
            if e[0] == "missing-forced":
                expected_events.missing_forced[(os.path.realpath(os.path.join(root, case["platforms"][pname][i]["file"])), e[1])] += 1
            elif e[0] == "missing":
                missing[(e[1], e[2], e[3], "user include" if e[4] == "quote" else "system include")] += 1
            elif e[0] == "unknown":
                unknown_reached.add((e[1], e[2], e[3]))
    unknown_all = set()

    def walk(rel, items, lays):
        for it, lay in zip(items, lays):
            if it[0] == "unknown" and it[1] not in pp_ast.EXEMPT_UNKNOWN:
                unknown_all.add((os.path.realpath(os.path.join(root, rel)), lay["lines"][0], it[1]))
            if it[0] == "chain":
                for (k, c, sub), g in zip(it[1], lay["groups"]):
                    walk(rel, sub, g["items"])
                if it[2] is not None:
                    walk(rel, it[2], lay["else"]["items"])

    for rel, f in case["tree"].items():
        walk(rel, f["items"], layouts[rel])
    return missing, unknown_reached, unknown_all, events


def check_case(case, res: Result):
    from codebasin import config, finder, CodeBase

    vs = []
    log = logging.getLogger("codebasin")
    with core.Scratch("c18") as root:
        texts, layouts, counted = pp_check.materialise(case, root)
        try:
            missing, unk_reached, unk_all, events = expected_events(case, root, layouts, counted)
        except pp_ast.Invalid as e:
            res.discarded[f"model-invalid:{e}"[:60]] += 1
            return []
        cbroot = os.path.join(root, case["cbroot"])
        exp_nofile = collections.Counter()
        exp_compiler = collections.Counter()
        exp_flags = collections.Counter()
        n_rel_bad = n_shadowed = 0
        dbs = {}
        for pname in case["platforms"]:
            dbs[pname] = build_db(case, root, pname)
            for cmd in case["platforms"][pname]:
                base = os.path.basename(cmd.get("compiler", "gcc"))
                if base not in ("gcc", "g++", "clang", "clang++", "icx", "icpx", "nvcc"):
                    exp_compiler[base] += 1
                if cmd.get("unknown_flags"):
                    exp_flags[" ".join(sorted(" ".join(cmd["unknown_flags"]).split()))] += 1  # order within one warning is not promised
            for bad in case.get("bad_entries", {}).get(pname, []):
                exp_nofile[os.path.join(root, bad)] += 1
            for e in case.get("rel_bad_entries", {}).get(pname, []):
                _, dabs = entry_directory(e, root, cbroot)
                if os.path.isfile(os.path.join(dabs, e["file"])):
                    continue
                # what the entry names for the operating system (no symbolic links in these trees)
                exp_nofile[os.path.normpath(os.path.join(dabs, e["file"]))] += 1
                n_rel_bad += 1
                n_shadowed += os.path.isfile(os.path.join(cbroot, e["file"])) and os.path.normpath(dabs) != cbroot
        cap = Capture()
        old_level, old_disable = log.level, logging.root.manager.disable
        logging.disable(logging.NOTSET)
        log.setLevel(logging.DEBUG)
        log.addHandler(cap)
        config._compilers = None
        cwd = os.getcwd()
        try:
            os.chdir(cbroot)
            cfg = {}
            for pname, db in dbs.items():
                p = os.path.join(root, f"db-{pname}.json")
                with open(p, "w") as f:
                    json.dump(db, f)
                cfg[pname] = config.load_database(p, cbroot)
            finder.find(cbroot, CodeBase(cbroot), cfg)
        except Exception as e:
            return [make_violation(f"exception:{type(e).__name__}", {"case": case, "texts": texts}, "analysis succeeds", f"{type(e).__name__}: {e}")]
        finally:
            os.chdir(cwd)
            log.removeHandler(cap)
            log.setLevel(old_level)
            logging.disable(old_disable)
        got_missing = collections.Counter()
        got_unknown = collections.Counter()
        got_nofile = collections.Counter()
        got_compiler = collections.Counter()
        got_flags = collections.Counter()
        got_forced = collections.Counter()
        other = []
        for lvl, msg in cap.records:
            if lvl != logging.WARNING:
                continue
            m = RE_FORCED.match(msg)
            if m:
                got_forced[(os.path.realpath(m.group(1)), m.group(2))] += 1
                continue
            m = RE_INC.match(msg)
            if m:
                got_missing[(os.path.realpath(m.group(1)), int(m.group(2)), m.group(4), m.group(3))] += 1
                continue
            m = RE_UNK.match(msg)
            if m:
                mm = re.search(r"#\s*(\w+)", m.group(4))
                name = mm.group(1) if mm else ""
                got_unknown[(os.path.realpath(m.group(1)), int(m.group(2)), name)] += 1
                continue
            m = re.match(r"^Ignoring non-existent file: (.*)$", msg)
            if m:
                got_nofile[os.path.normpath(m.group(1)) if os.path.isabs(m.group(1)) else m.group(1)] += 1
                continue
            m = re.match(r"^Compiler '(.*)' not recognized\.$", msg)
            if m:
                got_compiler[m.group(1)] += 1
                continue
            m = re.match(r"^Unrecognized arguments: '(.*)'$", msg)
            if m:
                got_flags[" ".join(sorted(m.group(1).split()))] += 1
                continue
            other.append(msg)
        cj = {"case": case, "texts": texts}

        def rel(k):
            return [os.path.relpath(k[0], root)] + list(k[1:])

        if got_missing != missing:
            lost = missing - got_missing
            extra = got_missing - missing
            kind = "lost" if lost and not extra else "spurious" if extra and not lost else "mismatch"
            wrong_form = any((a[0], a[1], a[2]) == (b[0], b[1], b[2]) and a[3] != b[3] for a in lost for b in extra)
            vs.append(make_violation(f"missing-include-warnings:{'wrong-form' if wrong_form else kind}", cj, sorted((rel(k), n) for k, n in missing.items()), sorted((rel(k), n) for k, n in got_missing.items())))
        bad_unknown = [k for k in unk_reached if got_unknown.get(k, 0) != 1] + [k for k, n in got_unknown.items() if (k not in unk_all) or n > 1]
        if bad_unknown:
            vs.append(make_violation("unknown-directive-warnings", cj, {"reached": sorted(rel(k) for k in unk_reached), "all": sorted(rel(k) for k in unk_all)}, sorted((rel(k), n) for k, n in got_unknown.items())))
        if got_forced != expected_events.missing_forced:
            vs.append(make_violation("missing-forced-include-warnings", cj, sorted((rel(k), n) for k, n in expected_events.missing_forced.items()), sorted((rel(k), n) for k, n in got_forced.items())))
        if got_nofile != exp_nofile:
            vs.append(make_violation("missing-file-entry-warnings", cj, sorted(exp_nofile.items()), sorted(got_nofile.items())))
        if got_compiler != exp_compiler:
            vs.append(make_violation("unknown-compiler-warnings", cj, sorted(exp_compiler.items()), sorted(got_compiler.items())))
        if got_flags != exp_flags:
            vs.append(make_violation("unknown-flag-warnings", cj, sorted(exp_flags.items()), sorted(got_flags.items())))
        if other:
            vs.append(make_violation("unexpected-warning", cj, "no other warnings", other[:5]))
        nhon = sum(1 for (tr, _) in pp_check.model_expect.traces.values() for t in tr if t[3])
        forms = {k[3] for k in missing}
        nt = (any(n >= 2 for n in missing.values()) or len(forms) == 2) and nhon >= 1
        res.case(
            key=[texts, dbs and {k: [(e.get("directory", "-").replace(root, ""), e["file"].replace(root, ""), [a.replace(root, "") for a in e["arguments"]]) for e in v] for k, v in dbs.items()}],
            nontrivial=nt,
            sample={"files": {k: v for k, v in texts.items() if "main" in k or "other" in k}, "expected_missing": sorted((rel(k), n) for k, n in missing.items()), "unknown_flags": sorted(exp_flags), "unknown_compilers": sorted(exp_compiler)} if nt else None,
            labels=[f"missing-events={min(sum(missing.values()),6)}", f"unknown-reached={min(len(unk_reached),3)}", "clean" if not (missing or unk_all or exp_nofile or exp_compiler or exp_flags) else "dirty"]
            + ([f"relative-missing-entry={min(n_rel_bad, 3)}"] if n_rel_bad else []) + (["missing-entry-shadowed-by-root-file"] if n_shadowed else []),
        )
    return vs


def _rand_shard(seed, n, known):
    core.setup_import_path()
    res = Result()
    core.hyp_search(case_strategy(), check_case, n, seed, res, known_sigs=known)
    return res


# ---------------------------------------------------------------- CLI layer


def cli_case(case, res: Result):
    """Run the real `codebasin` front end; the closing totals must equal the
    warnings actually written to cbi.log."""
    vs = []
    with core.Scratch("c18cli") as root:
        texts, layouts, counted = pp_check.materialise(case, root)
        try:
            missing, unk_reached, unk_all, events = expected_events(case, root, layouts, counted)
        except pp_ast.Invalid:
            return []
        cbroot = os.path.join(root, case["cbroot"])
        lines = []
        for pname in case["platforms"]:
            p = os.path.join(root, f"db-{pname}.json")
            with open(p, "w") as f:
                json.dump(build_db(case, root, pname), f)
            lines += [f"[platform.{pname}]", f'commands = "{p}"', ""]
        with open(os.path.join(root, "analysis.toml"), "w") as f:
            f.write("\n".join(lines))
        rc, out, err = observe.run_cli("codebasin", ["-R", "summary", os.path.join(root, "analysis.toml")], cwd=cbroot)
        cj = {"case": case, "texts": texts}
        if rc != 0:
            if sum(len(c) for c in counted.values()) == 0:
                return []
            return [make_violation("cli:exit", cj, 0, {"rc": rc, "out": out[-400:], "err": err[-400:]})]
        with open(os.path.join(cbroot, "cbi.log")) as f:
            log_text = f.read()
        entries = re.split(r"(?m)^(?=(?:warning|error|info|debug|critical): )", log_text)
        warn = [e for e in entries if e.startswith("warning: ")]
        meta_idx = [i for i, e in enumerate(warn) if re.match(r"warning: \d+ (warnings generated|user include files|system include files)", e)]
        real = warn[: meta_idx[0]] if meta_idx else warn
        n_all, n_user, n_sys = len(real), sum("user include" in e for e in real), sum("system include" in e for e in real)

        def closing(rx):
            m = re.search(rx, out)
            return int(m.group(1)) if m else 0

        c_all = closing(r"(\d+) warnings generated during preprocessing")
        c_user = closing(r"(\d+) user include files could not be found")
        c_sys = closing(r"(\d+) system include files could not be found")
        if (c_all, c_user, c_sys) != (n_all, n_user, n_sys):
            vs.append(make_violation("cli:closing-totals", cj, {"in cbi.log": [n_all, n_user, n_sys]}, {"printed": [c_all, c_user, c_sys]}))
        exp_user = sum(n for k, n in missing.items() if k[3] == "user include") + sum(expected_events.missing_forced.values())
        exp_sys = sum(n for k, n in missing.items() if k[3] == "system include")
        if (n_user, n_sys) != (exp_user, exp_sys):
            vs.append(make_violation("cli:include-warning-count", cj, [exp_user, exp_sys], [n_user, n_sys]))
        res.case(key=["cli", texts], nontrivial=(exp_user + exp_sys) >= 1, sample=None, labels=["cli"])
    return vs


def _cli_shard(seed, n, known):
    core.setup_import_path()
    res = Result()
    core.hyp_search(case_strategy(), cli_case, n, seed, res, known_sigs=known, shrink=False)
    return res


def _dispatch(job):
    fn, a = job
    return fn(*a)


def run(ctx):
    n = core.NPROC
    nrand = ctx.pick(640, 30000)
    jobs = [(_rand_shard, (ctx.shard_seed("rand", i), nrand // (n - 4), ctx.known_sigs)) for i in range(n - 4)]
    ncli = ctx.pick(12, 400)
    jobs += [(_cli_shard, (ctx.shard_seed("cli", i), max(1, ncli // 4), ctx.known_sigs)) for i in range(4)]
    res = core.merge_results(core.pool_map(_dispatch, [(j,) for j in jobs]))
    res.exhaustive = False
    return res


def replay(case):
    core.setup_import_path()
    res = Result()
    return check_case(case["case"], res)
