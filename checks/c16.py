"""C16 - the duplicates report lists exactly the sets of byte-identical
files (DESIGN.md section 2, C16)."""

import filecmp
import os
import re

from vlib import core, observe
from vlib.core import Result, make_violation

PROP = "C16"
RULE = (
    "code bases of 2-12 files whose contents are drawn from a pool of 8 byte strings (empty, differing only in the last "
    "byte, differing only in length, CR vs LF, non-UTF-8 bytes), so equivalence classes of every size occur, with twins "
    "that are excluded by pattern, outside the root, non-source files, fixed-form Fortran files, or symbolic links (to files inside and outside); "
    "the code base is sometimes given further directories that overlap, repeat or lie beside the first. "
    "Oracle: direct byte-wise partition of the non-symlink members of list(codebase); the groups of size >= 2 must equal "
    "the reported groups exactly as a set of sets (in-process report.find_duplicates and the Duplicates section of "
    "`codebasin -R duplicates`). Non-trivial: >=2 groups or one of size >=3, together with a near-duplicate and an "
    "excluded/linked/outside/non-source twin; distinct by layout."
)
ASSUMPTIONS = ["code-base membership is taken from CodeBase itself (C09/C15 check it)"]

SIG_FIXED_FORM = "cli:fixed-form-fortran-file-aborts-every-report"

POOL = [b"", b"int a;\n", b"int a;\r", b"int a;\n\n", b"int a;", b"int b;\n", b"\xff\xfe\x00bin\n", b"int a;\n/* x */\n", b"\xff\xfe\x00bin\r"]
DIRS = ["", "src", "src/a", "lib", "excl", "../ext"]
EXTS = [".c", ".h", ".cpp", ".f90", ".txt", ".S", ".dat"]


def case_strategy():
    from hypothesis import strategies as st

    @st.composite
    def case(draw):
        n = draw(st.integers(2, 12))
        files = {}
        for i in range(n):
            d = draw(st.sampled_from(DIRS))
            ext = draw(st.sampled_from(EXTS))
            files[(d + "/" if d else "") + f"f{i}{ext}"] = draw(st.integers(0, len(POOL) - 1))
        links = {}
        for j in range(draw(st.integers(0, 2))):
            tgt = draw(st.sampled_from(sorted(files)))
            d = draw(st.sampled_from(DIRS[:4]))
            links[(d + "/" if d else "") + f"l{j}{os.path.splitext(tgt)[1]}"] = os.path.relpath(tgt, d or ".")
        excludes = draw(st.sampled_from([[], [], ["excl/"], ["*.h"], ["/src/a/"], ["excl/", "*.cpp"]]))
        # files that come out of an archive or a checkout often share one modification time
        # now and then a fixed-form Fortran file (recognised as a source file like the others)
        if draw(st.integers(0, 7)) == 0:
            k0 = sorted(files)[0]
            files[os.path.splitext(k0)[0] + draw(st.sampled_from([".f", ".F", ".for"]))] = files.pop(k0)
            links = {ln: t for ln, t in links.items() if not t.endswith(os.path.basename(k0))}
        # a code base may be given several directories; they may overlap or repeat
        roots = draw(st.sampled_from([[], [], [], ["src"], ["src/a", "src"], ["."], ["lib", "src/a"], ["../ext"]]))
        return {"files": files, "links": links, "excludes": excludes, "same_mtime": draw(st.booleans()), "roots": roots}

    return case()


def parse_groups(text, root):
    groups, cur = [], None
    for ln in text.splitlines():
        if re.match(r"^Match \d+:", ln):
            cur = set()
            groups.append(cur)
        elif ln.startswith("- ") and cur is not None:
            cur.add(os.path.relpath(ln[2:].strip(), root))
    return groups


def check_case(case, res: Result, cli=False):
    from codebasin import CodeBase, report

    vs = []
    with core.Scratch("c16") as top:
        root = os.path.join(top, "cb")
        os.makedirs(root)
        core.write_tree(root, {k: POOL[v] for k, v in case["files"].items()}, case["links"])
        if case.get("same_mtime"):
            for k in case["files"]:
                os.utime(os.path.join(root, k), ns=(1_600_000_000_000_000_000, 1_600_000_000_000_000_000))
        filecmp.clear_cache()
        # (the command-line front end knows one root directory only)
        extra_roots = [] if cli else [os.path.join(root, r) for r in case.get("roots", []) if os.path.isdir(os.path.join(root, r))]
        cb = CodeBase(root, *extra_roots, exclude_patterns=list(case["excludes"]))
        listed = list(cb)
        if len(listed) != len(set(listed)):
            vs.append(make_violation("enumeration:file-yielded-twice", case, "each member once", sorted(os.path.relpath(p, root) for p in listed if listed.count(p) > 1)))
        members = [p for p in cb if not os.path.islink(p)]
        by = {}
        for p in members:
            with open(p, "rb") as f:
                by.setdefault(f.read(), set()).add(os.path.relpath(p, root))
        expected = {frozenset(s) for s in by.values() if len(s) >= 2}
        try:
            got_list = report.find_duplicates(cb)
        except Exception as e:
            return [make_violation(f"exception:{type(e).__name__}", case, "report succeeds", f"{type(e).__name__}: {e}")]
        got = [frozenset(os.path.relpath(str(p), root) for p in s) for s in got_list]
        if len(got) != len(set(got)) or set(got) != expected:
            lost = expected - set(got)
            extra = set(got) - expected
            kind = "group-missing" if lost and not extra else "group-invented" if extra and not lost else "groups-differ"
            vs.append(make_violation(f"api:{kind}", case, sorted(sorted(s) for s in expected), sorted(sorted(s) for s in got)))
        # the printed report, written to a stream of the caller's choice
        import contextlib
        import io

        buf, leaked = io.StringIO(), io.StringIO()
        try:
            with contextlib.redirect_stdout(leaked):
                report.duplicates(cb, stream=buf)
        except Exception as e:
            vs.append(make_violation(f"report:exception:{type(e).__name__}", case, "report printed", f"{type(e).__name__}: {e}"))
        else:
            gotp = {frozenset(g) for g in parse_groups(buf.getvalue(), root)}
            if gotp != expected or leaked.getvalue().strip():
                vs.append(make_violation("report:stream-content-differs", case, sorted(sorted(s) for s in expected), {"in stream": sorted(sorted(s) for s in gotp), "on stdout instead": leaked.getvalue()[:200]}))
        if cli:
            with open(os.path.join(root, "db.json"), "w") as f:
                f.write("[]")
            with open(os.path.join(root, "analysis.toml"), "w") as f:
                if case["excludes"]:
                    f.write("[codebase]\nexclude = [" + ", ".join('"%s"' % e for e in case["excludes"]) + "]\n")
                f.write('[platform.p]\ncommands = "db.json"\n')
            rc, out, err = observe.run_cli("codebasin", ["-R", "duplicates", "analysis.toml"], cwd=root)
            if rc != 0 and "Could not determine language" in (out + err) and any(k.endswith((".f", ".F", ".for")) for k in case["files"]):
                # known finding: fixed-form Fortran is a recognised source language without a line source
                vs.append(make_violation(SIG_FIXED_FORM, case, 0, [rc, (out + err)[-300:]]))
            elif rc != 0:
                vs.append(make_violation("cli:exit", case, 0, [rc, out[-300:], err[-300:]]))
            else:
                sec = out.split("Duplicates", 1)[-1]
                gotc = {frozenset(g) for g in parse_groups(sec, root)}
                if gotc != expected or ("No duplicates found." in sec) != (not expected):
                    vs.append(make_violation("cli:groups-differ", case, sorted(sorted(s) for s in expected), sorted(sorted(s) for s in gotc)))
            res.labels["cli"] += 1
        if extra_roots:
            res.labels["several-root-directories"] += 1
        contents = [case["files"][k] for k in case["files"]]
        special = bool(case["links"]) or bool(case["excludes"]) or any(k.startswith("../") or k.endswith((".txt", ".dat")) for k in case["files"])
        near = len({1, 2, 3, 4} & set(contents)) >= 2
        nt = (len(expected) >= 2 or any(len(s) >= 3 for s in expected)) and near and special
        res.case(key=case, nontrivial=nt, sample={"files": {k: repr(POOL[v]) for k, v in case["files"].items()}, "links": case["links"], "excludes": case["excludes"], "expected_groups": sorted(sorted(s) for s in expected)} if nt else None, labels=[f"groups={min(len(expected),4)}", f"max-size={min(max([len(s) for s in expected] or [0]),4)}"])
    return vs


def _shard(seed, n, known, cli):
    core.setup_import_path()
    res = Result()
    core.hyp_search(case_strategy(), lambda c, r: check_case(c, r, cli=cli), n, seed, res, known_sigs=known, shrink=not cli)
    return res


def run(ctx):
    n = core.NPROC
    napi, ncli = ctx.pick(8000, 200000), ctx.pick(12, 300)
    jobs = [(ctx.shard_seed("api", i), max(1, napi // (n - 4)), ctx.known_sigs, False) for i in range(n - 4)]
    jobs += [(ctx.shard_seed("cli", i), max(1, ncli // 4), ctx.known_sigs, True) for i in range(4)]
    res = core.merge_results(core.pool_map(_shard, jobs))
    res.exhaustive = False
    return res


def replay(case):
    core.setup_import_path()
    return check_case(case, Result(), cli=bool(case.get("cli")))
