"""C16 - the duplicates report lists exactly the sets of byte-identical
files (DESIGN.md section 2, C16)."""

import filecmp
import os
import re

from vlib import core, observe
from vlib.core import Result, make_violation

PROP = "C16"
RULE = (
    "code bases of 2-12 files whose contents are drawn from a pool of 8 byte strings (empty, differing only in the last "
    "byte, differing only in length, CR vs LF, non-UTF-8 bytes), so equivalence classes of every size occur, with twins "
    "that are excluded by pattern, outside the root, non-source files, fixed-form Fortran files, or symbolic links (to files inside and outside); "
    "the code base is sometimes given further directories that overlap, repeat or lie beside the first; "
    "one case in four has a history of 1-2 rewrite steps (1-3 files rewritten in place, mostly with other bytes of the same "
    "length, modification time set with os.utime to the old value, to another instant of the same second, or seconds later) "
    "and the same paths are reported again in the same process after every step. "
    "Oracle: direct byte-wise partition of the non-symlink members of list(codebase); the groups of size >= 2 must equal "
    "the reported groups exactly as a set of sets (in-process report.find_duplicates and the Duplicates section of "
    "`codebasin -R duplicates`). Non-trivial: >=2 groups or one of size >=3, together with a near-duplicate and an "
    "excluded/linked/outside/non-source twin; distinct by layout."
)
ASSUMPTIONS = ["code-base membership is taken from CodeBase itself (C09/C15 check it)"]

SIG_FIXED_FORM = "cli:fixed-form-fortran-file-aborts-every-report"

POOL = [b"", b"int a;\n", b"int a;\r", b"int a;\n\n", b"int a;", b"int b;\n", b"\xff\xfe\x00bin\n", b"int a;\n/* x */\n", b"\xff\xfe\x00bin\r"]
# pool members that share their length with another member (7 bytes): a rewrite among them keeps the size
SAME_LEN_IDX = [i for i, b in enumerate(POOL) if sum(len(c) == len(b) for c in POOL) >= 2]
DIRS = ["", "src", "src/a", "lib", "excl", "../ext"]
EXTS = [".c", ".h", ".cpp", ".f90", ".txt", ".S", ".dat"]


MTIME_MODES = ["pin", "same-second", "later"]


def history_step(names):
    """One rewrite step: 1-3 files get a new content (mostly one of the same length as some pool member of
    equal size, so that size alone does not reveal the change) and a modification time derived from the old one."""
    from hypothesis import strategies as st

    @st.composite
    def step(draw):
        writes = {}
        for k in draw(st.lists(st.sampled_from(names), min_size=1, max_size=3, unique=True)):
            writes[k] = draw(st.sampled_from(SAME_LEN_IDX + SAME_LEN_IDX + list(range(len(POOL)))))
        return {"writes": writes, "mtime": draw(st.sampled_from(MTIME_MODES))}

    return step()


def apply_step(root, step, current, stage):
    """Rewrite the files of one history step; returns True when some file got other bytes of the same length
    while its modification time stayed within the same second (the shape a size+mtime shortcut gets wrong)."""
    hidden = False
    for k, v in step["writes"].items():
        p = os.path.join(root, k)
        old = os.stat(p)
        with open(p, "wb") as f:
            f.write(POOL[v])
        sec = old.st_mtime_ns // 1_000_000_000
        if step["mtime"] == "pin":
            new_ns = old.st_mtime_ns
        elif step["mtime"] == "same-second":
            new_ns = sec * 1_000_000_000 + (old.st_mtime_ns % 1_000_000_000 + 1_000_003 * stage) % 1_000_000_000
        else:
            new_ns = old.st_mtime_ns + 2_000_000_000 * stage
        os.utime(p, ns=(new_ns, new_ns))
        if POOL[v] != POOL[current[k]] and len(POOL[v]) == len(POOL[current[k]]) and step["mtime"] != "later":
            hidden = True
        current[k] = v
    return hidden


def case_strategy():
    from hypothesis import strategies as st

    @st.composite
    def case(draw):
        n = draw(st.integers(2, 12))
        files = {}
        for i in range(n):
            d = draw(st.sampled_from(DIRS))
            ext = draw(st.sampled_from(EXTS))
            files[(d + "/" if d else "") + f"f{i}{ext}"] = draw(st.integers(0, len(POOL) - 1))
        links = {}
        for j in range(draw(st.integers(0, 2))):
            tgt = draw(st.sampled_from(sorted(files)))
            d = draw(st.sampled_from(DIRS[:4]))
            links[(d + "/" if d else "") + f"l{j}{os.path.splitext(tgt)[1]}"] = os.path.relpath(tgt, d or ".")
        excludes = draw(st.sampled_from([[], [], ["excl/"], ["*.h"], ["/src/a/"], ["excl/", "*.cpp"]]))
        # files that come out of an archive or a checkout often share one modification time
        # now and then a fixed-form Fortran file (recognised as a source file like the others)
        if draw(st.integers(0, 7)) == 0:
            k0 = sorted(files)[0]
            files[os.path.splitext(k0)[0] + draw(st.sampled_from([".f", ".F", ".for"]))] = files.pop(k0)
            links = {ln: t for ln, t in links.items() if not t.endswith(os.path.basename(k0))}
        # a code base may be given several directories; they may overlap or repeat
        roots = draw(st.sampled_from([[], [], [], ["src"], ["src/a", "src"], ["."], ["lib", "src/a"], ["../ext"]]))
        case = {"files": files, "links": links, "excludes": excludes, "same_mtime": draw(st.booleans()), "roots": roots}
        # a history: the same paths are reported again in the same process after some files were rewritten
        # (an editor save, a checkout of another revision), often with other bytes of the same length and
        # a modification time that does not move, or moves only within the same second
        history = []
        for _ in range(draw(st.sampled_from([0, 0, 0, 0, 0, 0, 1, 2]))):
            history.append(draw(history_step(sorted(files))))
        if history:
            case["history"] = history
        return case

    return case()


def parse_groups(text, root):
    groups, cur = [], None
    for ln in text.splitlines():
        if re.match(r"^Match \d+:", ln):
            cur = set()
            groups.append(cur)
        elif ln.startswith("- ") and cur is not None:
            cur.add(os.path.relpath(ln[2:].strip(), root))
    return groups


def check_case(case, res: Result, cli=False):
    from codebasin import CodeBase, report

    vs = []
    with core.Scratch("c16") as top:
        root = os.path.join(top, "cb")
        os.makedirs(root)
        core.write_tree(root, {k: POOL[v] for k, v in case["files"].items()}, case["links"])
        if case.get("same_mtime"):
            for k in case["files"]:
                os.utime(os.path.join(root, k), ns=(1_600_000_000_000_000_000, 1_600_000_000_000_000_000))
        filecmp.clear_cache()
        # (the command-line front end knows one root directory only)
        extra_roots = [] if cli else [os.path.join(root, r) for r in case.get("roots", []) if os.path.isdir(os.path.join(root, r))]
        import contextlib
        import io

        current = dict(case["files"])
        history = case.get("history", [])
        hidden_rewrites = twin_made = 0
        expected = set()
        for stage in range(len(history) + 1):
            # stage 0 is the tree as written; every later stage rewrites some files in place and reports
            # the same paths again, in the same process
            pre = "" if stage == 0 else "history:"
            if stage:
                before = expected
                hidden = apply_step(root, history[stage - 1], current, stage)
                filecmp.clear_cache()
            cb = CodeBase(root, *extra_roots, exclude_patterns=list(case["excludes"]))
            listed = list(cb)
            if len(listed) != len(set(listed)):
                vs.append(make_violation("enumeration:file-yielded-twice", case, "each member once", sorted(os.path.relpath(p, root) for p in listed if listed.count(p) > 1)))
            members = [p for p in cb if not os.path.islink(p)]
            by = {}
            for p in members:
                with open(p, "rb") as f:
                    by.setdefault(f.read(), set()).add(os.path.relpath(p, root))
            expected = {frozenset(s) for s in by.values() if len(s) >= 2}
            if stage == 0:
                expected0 = expected
            if stage and hidden:
                hidden_rewrites += 1
                # a rewritten file became the twin of a file it differed from before (or left its twins)
                twin_made += expected != before
            try:
                got_list = report.find_duplicates(cb)
            except Exception as e:
                return [make_violation(f"{pre}exception:{type(e).__name__}", case, "report succeeds", f"{type(e).__name__}: {e}")]
            got = [frozenset(os.path.relpath(str(p), root) for p in s) for s in got_list]
            if len(got) != len(set(got)) or set(got) != expected:
                lost = expected - set(got)
                extra = set(got) - expected
                kind = "group-missing" if lost and not extra else "group-invented" if extra and not lost else "groups-differ"
                vs.append(make_violation(f"{pre}api:{kind}", case, {"report no.": stage + 1, "groups": sorted(sorted(s) for s in expected)}, sorted(sorted(s) for s in got)))
            # the printed report, written to a stream of the caller's choice
            buf, leaked = io.StringIO(), io.StringIO()
            try:
                with contextlib.redirect_stdout(leaked):
                    report.duplicates(cb, stream=buf)
            except Exception as e:
                vs.append(make_violation(f"{pre}report:exception:{type(e).__name__}", case, "report printed", f"{type(e).__name__}: {e}"))
            else:
                gotp = {frozenset(g) for g in parse_groups(buf.getvalue(), root)}
                if gotp != expected or leaked.getvalue().strip():
                    vs.append(make_violation(f"{pre}report:stream-content-differs", case, {"report no.": stage + 1, "groups": sorted(sorted(s) for s in expected)}, {"in stream": sorted(sorted(s) for s in gotp), "on stdout instead": leaked.getvalue()[:200]}))
            if vs and stage:
                break
        if history:
            res.labels["reported-again-after-rewrite"] += 1
        if hidden_rewrites:
            res.labels["rewrite-same-length-same-second"] += 1
        if twin_made:
            res.labels["rewrite-same-length-same-second-changes-groups"] += 1
        if cli:
            with open(os.path.join(root, "db.json"), "w") as f:
                f.write("[]")
            with open(os.path.join(root, "analysis.toml"), "w") as f:
                if case["excludes"]:
                    f.write("[codebase]\nexclude = [" + ", ".join('"%s"' % e for e in case["excludes"]) + "]\n")
                f.write('[platform.p]\ncommands = "db.json"\n')
            rc, out, err = observe.run_cli("codebasin", ["-R", "duplicates", "analysis.toml"], cwd=root)
            if rc != 0 and "Could not determine language" in (out + err) and any(k.endswith((".f", ".F", ".for")) for k in case["files"]):
                # known finding: fixed-form Fortran is a recognised source language without a line source
                vs.append(make_violation(SIG_FIXED_FORM, case, 0, [rc, (out + err)[-300:]]))
            elif rc != 0:
                vs.append(make_violation("cli:exit", case, 0, [rc, out[-300:], err[-300:]]))
            else:
                sec = out.split("Duplicates", 1)[-1]
                gotc = {frozenset(g) for g in parse_groups(sec, root)}
                if gotc != expected or ("No duplicates found." in sec) != (not expected):
                    vs.append(make_violation("cli:groups-differ", case, sorted(sorted(s) for s in expected), sorted(sorted(s) for s in gotc)))
            res.labels["cli"] += 1
        if extra_roots:
            res.labels["several-root-directories"] += 1
        contents = [case["files"][k] for k in case["files"]]
        special = bool(case["links"]) or bool(case["excludes"]) or any(k.startswith("../") or k.endswith((".txt", ".dat")) for k in case["files"])
        near = len({1, 2, 3, 4} & set(contents)) >= 2
        nt = (len(expected0) >= 2 or any(len(s) >= 3 for s in expected0)) and near and special
        res.case(key=case, nontrivial=nt, sample={"files": {k: repr(POOL[v]) for k, v in case["files"].items()}, "links": case["links"], "excludes": case["excludes"], "expected_groups": sorted(sorted(s) for s in expected0)} if nt else None, labels=[f"groups={min(len(expected0),4)}", f"max-size={min(max([len(s) for s in expected0] or [0]),4)}"])
    return vs


def _shard(seed, n, known, cli):
    core.setup_import_path()
    res = Result()
    core.hyp_search(case_strategy(), lambda c, r: check_case(c, r, cli=cli), n, seed, res, known_sigs=known, shrink=not cli)
    return res


def run(ctx):
    n = core.NPROC
    napi, ncli = ctx.pick(8000, 200000), ctx.pick(12, 300)
    jobs = [(ctx.shard_seed("api", i), max(1, napi // (n - 4)), ctx.known_sigs, False) for i in range(n - 4)]
    jobs += [(ctx.shard_seed("cli", i), max(1, ncli // 4), ctx.known_sigs, True) for i in range(4)]
    res = core.merge_results(core.pool_map(_shard, jobs))
    res.exhaustive = False
    return res


def replay(case):
    core.setup_import_path()
    return check_case(case, Result(), cli=bool(case.get("cli")))
