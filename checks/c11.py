"""C11 - -D/-I/-isystem/-include are extracted from any command line,
robustly (DESIGN.md section 2, C11)."""

import itertools
import json
import os
import shlex
import subprocess

from vlib import core
from vlib.core import Result, make_violation

PROP = "C11"
RULE = (
    "argument vectors built from atoms: recognised options (-D name / name=value with '=', quotes, blanks, '(' in the "
    "value; -I, -isystem, -include; each attached or as the next argument; directory values with blanks, '=', and - at low "
    "frequency - a leading dash) interleaved with a catalogue of ~75 real gcc/clang/icx/nvcc options CBI does not model "
    "(-g3 -ggdb -gdwarf-4 -O -O2 -Ofast -Wall -std=... -MD -MF x -MT x -fPIC -pthread -march=... -x c++ -ccbin g++ "
    "-cxx-isystem d -Xcompiler ... @rsp -c -o x -L -l -U ...), argv[0] from known and unknown compilers; exhaustive for all "
    "vectors of <=3 atoms over a reduced catalogue, Hypothesis vectors of up to 40 atoms. Oracle: the expected ordered "
    "lists follow from the atoms by construction (a 10-line scanner, no shared code); any exception is a violation. Every "
    "vector is also rendered as a command string (shlex.join, double-quote style, backslash style) whose word splitting is "
    "decided by /bin/sh; load_database must return the same entries for `command` and `arguments`. Non-trivial: a "
    "recognised option after an unmodelled flag that shares a prefix with a modelled one (-g..., -c..., -O..., -o..., -i..., "
    "-D-like); distinct by argv."
)
ASSUMPTIONS = [
    "expected include_paths: the -I directories in command-line order, then the -isystem directories in command-line order; a directory given both ways may appear once (compiler search semantics, see C04)",
    "/bin/sh decides how a command string splits into words; values contain no $ or backtick (shell expansion is not part of the compilation-database format)",
    "options the built-in compiler definitions model are left to C12, except -fopenmp: it appears in the random vectors and contributes exactly _OPENMP, appended, for gcc/g++/clang/clang++/icx/nvcc (read from the built-in definition files)",
    "a leading-dash value attached to -isystem/-include (-isystem-x) is not generated: that spelling collides with real options such as -isystem-after / -include-pch",
]

# ---------------------------------------------------------------- atoms

UNMODELLED = [
    ["-g"], ["-g3"], ["-ggdb"], ["-gdwarf-4"], ["-g0"], ["-gsplit-dwarf"],
    ["-O"], ["-O2"], ["-O0"], ["-Ofast"], ["-Os"],
    ["-Wall"], ["-Wextra"], ["-Werror=format"], ["-Wno-unused"], ["-w"],
    ["-std=c++17"], ["-std=gnu99"], ["-ansi"],
    ["-MD"], ["-MMD"], ["-MP"], ["-MF", "deps.d"], ["-MT", "obj.o"], ["-MQ", "tgt"],
    ["-fPIC"], ["-fno-omit-frame-pointer"], ["-ffast-math"], ["-fvisibility=hidden"],
    ["-pthread"], ["-pipe"], ["-v"], ["-shared"], ["-static"],
    ["-march=native"], ["-mavx2"], ["-m64"], ["-mtune=generic"],
    ["-x", "c++"], ["-xc"],
    ["-ccbin", "g++"], ["-cxx-isystem", "cxxdir"], ["-Xcompiler", "-fPIC"], ["-Xclang", "-fcolor"], ["-Xlinker", "-s"],
    ["@rsp.txt"],
    ["-c"], ["-o", "out.o"], ["-oout.o"], ["-S"], ["-E"],
    ["-L/usr/lib"], ["-L", "libdir"], ["-lfoo"], ["-Wl,-rpath,/x"],
    ["-UNDEBUG"], ["-U", "X"],
    ["-iquote", "qdir"], ["-idirafter", "adir"], ["-imacros", "m.h"], ["-isysroot", "/sdk"], ["--sysroot=/sr"], ["-nostdinc"],
    ["--param", "x=1"], ["-arch", "sm_70"], ["-target", "x86_64-linux"], ["-stdlib=libc++"],
    ["-qopenmp"], ["-dc"], ["-rdc=true"], ["--expt-relaxed-constexpr"], ["-G"], ["-dD"], ["-dM"],
    ["main.c"], ["util.o"], ["src/a b.c"],
]
SMALL_UNMODELLED = [["-g3"], ["-ggdb"], ["-O"], ["-O2"], ["-Wall"], ["-MF", "d.d"], ["-ccbin", "g++"], ["-cxx-isystem", "cd"], ["-c"], ["-o", "x.o"], ["-x", "c++"], ["-std=c99"], ["-fPIC"], ["@rsp"], ["-U", "X"], ["-iquote", "q"], ["main.c"], ["-g"]]
DEFINES = ["X", "FOO=1", "BAR=a=b", 'S="quoted str"', "W=a b", "F(x)=x+1", "N=-1", "E=", "_FORTIFY_SOURCE=2", "VER='c'"]
DIRS = ["inc", "/abs/inc", "../rel", "dir with space", "a=b", "."]
DASH_DIRS = ["-dashdir"]
FILES = ["pre.h", "/abs/cfg.h", "sub/f.inc"]
COMPILERS = ["gcc", "g++", "clang", "/usr/bin/clang++", "icx", "nvcc", "mycc", "cc"]


def rec(kind, value, attached):
    flag = {"D": "-D", "I": "-I", "isystem": "-isystem", "include": "-include"}[kind]
    toks = [flag + value] if attached else [flag, value]
    return {"kind": kind, "value": value, "attached": attached, "tokens": toks}


def unm(toks):
    return {"kind": "other", "tokens": list(toks)}


def argv_of(atoms):
    return [t for a in atoms for t in a["tokens"]]


def expected(atoms, nvcc=False):
    d = [a["value"] for a in atoms if a["kind"] == "D"]
    # an empty directory name (`-I ""`) is ignored, as compilers do
    i = [a["value"] for a in atoms if a["kind"] == "I" and a["value"] != ""]
    s = [a["value"] for a in atoms if a["kind"] == "isystem" and a["value"] != ""]
    f = [a["value"] for a in atoms if a["kind"] == "include"]
    return {"defines": d, "I": i, "isystem": s, "include_files": f}


def observe(argv0, argv):
    from codebasin import config

    try:
        cfgs = config.ArgumentParser(argv0).parse_args(list(argv))
    except (Exception, SystemExit) as e:  # argparse ends the process with SystemExit: that aborts the analysis too
        return ("exc", type(e).__name__, str(e)[:200])
    dflt = [c for c in cfgs if c.pass_name == "default"]
    if len(dflt) != 1:
        return ("exc", "NoDefaultPass", str([c.pass_name for c in cfgs]))
    c = dflt[0]
    return {"defines": list(c.defines), "include_paths": list(c.include_paths), "include_files": list(c.include_files)}


IMPLICIT = {"nvcc": ["__NVCC__", "__CUDACC__"]}
# one modelled mode flag takes part, so that the code merging a mode's contribution into the user's
# lists runs: the built-in definitions of these compilers give -fopenmp the single define _OPENMP,
# appended after everything else (C12 checks the definitions themselves)
OPENMP_COMPILERS = {"gcc", "g++", "clang", "clang++", "icx", "nvcc"}


def judge(argv0, atoms):
    """-> None | (kind, expected, observed)"""
    if any(a["tokens"] == ["-fopenmp=libomp"] for a in atoms) and os.path.basename(argv0) not in ("clang", "clang++"):
        return None  # a clang spelling: other compilers reject it, so nothing is promised there
    if any(a["tokens"] == ["-fsycl"] for a in atoms) and os.path.basename(argv0) in ("icx", "icpx"):
        return None  # modelled there (C12)
    exp = expected(atoms)
    obs = observe(argv0, argv_of(atoms))
    if isinstance(obs, tuple):
        return (f"exception:{obs[1]}", exp, f"{obs[1]}: {obs[2]}")
    base = os.path.basename(argv0)
    exp_def = exp["defines"] + IMPLICIT.get(base, [])
    if (base in OPENMP_COMPILERS and any(a["tokens"] == ["-fopenmp"] for a in atoms)) or (base in ("clang", "clang++") and any(a["tokens"] == ["-fopenmp=libomp"] for a in atoms)):
        exp_def = exp_def + ["_OPENMP"]
    if obs["defines"] != exp_def:
        return ("defines", exp_def, obs["defines"])
    if obs["include_files"] != exp["include_files"]:
        return ("include_files", exp["include_files"], obs["include_files"])
    ip = obs["include_paths"]
    both = set(exp["I"]) & set(exp["isystem"])
    i_only = [x for x in exp["I"] if x not in both]
    want_a = i_only + exp["isystem"]  # compiler semantics: -I of a system dir ignored
    want_b = exp["I"] + exp["isystem"]  # or listed at both positions
    if ip != want_a and ip != want_b:
        return ("include_paths", want_a, ip)
    return None


def atom_class(a):
    if a["kind"] in ("other", "mode", "prefix"):
        return " ".join(a["tokens"])
    v = a["value"]
    extra = "leading-dash" if v.startswith("-") else ("space" if " " in v else "")
    return f"{a['kind']}:{'attached' if a['attached'] else 'separate'}" + (f":{extra}" if extra else "")


def minimise(argv0, atoms, kind):
    cur = list(atoms)
    changed = True
    while changed:
        changed = False
        for i in range(len(cur)):
            cand = cur[:i] + cur[i + 1:]
            j = judge(argv0, cand)
            if j is not None and j[0] == kind:
                cur, changed = cand, True
                break
    return cur


def signature(kind, atoms):
    return f"{kind}|" + " ; ".join(atom_class(a) for a in atoms)


def check_vector(case, res: Result, sample=True):
    argv0, atoms = case
    j = judge(argv0, atoms)
    prefixy = False
    seen_other = False
    for a in atoms:
        if a["kind"] == "other" and a["tokens"][0][:2] in ("-g", "-c", "-O", "-o", "-i", "-D", "-I", "-M", "-x", "-U"):
            seen_other = True
        elif a["kind"] != "other" and seen_other:
            prefixy = True
    res.case(key=[argv0, argv_of(atoms)] if sample else None, nontrivial=prefixy, sample={"argv": [argv0] + argv_of(atoms), "expected": expected(atoms)} if (sample and prefixy) else None, labels=[f"atoms={min(len(atoms), 10)}"])
    if j is None:
        return []
    m = minimise(argv0, atoms, j[0])
    j2 = judge(argv0, m)
    return [make_violation(signature(j2[0], m), {"argv0": argv0, "atoms": m, "argv": argv_of(m), "original_argv": argv_of(atoms)}, j2[1], j2[2])]


# ---------------------------------------------------------------- exhaustive short vectors


def small_atoms():
    out = [unm(t) for t in SMALL_UNMODELLED]
    for att in (True, False):
        out += [rec("D", "X", att), rec("D", "Y=2", att), rec("I", "inc", att), rec("isystem", "sys", att), rec("include", "pre.h", att)]
    return out


def _enum_shard(shard, nshards, known, maxlen):
    core.setup_import_path()
    res = Result()
    atoms = small_atoms()
    idx = 0
    seen = set()
    for n in range(1, maxlen + 1):
        for combo in itertools.product(atoms, repeat=n):
            idx += 1
            if idx % nshards != shard:
                continue
            if not any(a["kind"] != "other" for a in combo) and n > 1:
                pass
            vs = check_vector(("gcc", list(combo)), res, sample=(idx % 9973 == 0))
            for v in vs:
                if v["signature"] in known:
                    res.suppressed[v["signature"]] += 1
                elif v["signature"] not in seen:
                    seen.add(v["signature"])
                    res.violation(**v)
    return res


# ---------------------------------------------------------------- random long vectors


def vector_strategy():
    from hypothesis import strategies as st

    d = st.builds(rec, st.just("D"), st.sampled_from(DEFINES), st.booleans())
    i = st.builds(rec, st.just("I"), st.sampled_from(DIRS), st.booleans())
    s = st.builds(rec, st.just("isystem"), st.sampled_from(DIRS), st.booleans())
    f = st.builds(rec, st.just("include"), st.sampled_from(FILES), st.booleans())
    # attached leading-dash values only for -I: `-isystem-x` / `-include-x` collide with real options
    # of other compilers (-isystem-after, -include-pch) and are left out of the domain
    dash = st.one_of(st.builds(rec, st.sampled_from(["I", "isystem", "include"]), st.sampled_from(DASH_DIRS), st.just(False)), st.builds(rec, st.just("I"), st.sampled_from(DASH_DIRS), st.just(True)))
    o = st.sampled_from(UNMODELLED).map(unm)
    # CMake's precompiled-header spelling for clang: every argument of the compiler proper is forwarded with -Xclang
    xclang = st.sampled_from(FILES).map(lambda v: {"kind": "include", "value": v, "attached": False, "tokens": ["-Xclang", "-include", "-Xclang", v]})
    # an unmodelled option that is a prefix of a modelled one (clang models -fsycl-is-device only) must stay unmodelled
    prefix = st.sampled_from([["-fsycl"], ["-fopen"], ["-incl"], ["-isys"]]).map(lambda t: {"kind": "prefix", "tokens": t})
    mode = st.one_of(st.just({"kind": "mode", "tokens": ["-fopenmp"]}), st.just({"kind": "mode", "tokens": ["-fopenmp=libomp"]}), xclang, prefix,
                     st.builds(rec, st.sampled_from(["I", "isystem"]), st.just(""), st.just(False)))
    atom = st.one_of(d, d, i, i, s, f, o, o, o, o, o, st.one_of(dash, o, o, o, o, o, o, o), st.one_of(mode, d, i, o))
    return st.tuples(st.sampled_from(COMPILERS), st.lists(atom, min_size=1, max_size=40))


def _rand_shard(seed, n, known):
    core.setup_import_path()
    res = Result()
    found = {}

    def chk(case, r):
        vs = check_vector(case, r)
        out = []
        for v in vs:
            if v["signature"] in known:
                out.append(v)
            else:
                found.setdefault(v["signature"], v)
        return out

    core.hyp_search(vector_strategy(), chk, n, seed, res, known_sigs=known, shrink=False)
    for v in found.values():
        res.violation(**v)
    return res


# ---------------------------------------------------------------- command string vs arguments


def render_dq(argv):
    out = []
    for a in argv:
        if a and all(c.isalnum() or c in "-_./=+,@:%" for c in a):
            out.append(a)
        else:
            out.append('"' + a.replace("\\", "\\\\").replace('"', '\\"') + '"')
    return " ".join(out)


def render_bs(argv):
    out = []
    for a in argv:
        out.append("".join(c if (c.isalnum() or c in "-_./=+,@:%") else "\\" + c for c in a) or "''")
    return " ".join(out)


def sh_split(command):
    p = subprocess.run(["/bin/sh", "-c", 'printf "%s\\0" ' + command], stdout=subprocess.PIPE, stderr=subprocess.PIPE)
    if p.returncode != 0 or p.stderr:
        return None
    parts = p.stdout.split(b"\0")
    return [x.decode() for x in parts[:-1]]


def _cmd_shard(seed, n, known):
    core.setup_import_path()
    from codebasin import config

    res = Result()

    def chk(case, r):
        argv0, atoms = case
        argv = [argv0] + argv_of(atoms) + ["-c", "main.c"]
        if judge(argv0, atoms) is not None:
            r.discarded["vector-fails-already-in-argument-form"] += 1
            return []
        vs = []
        with core.Scratch("c11") as root:
            with open(os.path.join(root, "main.c"), "w") as f:
                f.write("int x;\n")

            def load(entry):
                config._compilers = None
                p = os.path.join(root, "db.json")
                with open(p, "w") as f:
                    json.dump([entry], f)
                old = os.getcwd()
                os.chdir(root)
                try:
                    return config.load_database(p, root)
                finally:
                    os.chdir(old)

            try:
                ref = load({"directory": root, "file": "main.c", "arguments": argv})
            except (Exception, SystemExit) as e:  # argparse ends the process with SystemExit: that aborts the analysis too
                return [make_violation(f"load_database:exception:{type(e).__name__}", {"argv": argv}, "loads", str(e)[:200])]
            for style, text in (("shlex.join", shlex.join(argv)), ("double-quote", render_dq(argv)), ("backslash", render_bs(argv))):
                words = sh_split(text)
                if words != argv:
                    r.discarded[f"sh-splits-differently:{style}"] += 1
                    continue
                try:
                    got = load({"directory": root, "file": "main.c", "command": text})
                except (Exception, SystemExit) as e:  # argparse ends the process with SystemExit: that aborts the analysis too
                    vs.append(make_violation(f"command-form:{style}:exception:{type(e).__name__}", {"argv": argv, "command": text}, "same entries as the arguments form", str(e)[:200]))
                    continue
                if got != ref:
                    vs.append(make_violation(f"command-form:{style}:differs", {"argv": argv, "command": text}, ref, got))
            r.case(key=["cmd", argv], nontrivial=any(" " in a or '"' in a or "'" in a for a in argv), sample={"command": render_dq(argv)} if any('"' in a for a in argv) else None, labels=["command-string"])
        return vs

    core.hyp_search(vector_strategy(), chk, n, seed, res, known_sigs=known)
    return res


def _dispatch(job):
    fn, a = job
    return fn(*a)


def run(ctx):
    n = core.NPROC
    maxlen = ctx.pick(3, 3)
    jobs = [(_enum_shard, (i, n * 2, ctx.known_sigs, maxlen)) for i in range(n * 2)]
    nrand = ctx.pick(40000, 2000000)
    jobs += [(_rand_shard, (ctx.shard_seed("rand", i), nrand // n, ctx.known_sigs)) for i in range(n)]
    ncmd = ctx.pick(400, 20000)
    jobs += [(_cmd_shard, (ctx.shard_seed("cmd", i), ncmd // 8, ctx.known_sigs)) for i in range(8)]
    res = core.merge_results(core.pool_map(_dispatch, [(j,) for j in jobs]))
    res.exhaustive = False
    res.extra["exhaustive_part"] = f"all vectors of <= {maxlen} atoms over {len(small_atoms())} atoms (reduced catalogue) for gcc"
    return res


def replay(case):
    core.setup_import_path()
    return check_vector((case["argv0"], case["atoms"]), Result())
