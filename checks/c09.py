"""C09 - code-base membership: extension, location and git-style exclude
patterns (DESIGN.md section 2, C09)."""

import os
import re
import stat
import subprocess

from vlib import core
from vlib.core import Result, make_violation

PROP = "C09"
RULE = (
    "random directory trees (nesting <=3, names with blanks and the glob metacharacters [ * ? # ! and a leading dash, "
    "source and non-source extensions, file and directory symlinks, dangling links, links to outside and from outside) "
    "crossed with lists of 0-5 gitignore patterns derived from the tree's own names (literal, *, ?, [classes], **, "
    "escapes, leading /, trailing /, ! negation, # comments, trailing blanks), plus a constructed list in about one tree of seven: a pattern "
    "matching a nested file by its own name followed by the negated directory-only pattern of one of its ancestors (git "
    "re-includes the directory, the file stays ignored). Oracle: `git check-ignore --no-index -v -n "
    "-z --stdin` in a throw-away repository whose info/exclude holds the patterns decides whether the root-relative "
    "resolved path is ignored; a direct os model decides the rest (existing regular file, recognised extension, under "
    "the resolved root). Observed: `p in CodeBase(...)` for every spelling of every path (absolute, relative to several "
    "working directories, with ./ and .. segments, through each link) - all spellings must agree - and list(CodeBase): "
    "every yielded path is a member and the real paths yielded are exactly the member files. Non-trivial: some pattern "
    "matches one file and spares another and the list uses an anchor, a trailing slash, **, a class or a negation; distinct by tree+patterns. "
    "A disagreement with git is filed under the two known pathspec findings only when pathspec.GitIgnoreSpec, asked directly, gives the observed answer."
)
ASSUMPTIONS = [
    "git 2.39 is the reference for .gitignore semantics (the code base documents git behaviour and delegates to pathspec.GitIgnoreSpec)",
    "file names contain no newline and are ASCII (git's ? and [..] match bytes, pathspec characters: not part of the statement); patterns are matched against the resolved path relative to the resolved root",
]

SEGS = ["a", "b", "src", "x y", "w[1]", "st*r", "q?", "#h", "!n", "-d", "A", "c.d", "inc", "e_1", "v.c", "t.h"]  # the last two: directory names that `*.ext` patterns match
EXTS = [".c", ".h", ".cpp", ".txt", ".o", "", ".f90", ".C"]
SOURCE_EXT = {".f90", ".F90", ".f", ".ftn", ".fpp", ".F", ".FOR", ".FTN", ".FPP", ".c", ".h", ".c++", ".cxx", ".cpp", ".cc", ".hpp", ".hxx", ".h++", ".hh", ".inc", ".inl", ".tcc", ".icc", ".ipp", ".cu", ".cuh", ".cl", ".s", ".S", ".asm"}


SIG_REINCLUDE = "root-cause:negation-combined-with-a-pattern-that-matches-a-parent-directory"
SIG_DSTAR = "root-cause:pattern-ending-in-double-star-slash"


def esc(seg):
    return re.sub(r"([\[\]*?#!\\ ])", r"\\\1", seg)


def case_strategy():
    from hypothesis import strategies as st

    seg = st.sampled_from(SEGS)

    @st.composite
    def case(draw):
        files = []
        for _ in range(draw(st.integers(1, 10))):
            depth = draw(st.integers(0, 3))
            parts = [draw(seg) for _ in range(depth)] + [draw(seg) + draw(st.sampled_from(EXTS))]
            files.append("/".join(parts))
        files = sorted(set(files))
        # no path may be both a file and a directory prefix of another
        files = [f for f in files if not any(g != f and g.startswith(f + "/") for g in files)]
        dirs = sorted({"/".join(f.split("/")[:i]) for f in files for i in range(1, f.count("/") + 1)})
        links = {}
        for j in range(draw(st.integers(0, 3))):
            kind = draw(st.sampled_from(["file", "dir", "dangling", "outside", "loop"]))
            where = draw(st.sampled_from([""] + dirs))
            if kind == "file":
                tgt = draw(st.sampled_from(files))
                name = f"lk{j}" + draw(st.sampled_from([os.path.splitext(tgt)[1], ".c", ".txt"]))
                links[(where + "/" if where else "") + name] = os.path.relpath(tgt, where or ".")
            elif kind == "dir" and dirs:
                tgt = draw(st.sampled_from(dirs))
                name = (where + "/" if where else "") + f"ld{j}"
                if not (name + "/").startswith(tgt + "/") and not (tgt + "/").startswith(name + "/"):
                    links[name] = os.path.relpath(tgt, where or ".")
            elif kind == "loop":
                # a link that resolves to nothing: to itself, or a two-link cycle
                base = (where + "/" if where else "")
                if draw(st.booleans()):
                    links[base + f"loop{j}.c"] = f"loop{j}.c"
                else:
                    links[base + f"cyc{j}a.c"] = f"cyc{j}b.c"
                    links[base + f"cyc{j}b.c"] = f"cyc{j}a.c"
            elif kind == "dangling":
                links[(where + "/" if where else "") + f"dang{j}.c"] = "nowhere.c"
            else:
                links[(where + "/" if where else "") + f"out{j}.c"] = os.path.relpath("../outside/o.c", where or ".")

        def variants(f):
            parts = f.split("/")
            base = parts[-1]
            stem, ext = os.path.splitext(base)
            v = [esc(base), "*" + esc(ext) if ext else esc(base), "/" + "/".join(esc(p) for p in parts), "**/" + esc(base)]
            if len(parts) > 1:
                d = "/".join(esc(p) for p in parts[:-1])
                v += [d + "/", esc(parts[0]) + "/", "/" + esc(parts[0]) + "/", d + "/**", esc(parts[0]) + "/**/" + esc(base), d + "/*", "/" + esc(parts[0]), esc(parts[-2]) + "/", "**/" + esc(parts[-2]) + "/**", esc(parts[-2]) + "/" + esc(base)]
            if stem and stem[0].isalnum():
                lo, hi = chr(max(ord(stem[0]) - 1, 33)), chr(ord(stem[0]) + 1)
                v += ["[" + lo + "-" + hi + "]" + esc(stem[1:]) + esc(ext), "?" + esc(stem[1:]) + esc(ext), esc(stem) + ".*", "[!z]" + esc(stem[1:]) + esc(ext)]
            v += [esc(base) + "\\ ", esc(base) + "  ", base]  # escaped trailing blank, unescaped trailing blanks, raw (unescaped) name
            return v

        pat = st.sampled_from(files).flatmap(lambda f: st.sampled_from(variants(f)))
        neg = pat.map(lambda p: "!" + p)
        other = st.sampled_from(["# a comment", "", "*", "!*/", "*.c", "!*.c", "**", "/*", "**/", "/**/"])
        patterns = draw(st.lists(st.one_of(pat, pat, pat, neg, other), min_size=0, max_size=5))
        if draw(st.integers(0, 5)) == 0:
            # the same pattern before and after a negation: the later copy is not redundant (last match decides)
            f = draw(st.sampled_from(files))
            base = f.split("/")[-1]
            ext = os.path.splitext(base)[1]
            broad = draw(st.sampled_from((["*" + esc(ext)] if ext else []) + [esc(base[:1]) + "*", "*"]))
            patterns = patterns[:2] + [broad, "!" + esc(base), broad]
        shape = None
        deep = [f for f in files if "/" in f]
        if deep and draw(st.integers(0, 6)) == 0:
            # constructed scenario: a pattern that matches a file by its own name / path, followed by the negation of a
            # *directory-only* pattern for one of the file's ancestors.  In git the negation re-includes the directory, not
            # the file (its own name is still matched); an implementation that lets the last matching pattern of the whole
            # list decide for the whole path re-includes the file.
            src = [f for f in deep if os.path.splitext(f)[1] in SOURCE_EXT]
            f = draw(st.sampled_from(src or deep))
            parts = f.split("/")
            base = parts[-1]
            ext = os.path.splitext(base)[1]
            d = "/".join(esc(p) for p in parts[:-1])
            own = [esc(base), "*", d + "/*", d + "/**", "**/" + esc(base), "/" + d + "/" + esc(base), esc(base[:1]) + "*"] + (["*" + esc(ext)] * 3 if ext else [])
            i = draw(st.integers(1, len(parts) - 1))
            anc = "/".join(esc(p) for p in parts[:i])
            negdir = ["!" + anc + "/", "!/" + anc + "/", "!" + esc(parts[i - 1]) + "/", "!**/" + esc(parts[i - 1]) + "/", "!*/", "!" + d + "/"]
            patterns = patterns[:draw(st.integers(0, 2))] + [draw(st.sampled_from(own))] + draw(st.lists(pat, max_size=1)) + [draw(st.sampled_from(negdir))]
            shape = {"name": "file-pattern-then-negated-directory", "file": f}
        # a FIFO named like a source file (not a regular file, so not a member)
        fifo = draw(st.sampled_from([None, None, None, "pipe.c", (dirs[0] + "/pipe.h") if dirs else "pipe.h"]))
        case = {"files": files, "links": links, "patterns": patterns, "fifo": fifo}
        if shape:
            case["shape"] = shape
        return case

    return case()


def git_ignored(gitdir, root, patterns, relpaths):
    """-> {relpath: bool} according to git"""
    if not relpaths:
        return {}
    env0 = dict(os.environ, GIT_CONFIG_NOSYSTEM="1", HOME=os.path.dirname(gitdir), GIT_CONFIG_GLOBAL="/dev/null")
    if not os.path.isdir(gitdir):
        q = subprocess.run(["git", "init", "-q", "--bare", gitdir], stdout=subprocess.PIPE, stderr=subprocess.PIPE, env=env0)
        if q.returncode:
            raise core.HarnessError(f"git init failed: {q.stderr.decode()[:300]}")
    os.makedirs(os.path.join(gitdir, "info"), exist_ok=True)
    with open(os.path.join(gitdir, "info", "exclude"), "w") as f:
        f.write("\n".join(patterns) + "\n")
    inp = b"\0".join(p.encode() for p in relpaths) + b"\0"
    env = dict(os.environ, GIT_CONFIG_NOSYSTEM="1", HOME=gitdir, GIT_CONFIG_GLOBAL="/dev/null")
    p = subprocess.run(["git", f"--git-dir={gitdir}", f"--work-tree={root}", "-c", "core.bare=false", "check-ignore", "--no-index", "-v", "-n", "-z", "--stdin"], input=inp, stdout=subprocess.PIPE, stderr=subprocess.PIPE, cwd=root, env=env)
    if p.returncode not in (0, 1):
        raise core.HarnessError(f"git check-ignore failed: {p.stderr.decode()[:300]}")
    fields = p.stdout.split(b"\0")[:-1]
    out = {}
    for i in range(0, len(fields), 4):
        src, line, pattern, path = fields[i:i + 4]
        pat = pattern.decode()
        out[path.decode()] = bool(pat) and not pat.startswith("!")
    if set(out) != set(relpaths):
        raise core.HarnessError(f"git check-ignore answered for {sorted(out)} instead of {sorted(relpaths)}")
    return out


def git_matched(gitdir, root, patterns, relpaths):
    """does any pattern (positive or negative) match one of these directories, according to git?"""
    os.makedirs(os.path.join(gitdir, "info"), exist_ok=True)
    with open(os.path.join(gitdir, "info", "exclude"), "w") as f:
        f.write("\n".join(patterns) + "\n")
    inp = b"\0".join(p.encode() for p in relpaths) + b"\0"
    env = dict(os.environ, GIT_CONFIG_NOSYSTEM="1", HOME=gitdir, GIT_CONFIG_GLOBAL="/dev/null")
    p = subprocess.run(["git", f"--git-dir={gitdir}", f"--work-tree={root}", "-c", "core.bare=false", "check-ignore", "--no-index", "-v", "-n", "-z", "--stdin"], input=inp, stdout=subprocess.PIPE, stderr=subprocess.PIPE, cwd=root, env=env)
    fields = p.stdout.split(b"\0")[:-1]
    return any(fields[i + 2] for i in range(0, len(fields), 4))


def library_ignored(patterns, rel):
    """What the third-party library answers when it is asked directly (pathspec.GitIgnoreSpec, not through the code under
    test).  Used only to decide whether a disagreement with git *is* one of the known library divergences - never as the
    expected value."""
    try:
        import pathspec

        return bool(pathspec.GitIgnoreSpec.from_lines(list(patterns)).match_file(rel))
    except Exception:
        return None


def pattern_features(p):
    f = []
    if p.startswith("!"):
        f.append("neg")
        p = p[1:]
    if p.startswith("#"):
        return ["comment"]
    if p.startswith("/"):
        f.append("anchored")
    if p.rstrip(" ").endswith("/") :
        f.append("dir-only")
    if "**" in p:
        f.append("**")
    if "*" in p.replace("**", "").replace("\\*", ""):
        f.append("*")
    if "?" in p.replace("\\?", ""):
        f.append("?")
    if re.search(r"(?<!\\)\[", p):
        f.append("class")
    if "\\" in p:
        f.append("escape")
    if p.endswith(" "):
        f.append("trailing-blank")
    if "/" in p.strip("/"):
        f.append("middle-slash")
    return f or ["literal"]


def check_case(case, res: Result):
    from codebasin import CodeBase

    vs = []
    with core.Scratch("c09") as top:
        root = os.path.join(top, "root")
        os.makedirs(root)
        core.write_tree(root, {f: "int x;\n" for f in case["files"]}, case["links"])
        # files outside the code base, one of them in a sibling directory whose name starts with the root's name
        core.write_tree(top, {"outside/o.c": "int o;\n", "root-old/stale.c": "int s;\n", "rootx/sub/y.cpp": "int y;\n"})
        os.symlink(os.path.join(root, case["files"][0]), os.path.join(top, "outside", "into.c"))
        if case.get("fifo"):
            os.mkfifo(os.path.join(root, case["fifo"]))
        rroot = os.path.realpath(root)
        cb = CodeBase(root, exclude_patterns=list(case["patterns"]))
        # every path spelling we can reach, grouped by what it resolves to
        spellings = {}
        for dirpath, dirnames, filenames in os.walk(root, followlinks=True):
            if dirpath.count(os.sep) - root.count(os.sep) > 6:
                dirnames[:] = []
                continue
            for n in filenames + [d for d in dirnames]:
                p = os.path.join(dirpath, n)
                spellings.setdefault(os.path.realpath(p), []).append(p)
        for ln in case["links"]:
            p = os.path.join(root, ln)
            spellings.setdefault(os.path.realpath(p), []).append(p)
        spellings.setdefault(os.path.realpath(os.path.join(top, "outside", "into.c")), []).append(os.path.join(top, "outside", "into.c"))
        for rel in ("outside/o.c", "root-old/stale.c", "rootx/sub/y.cpp"):
            spellings.setdefault(os.path.realpath(os.path.join(top, rel)), []).append(os.path.join(top, rel))
            spellings[os.path.realpath(os.path.join(top, rel))].append(os.path.join(root, "..", rel))
        # oracle
        cand = {}
        for real in spellings:
            ok = os.path.isfile(real) and os.path.splitext(real)[1] in SOURCE_EXT and (real == rroot or real.startswith(rroot + os.sep))
            cand[real] = ok
        rels = sorted(os.path.relpath(r, rroot) for r, ok in cand.items() if ok)
        ign = git_ignored(os.path.join(top, "gitdir"), rroot, case["patterns"], rels)
        expected = {r: (ok and not ign[os.path.relpath(r, rroot)]) for r, ok in cand.items()}
        cj = {**case}
        feats = sorted({x for p in case["patterns"] for x in pattern_features(p)})
        # membership under every spelling
        cwd = os.getcwd()
        try:
            for real, sps in spellings.items():
                answers = {}
                for sp in sps[:6]:
                    forms = [sp, os.path.join(os.path.dirname(sp), ".", os.path.basename(sp)), os.path.join(os.path.dirname(sp), "..", os.path.basename(os.path.dirname(sp)), os.path.basename(sp)),
                             # spellings the operating system rejects unless sp is a directory / the segment exists
                             sp + "/", sp + "/.", os.path.join(os.path.dirname(sp), "no_such_dir", "..", os.path.basename(sp))]
                    rd = os.path.realpath(os.path.dirname(sp))
                    if rd != os.path.abspath(os.path.dirname(sp)):
                        # reached through a link to a directory: `..` leads to the parent of the link's target, so the way
                        # back goes through the target's own name (a textual normaliser reads this spelling differently)
                        forms.append(os.path.join(os.path.dirname(sp), "..", os.path.basename(rd), os.path.basename(sp)))
                    for wd in (root, top):
                        os.chdir(wd)
                        forms.append(os.path.relpath(sp, wd))
                        for form in forms:
                            try:
                                names_regular_file = stat.S_ISREG(os.stat(form).st_mode)
                            except OSError:
                                names_regular_file = False
                            if not names_regular_file:
                                # link loops, FIFOs, directories, `file.c/`, `missing/../file.c`: the spelling names no regular file
                                try:
                                    got_other = form in cb
                                except Exception as e:
                                    vs.append(make_violation(f"exception:{type(e).__name__}", cj, "a boolean", f"{type(e).__name__}: {e} for {form.replace(top, '<top>')!r}"))
                                    return vs
                                res.labels["spelling-that-names-no-regular-file"] += 1
                                if got_other:
                                    vs.append(make_violation("spelling:names-no-regular-file-but-member", cj, {"spelling": form.replace(top, "<top>"), "member": False}, True))
                                    return vs
                                continue
                            rf = os.path.realpath(form)
                            if rf != real:
                                # `x/../x` is not the same file when x is a symbolic link: the operating
                                # system's reading of the spelling decides which file is asked about
                                if rf in expected:
                                    want = expected[rf]
                                elif not os.path.lexists(rf):
                                    want = False
                                else:
                                    continue
                                try:
                                    got_other = form in cb
                                except Exception as e:
                                    vs.append(make_violation(f"exception:{type(e).__name__}", cj, "a boolean", f"{type(e).__name__}: {e} for {form!r}"))
                                    return vs
                                res.labels["dotdot-after-link-spelling"] += 1
                                if got_other != want:
                                    vs.append(make_violation("spelling:dotdot-after-link", cj, {"spelling": form.replace(top, "<top>"), "resolves-to": rf.replace(top, "<top>"), "member": want}, got_other))
                                    return vs
                                continue
                            try:
                                answers[(wd == root, form)] = form in cb
                            except Exception as e:
                                vs.append(make_violation(f"exception:{type(e).__name__}", cj, "a boolean", f"{type(e).__name__}: {e} for {form!r}"))
                                return vs
                        forms = forms[:3]
                vals = set(answers.values())
                if not vals:
                    continue  # no spelling of this entry names a regular file (loop, FIFO, directory)
                if len(vals) > 1:
                    vs.append(make_violation("spelling-dependent-membership", cj, {"path": os.path.relpath(real, top), "expected": expected[real]}, sorted((str(k[1]).replace(top, "<top>"), v) for k, v in answers.items())[:10]))
                    return vs
                got = vals.pop()
                if got != expected[real]:
                    rel = os.path.relpath(real, rroot)
                    kind = "excluded-but-git-keeps" if expected[real] else ("kept-but-git-ignores" if cand[real] else "non-member-accepted")
                    sig = f"membership:{kind}|" + ",".join(feats)
                    # root-cause classifiers for the two known pathspec/git divergences
                    gd = os.path.join(top, "gitdir")
                    pats = case["patterns"]
                    negs = [q for q in pats if q.startswith("!")]
                    parents = ["/".join(rel.split("/")[:i]) for i in range(1, rel.count("/") + 1)]
                    # the two known findings are behaviour of the pathspec library; an answer that differs from what the
                    # library itself gives for this pattern list is not one of them, whatever the patterns look like
                    lib = library_ignored(pats, rel)
                    from_library = lib is not None and got == (cand[real] and not lib)
                    note = "" if from_library or lib is None else f"pathspec.GitIgnoreSpec asked directly answers ignored={lib} for this path: not one of the known library divergences"
                    if from_library and negs and parents and git_matched(gd, rroot, pats, parents):
                        # git decides directories first (an excluded directory hides everything beneath it, patterns
                        # ending in / never apply to files); pathspec matches the whole path once.
                        rest = [q for q in pats if not q.startswith("!")]
                        g2 = git_ignored(gd, rroot, rest, [rel])[rel]
                        if (real in CodeBase(root, exclude_patterns=rest)) == (cand[real] and not g2):
                            sig = SIG_REINCLUDE
                    if from_library and sig != SIG_REINCLUDE and any(q.lstrip("!").rstrip(" ").endswith("**/") for q in pats):
                        rest = [q for q in pats if not q.lstrip("!").rstrip(" ").endswith("**/")]
                        g2 = git_ignored(gd, rroot, rest, [rel])[rel]
                        if (real in CodeBase(root, exclude_patterns=rest)) == (cand[real] and not g2):
                            sig = SIG_DSTAR
                    vs.append(make_violation(sig, cj, {"path": rel, "member": expected[real], "git_ignored": ign.get(rel)}, {"member": got}, note))
                    return vs
        finally:
            os.chdir(cwd)
        # enumeration
        listed = list(cb)
        for p in listed:
            if not expected.get(os.path.realpath(p), False):
                vs.append(make_violation("iteration-yields-non-member|" + ",".join(feats), cj, "only members", os.path.relpath(p, root)))
                return vs
        want = {r for r, ok in expected.items() if ok}
        gotreal = {os.path.realpath(p) for p in listed}
        # members only reachable through a linked directory are found through that link or their real location
        if gotreal != want:
            vs.append(make_violation("iteration-misses-members|" + ",".join(feats), cj, sorted(os.path.relpath(r, rroot) for r in want), sorted(os.path.relpath(r, rroot) for r in gotreal)))
        matched = [r for r in rels if ign[r]]
        spared = [r for r in rels if not ign[r]]
        nt = bool(matched) and bool(spared) and bool(set(feats) & {"anchored", "dir-only", "**", "class", "neg"})
        if case.get("shape"):
            # the constructed shape counts when git really keeps the file ignored although a later negation matches an ancestor
            tf = case["shape"]["file"]
            tparents = ["/".join(tf.split("/")[:i]) for i in range(1, tf.count("/") + 1)]
            realized = ign.get(tf) is True and git_matched(os.path.join(top, "gitdir"), rroot, [q for q in case["patterns"] if q.startswith("!")], tparents)
            feats = feats + [f"shape={case['shape']['name']}:" + ("file-stays-ignored-under-re-included-directory" if realized else "not-realised")]
            nt = nt or bool(realized and spared)
        res.case(key=case, nontrivial=nt, sample={"files": case["files"], "links": case["links"], "patterns": case["patterns"], "ignored": matched} if nt else None, labels=feats + [f"links={len(case['links'])}"])
    return vs


def _shard(seed, n, known):
    core.setup_import_path()
    res = Result()
    core.hyp_search(case_strategy(), check_case, n, seed, res, known_sigs=known)
    return res


def run(ctx):
    n = core.NPROC
    total = ctx.pick(1600, 60000)
    res = core.merge_results(core.pool_map(_shard, [(ctx.shard_seed("rand", i), total // n, ctx.known_sigs) for i in range(n)]))
    res.exhaustive = False
    return res


def replay(case):
    core.setup_import_path()
    return check_case(case, Result())
