"""C10 - excluding files removes their lines from the counts and changes
nothing else (DESIGN.md section 2, C10)."""

import collections
import json
import os

from checks import c06
from vlib import cbcase, core, observe
from vlib.core import Result, make_violation

PROP = "C10"
RULE = (
    "random code bases whose headers (some matched by the exclude list, some in ../ext outside the root) define the "
    "macros other files test, crossed with exclude-pattern lists generated from the tree (exact paths, anchored paths, "
    "base names, *.ext, directories, **/name) matching any subset of files incl. compiled files. Oracle (metamorphic): "
    "the per-line attribution of every surviving file is identical with and without the exclusion; setmap(no exclude) "
    "minus setmap(exclude) is exactly the histogram of the removed files' lines; moving the out-of-root headers inside "
    "the root changes no attribution of the other files; `-x P` on codebasin / cbi-tree / cbi-cov gives the same output "
    "as `exclude = [P]` in the analysis file / as the in-process result. Non-trivial: a removed or out-of-root file that "
    "is preprocessed for some platform contains a #define/#undef and a surviving file has a conditional; distinct by tree+patterns."
)
ASSUMPTIONS = [
    "which files a pattern list removes is taken from CodeBase membership itself (its git semantics are C09's subject)",
    "CLI outputs are compared after parsing (row order is not part of the statement)",
]


def patterns_for(tree_files, dup_bias=False):
    """exclude lists generated from the tree.  `dup_bias` (CLI shards, where the two front-end spellings of one
    list are compared) raises the share of lists in which a pattern occurs twice."""
    from hypothesis import strategies as st

    files = sorted(f for f in tree_files if not f.startswith(".."))

    def variants(f):
        base = os.path.basename(f)
        ext = os.path.splitext(f)[1]
        d = os.path.dirname(f)
        v = [f, "/" + f, base, "*" + ext, "**/" + base, "*/", base[:1] + "*/", "./" + f, base[:1] + "*", f.replace("/", "//", 1)]
        if d:
            top = d.split("/")[0]
            v += [d + "/", top + "/", d + "/*" + ext, "/" + top + "/", "/" + d + "/", os.path.basename(d) + "/", "/" + os.path.basename(d) + "/"]
        return v

    if not files:
        return st.just([])
    # a broad pattern followed by a negation that re-includes one file: the order of the list matters
    # (the last matching pattern decides).  Only extensions that no directory name carries.
    with_ext = [f for f in files if os.path.splitext(f)[1]]
    reinclude = st.sampled_from(with_ext or files).map(lambda f: ["*" + os.path.splitext(f)[1], "!" + os.path.basename(f)]) if with_ext else st.nothing()
    plain = _plain_lists(st, files, variants)
    # a list is a sequence, not a set: the same pattern again *after* a negation overrides the negation
    # (`*.h !keep.h *.h` removes keep.h), a repeated negation re-includes again (`!keep.h *.h !keep.h` keeps it);
    # a repetition without anything in between changes nothing.  However the list is spelled - all with -x, all in the
    # analysis file, or split between the two - it is the same sequence.
    dup_plain = st.tuples(plain, st.integers(0, 2)).map(lambda t: t[0] + [t[0][t[1] % len(t[0])]])
    if with_ext:
        repeat = reinclude.map(lambda r: r + [r[0]])
        repeat_neg = reinclude.map(lambda r: [r[1], r[0], r[1]])
        mixed = st.tuples(reinclude, plain).map(lambda t: t[0] + [q for q in t[1] if q not in t[0]][:1])
        if dup_bias:
            return st.one_of(plain, plain, reinclude, mixed, repeat, repeat, repeat_neg, dup_plain)
        return st.one_of(plain, plain, plain, reinclude, mixed, repeat, repeat_neg, dup_plain)
    return st.one_of(plain, plain, plain, dup_plain) if not dup_bias else st.one_of(plain, dup_plain)


def _plain_lists(st, files, variants):
    return st.lists(st.sampled_from(files).flatmap(lambda f: st.sampled_from(variants(f))), min_size=1, max_size=3, unique=True)


def case_strategy(cli=False):
    from hypothesis import strategies as st

    from vlib import gen_cb

    @st.composite
    def case(draw):
        c = draw(gen_cb.codebases(min_platforms=1, ext_headers=True, header_bias=True))
        # a multi-pass header without include guard, included twice by a compiled file: its second
        # inclusion defines the macro the includer then tests.  It lives where it can be excluded
        # (or outside the root).
        srcs = sorted(n for n in c["tree"] if not n.endswith((".h", ".hpp")) and not n.startswith(".."))
        if srcs and draw(st.booleans()):
            where = draw(st.sampled_from(["gen", "../ext", os.path.dirname(srcs[0]) or "gen"]))
            mp = where + "/mp.h"
            c["tree"][mp] = {"items": [["chain", [["ifdef", "MP_SEL", [["undef", "MP_OUT"], ["define", "MP_OUT", "1"], ["code", 1]]]], [["define", "MP_SEL", ""], ["code", 1]]]], "style": [0]}
            host = draw(st.sampled_from(srcs))
            sp = os.path.relpath(mp, os.path.dirname(host) or ".")
            c["tree"][host]["items"] = [["include", "quote", sp], ["include", "quote", sp], ["chain", [["if", ["cmp", "MP_OUT", "==", 1], [["code", 2]]]], [["code", 1]]]] + c["tree"][host]["items"]
            for cmds in c["platforms"].values():
                if cmds and draw(st.booleans()):
                    cmds[0]["file"] = host
        # a forced include (-include) of a header that can be excluded by pattern or lives outside the root
        if srcs and draw(st.booleans()):
            fw = draw(st.sampled_from(["cfg", "../ext", "include"]))
            fh = fw + "/forced.h"
            c["tree"][fh] = {"items": [["undef", "FORCED_ON"], ["define", "FORCED_ON", "1"], ["code", 1]], "style": [0]}
            host = draw(st.sampled_from(srcs))
            c["tree"][host]["items"] = [["chain", [["ifdef", "FORCED_ON", [["code", 1]]]], [["code", 2]]]] + c["tree"][host]["items"]
            pn = draw(st.sampled_from(sorted(c["platforms"])))
            c["platforms"][pn].append({"file": host, "defines": [], "dirs": [], "forced": [fh], "compiler": "gcc"})
        # a compiled file that can be excluded and whose includes all sit inside conditional groups: it must
        # still be preprocessed, or the code-base headers it includes lose their platform
        cond_only = srcs and draw(st.integers(0, 2)) == 0
        if cond_only:
            for h in ("condinc/a.h", "condinc/b.h"):
                c["tree"][h] = {"items": [["code", 2]], "style": [0]}
            c["tree"]["gen/cond_only.c"] = {"items": [["chain", [["ifdef", "A", [["include", "quote", "../condinc/a.h"]]]], [["include", "quote", "../condinc/b.h"]]], ["code", 1]], "style": [0]}
            pn = draw(st.sampled_from(sorted(c["platforms"])))
            c["platforms"][pn].append({"file": "gen/cond_only.c", "defines": draw(st.sampled_from([[], ["A=1"]])), "dirs": [], "forced": []})
        c["excludes"] = draw(patterns_for(list(c["tree"]) + list(c.get("extra", {})), dup_bias=cli))
        if cond_only and draw(st.booleans()):
            c["excludes"] = (c["excludes"] + [draw(st.sampled_from(["gen/", "gen/cond_only.c", "cond_only.c"]))])[-3:]
        if cli and len(c["excludes"]) > 1:
            # the list split between the two spellings: the first k patterns with -x, the rest in the analysis file
            c["x_split"] = draw(st.integers(1, len(c["excludes"]) - 1))
        return c

    return case()


def attr_by_rel(hist, root):
    return {os.path.relpath(f, root): (is_link, h, a) for f, (is_link, h, a) in hist.items()}


def relocate_ext(case):
    """the same code base with the ../ext headers moved to ext_in/ inside the root"""
    def mv(p):
        return "ext_in/" + p[len("../ext/"):] if p.startswith("../ext/") else p

    c = json.loads(json.dumps(case))
    c["tree"] = {mv(k): v for k, v in c["tree"].items()}
    for f in c["tree"].values():
        _rewrite_includes(f["items"], mv)
    for cmds in c["platforms"].values():
        for cmd in cmds:
            cmd["dirs"] = [[k, mv(d) if d != "../ext" else "ext_in"] for k, d in cmd.get("dirs", [])]
            cmd["forced"] = [mv(f) for f in cmd.get("forced", [])]
            cmd["file"] = mv(cmd["file"])
    return c


def _rewrite_includes(items, mv):
    for it in items:
        if it[0] == "include" and it[1] != "macro":
            sp = it[2]
            if "ext/" in sp:
                it[2] = sp  # relative spellings are recomputed by the generator only for in-root files
        elif it[0] == "chain":
            for g in it[1]:
                _rewrite_includes(g[2], mv)
            if it[2]:
                _rewrite_includes(it[2], mv)


def check_case(case, res: Result, cli=False):
    vs = []
    with core.Scratch("c10") as top:
        root = os.path.join(top, "cb")
        os.makedirs(root)
        m = cbcase.materialise({**case, "excludes_in_file": True}, root)
        cj = {"case": case, "texts": m["texts"]}
        E = case["excludes"]
        try:
            st0, cb0, _ = cbcase.analyse(root, m["dbs"], excludes=[])
            h0, _ = cbcase.file_histograms(st0, cb0)
            stE, cbE, _ = cbcase.analyse(root, m["dbs"], excludes=E)
            hE, _ = cbcase.file_histograms(stE, cbE)
            sm0 = {k: v for k, v in st0.get_setmap(cb0).items() if v}
            smE = {k: v for k, v in stE.get_setmap(cbE).items() if v}
        except Exception as e:
            return [make_violation(f"exception:{type(e).__name__}", cj, "analysis succeeds", f"{type(e).__name__}: {e}")]
        r0, rE = attr_by_rel(h0, root), attr_by_rel(hE, root)
        if not set(rE) <= set(r0):
            vs.append(make_violation("exclusion-adds-files", cj, sorted(r0), sorted(rE)))
        for f in sorted(set(rE) & set(r0)):
            if rE[f][2] != r0[f][2]:
                diff = {str(l): [sorted(r0[f][2].get(l, [])), sorted(rE[f][2].get(l, []))] for l in set(r0[f][2]) | set(rE[f][2]) if r0[f][2].get(l) != rE[f][2].get(l)}
                vs.append(make_violation("survivor-attribution-changed", cj, {"file": f, "line -> [without, with exclusion]": diff}, "differs"))
                break
        # enumeration and membership of the excluded code base must agree on every file
        for f in sorted(r0):
            member = os.path.join(root, f) in cbE
            if member != (f in rE):
                vs.append(make_violation("iteration-disagrees-with-membership", cj, {"file": f, "member": member}, {"listed": f in rE}))
                break
        removed = sorted(set(r0) - set(rE))
        # which files go is git's decision (the documented reference, as in C09); compared where the two
        # known pathspec/git divergences of C09 cannot interfere: no links, negations only in the
        # constructed `*.ext` + `!name` form, no pattern ending in `**/`
        negs = [q for q in E if q.startswith("!")]
        if not case.get("symlinks") and not any(q.rstrip().endswith("**/") for q in E) and (not negs or (len(negs) == 1 and E[0].startswith("*.") and E[1] == negs[0])):
            from checks import c09

            inroot = sorted(f for f in r0 if not f.startswith(".."))
            if inroot:
                ign = c09.git_ignored(os.path.join(top, "gitdir"), os.path.realpath(root), list(E), inroot)
                want_removed = sorted(f for f in inroot if ign[f])
                if want_removed != removed:
                    vs.append(make_violation("excluded-set-differs-from-git", cj, {"patterns": E, "git ignores": want_removed}, {"removed": removed}))
                res.labels["excluded-set-compared-with-git"] += 1
                if negs:
                    res.labels["negation-after-broad-pattern"] += 1
        expect_diff = collections.Counter()
        for f in removed:
            if not r0[f][0]:
                expect_diff.update(r0[f][1])
        got_diff = collections.Counter(sm0)
        got_diff.subtract(smE)
        got_diff = {k: v for k, v in got_diff.items() if v}
        if got_diff != dict(expect_diff):
            vs.append(make_violation("setmap-difference-not-removed-lines", cj, sorted((sorted(k), v) for k, v in expect_diff.items()), sorted((sorted(k), v) for k, v in got_diff.items())))
        # ---- out-of-root headers: same attribution as when they live inside the root
        has_ext = any(k.startswith("../ext/") for k in case["tree"])
        if has_ext:
            with core.Scratch("c10b") as top2:
                root2 = os.path.join(top2, "cb")
                os.makedirs(root2)
                caseB = relocate_ext(case)
                # includes that spell the ext header relative to the includer change with the move: keep only -I based cases comparable
                mB = cbcase.materialise(caseB, root2)
                try:
                    stB, cbB, _ = cbcase.analyse(root2, mB["dbs"], excludes=[])
                    hB, _ = cbcase.file_histograms(stB, cbB)
                    rB = attr_by_rel(hB, root2)
                    rel_spelled = any("ext/" in json.dumps(f["items"]) for f in case["tree"].values()) or any("ext/" in t for t in (case.get("symlinks") or {}).values())
                    if not rel_spelled:
                        for f in sorted(set(r0)):
                            if f in rB and rB[f][2] != r0[f][2]:
                                vs.append(make_violation("out-of-root-header-not-processed-alike", cj, {"file": f}, "attribution differs when ../ext is moved inside the root"))
                                break
                        if any(f.startswith("..") for f in r0):
                            vs.append(make_violation("out-of-root-file-in-code-base", cj, None, [f for f in r0 if f.startswith("..")]))
                        res.labels["ext-relocation-compared"] += 1
                except Exception as e:
                    vs.append(make_violation(f"exception:{type(e).__name__}", cj, "analysis succeeds", f"{type(e).__name__}: {e}"))
        # ---- CLI: -x P == exclude = [P]
        if cli:
            xargs = [a for p in E for a in ("-x", p)]
            outs = {}
            forms = [("file", E, []), ("flag", None, xargs)]
            k = case.get("x_split")
            if k and 0 < k < len(E):
                # -x patterns come first, those of the analysis file follow: E[:k] with -x and E[k:] in the file is the list E
                forms.append(("split", E[k:], [a for p in E[:k] for a in ("-x", p)]))
                res.labels["cli-list-split-between-x-and-file"] += 1
            for tag, file_excl, args in forms:
                mm = cbcase.materialise({**case, "excludes": file_excl, "excludes_in_file": file_excl is not None}, root)
                rc, out, err = observe.run_cli("codebasin", ["-R", "summary", *args, mm["analysis"]], cwd=root)
                rc2, out2, err2 = observe.run_cli("codebasin.tree", [*args, mm["analysis"]], cwd=root)
                if rc or rc2:
                    if sum(smE.values()) == 0:
                        return []
                    vs.append(make_violation("cli:exit", cj, 0, [rc, out[-200:], err[-200:], rc2, err2[-200:]]))
                    return vs
                s = observe.parse_summary(out)
                legend, rows, bad = c06.parse_rows(out2, root)
                outs[tag] = ({k: v for k, v in s["rows"].items()}, s["total"], s["divergence"], s["coverage"], legend, rows)
            if outs["file"] != outs["flag"]:
                vs.append(make_violation("cli:-x-differs-from-analysis-file-exclude", cj, _j(outs["file"]), _j(outs["flag"])))
            elif "split" in outs and outs["split"] != outs["flag"]:
                vs.append(make_violation("cli:list-split-between-x-and-file-differs", cj, {"-x": E[:k], "analysis file": E[k:], "all with -x": _j(outs["flag"])}, _j(outs["split"])))
            got = {k: v[0] for k, v in outs["flag"][0].items()}
            if got != smE and sum(smE.values()):
                vs.append(make_violation("cli:-x-summary-differs-from-api", cj, sorted((sorted(k), v) for k, v in smE.items()), sorted((sorted(k), v) for k, v in got.items())))
            pname = sorted(case["platforms"])[0]
            covp = os.path.join(top, "cov.json")
            rc, out, err = observe.run_cli("codebasin.coverage", ["compute", "-S", root, "-o", covp, *xargs, m["dbs"][pname]], cwd=root)
            if rc == 0:
                with open(covp) as f:
                    listed = sorted(e["file"] for e in json.load(f))
                if listed != sorted(rE):
                    vs.append(make_violation("cli:cbi-cov-x-files", cj, sorted(rE), listed))
            else:
                vs.append(make_violation("cli:cbi-cov:exit", cj, 0, [rc, err[-300:]]))
            res.labels["cli"] += 1
        removed_defines = any(("define" in m["texts"].get(f, "") or "undef" in m["texts"].get(f, "")) and c06.plats_of(r0[f][1]) for f in removed)
        ext_defines = any(k.startswith("../ext/") and "define" in t for k, t in m["texts"].items())
        survivor_cond = any("#" in m["texts"].get(f, "") and "if" in m["texts"].get(f, "") for f in rE)
        nt = bool(removed) and (removed_defines or ext_defines) and survivor_cond
        if len(set(E)) < len(E):
            res.labels["pattern-repeated-in-list"] += 1
            if any(q.startswith("!") for q in E):
                res.labels["pattern-repeated-around-negation"] += 1
        res.case(key=[m["texts"], case["platforms"], E], nontrivial=nt, sample={"excludes": E, "removed": removed, "survivors": sorted(rE)} if nt else None, labels=[f"removed={min(len(removed),4)}", "ext" if has_ext else "no-ext"])
    return vs


def _j(o):
    return json.loads(json.dumps(o, default=lambda x: sorted(x) if isinstance(x, (set, frozenset)) else str(x), sort_keys=True)) if not isinstance(o, tuple) else [str(x) for x in o]


def _shard(seed, n, known, cli):
    core.setup_import_path()
    res = Result()
    core.hyp_search(case_strategy(cli=cli), lambda c, r: check_case(c, r, cli=cli), n, seed, res, known_sigs=known, shrink=not cli)
    return res


def run(ctx):
    n = core.NPROC
    napi, ncli = ctx.pick(400, 20000), ctx.pick(24, 400)
    jobs = [(ctx.shard_seed("api", i), max(1, napi // (n - 4)), ctx.known_sigs, False) for i in range(n - 4)]
    jobs += [(ctx.shard_seed("cli", i), max(1, ncli // 4), ctx.known_sigs, True) for i in range(4)]
    res = core.merge_results(core.pool_map(_shard, jobs))
    res.exhaustive = False
    return res


def replay(case):
    core.setup_import_path()
    return check_case(case["case"], Result(), cli=False)
