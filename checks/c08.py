"""C08 - translation units and platforms are analysed in isolation and
compose (DESIGN.md section 2, C08)."""

import itertools
import json
import os

from checks import c06
from vlib import cbcase, core, observe
from vlib.core import Result, make_violation  # noqa

PROP = "C08"
RULE = (
    "random code bases with shared headers that define/undefine/test macros, carry #pragma once or guards and exist under "
    "the same base name in several -I directories, with 1-4 platforms x 1-4 compile commands whose -D sets differ. The "
    "history quantified over is the sequence of translation units processed earlier in the same run. Oracle "
    "(metamorphic): (1) the lines a platform uses in the full analysis equal the union over its commands, each analysed "
    "alone in a fresh finder.find; (2) analysing any subset of platforms gives the projection of the full result "
    "(in-process and through `codebasin -p` / `cbi-tree -p`); (3) every generated permutation of commands within a "
    "database and of platforms gives the same per-line attribution. Non-trivial: two commands of one platform reach a "
    "common header with different single-command attributions, or a #pragma once header is reached from >=2 commands; "
    "distinct by tree+databases+permutation."
)
ASSUMPTIONS = [
    "the single-command analyses are produced by the same code (fresh process state per finder.find call); the relation, not an external oracle, decides",
    "config._compilers (process-wide compiler definitions) is reset by the harness before every analysis",
]


def case_strategy():
    from hypothesis import strategies as st

    from vlib import gen_cb

    @st.composite
    def case(draw):
        c = draw(gen_cb.codebases(min_platforms=1, header_bias=True, symlinks=False))
        if not any(c["platforms"].values()):
            pn = sorted(c["platforms"])[0]
            srcs = sorted(c["tree"])
            c["platforms"][pn] = [{"file": srcs[0], "defines": ["A=1"], "dirs": [], "forced": []}]
        # sprinkle #pragma once over some headers
        for name, f in c["tree"].items():
            if name.endswith((".h", ".hpp")) and draw(st.integers(0, 2)) == 0:
                f["items"] = [["once"]] + f["items"]
        # a shared header whose condition depends on a -D macro only through another macro
        if draw(st.booleans()):
            base = draw(st.sampled_from(["A", "B", "C", "D"]))
            c["tree"]["ind.h"] = {"items": [["undef", "IND"], ["define", "IND", base], ["chain", [["if", ["cmp", "IND", draw(st.sampled_from([">", "=="])), draw(st.sampled_from([0, 1, 2]))], [["code", 1]]]], [["code", 1]]], ["code", 1]], "style": [0]}
            for name, f in c["tree"].items():
                if name != "ind.h" and not name.endswith((".h", ".hpp")):
                    f["items"] = [["include", "quote", os.path.relpath("ind.h", os.path.dirname(name) or ".")]] + f["items"]
        # a "flat" configuration header (only #define lines, no guard) included first by every compiled
        # file, which then tests the macro: every translation unit must see it afresh
        if draw(st.booleans()):
            c["tree"]["flatcfg.h"] = {"items": [["define", "FLATCFG", "1"], ["undef", "FLATAUX"], ["define", "FLATAUX", "2"], ["code", 1]], "style": [0]}
            for name, f in c["tree"].items():
                if name != "flatcfg.h" and not name.endswith((".h", ".hpp")):
                    f["items"] = [["include", "quote", os.path.relpath("flatcfg.h", os.path.dirname(name) or ".")], ["chain", [["if", ["cmp", "FLATCFG", "==", 1], [["code", 1]]]], [["code", 1]]]] + f["items"]
        # the same with an include-once header: the mark must not outlive a translation unit
        if draw(st.booleans()):
            c["tree"]["oncecfg.h"] = {"items": [["once"], ["define", "ONCECFG", "1"], ["code", 1]], "style": [0]}
            for name, f in c["tree"].items():
                if name != "oncecfg.h" and not name.endswith((".h", ".hpp")):
                    f["items"] = [["include", "quote", os.path.relpath("oncecfg.h", os.path.dirname(name) or ".")], ["chain", [["if", ["cmp", "ONCECFG", "==", 1], [["code", 1]]]], [["code", 1]]]] + f["items"]
        # a configuration header outside the code base shared by a C and a free-form Fortran translation unit:
        # it is parsed in the language of its includer, and which includer comes first must not matter
        if draw(st.integers(0, 2)) == 0:
            c.setdefault("extra", {})["../ext/mixcfg.h"] = "/* optional features, move the line out of this comment to enable:\n#define MIX_X 1\n*/\n#define MIX_Y 1\n"
            c["extra"]["mixed_kernel.F90"] = '#include "../ext/mixcfg.h"\nsubroutine k()\n#ifdef MIX_X\n  integer :: i\n#endif\n#ifdef MIX_Y\n  integer :: j\n#endif\nend subroutine k\n'
            c["tree"]["mixed_main.c"] = {"items": [["include", "quote", "../ext/mixcfg.h"], ["chain", [["ifdef", "MIX_X", [["code", 1]]]], [["code", 2]]], ["code", 1]], "style": [0]}
            names = sorted(c["platforms"])
            c["platforms"][draw(st.sampled_from(names))].append({"file": "mixed_kernel.F90", "defines": [], "dirs": [], "forced": []})
            c["platforms"][draw(st.sampled_from(names))].append({"file": "mixed_main.c", "defines": [], "dirs": [], "forced": []})
        # CUDA files compiled several times with different architecture lists (passes selected per command)
        cus = sorted(n for n in c["tree"] if n.endswith(".cu"))
        if cus and draw(st.booleans()):
            for n in cus:
                c["tree"][n]["items"] = [["chain", [["if", ["and", ["defined", "__CUDA_ARCH__", True], ["cmp", "__CUDA_ARCH__", "<", 800]], [["code", 1]]], ["elif", ["defined", "__CUDA_ARCH__", True], [["code", 1]]]], [["code", 1]]]] + c["tree"][n]["items"]
            pn = draw(st.sampled_from(sorted(c["platforms"])))
            for _ in range(draw(st.integers(2, 3))):
                arch = draw(st.sampled_from([["--gpu-code=sm_80"], ["--gpu-code=sm_90"], ["--gpu-architecture=compute_75", "--gpu-code=sm_75"], ["-gencode", "arch=compute_89,code=sm_89"], []]))
                c["platforms"][pn].append({"file": draw(st.sampled_from(cus)), "defines": [], "dirs": [], "forced": [], "extra_flags": arch})
        # entries of one database are spelled differently: without `directory` (the root is the default),
        # or relative to a build directory - what an entry means must not depend on its neighbours
        if draw(st.booleans()):
            for cmds in c["platforms"].values():
                for cmd in cmds:
                    how = draw(st.sampled_from([None, "absent", "absent", "bld", "bld/sub"]))
                    if how is not None:
                        cmd["dbdir"] = how
        c["perm_seed"] = draw(st.integers(0, 10**6))
        c["subset_mask"] = draw(st.integers(1, 15))
        return c

    return case()


def attrs(root, dbs, platforms=None):
    st, cb, cfg = cbcase.analyse(root, dbs, platforms=platforms)
    h, _ = cbcase.file_histograms(st, cb)
    out = {}
    for fn in st.get_filenames():
        rel = os.path.relpath(fn, root)
        if rel.startswith(".."):
            continue  # files outside the code base contribute their macros, never lines (C10)
        a, _ = observe.attribution_of(st, fn)
        out[rel] = a
    return out, st, cb


def permute(lst, seed):
    import hashlib

    return sorted(lst, key=lambda x: hashlib.sha256((json.dumps(x, sort_keys=True) + str(seed)).encode()).hexdigest())


def first_diff(a, b):
    for f in sorted(set(a) | set(b)):
        x, y = a.get(f, {}), b.get(f, {})
        if x != y:
            lines = {str(l): [sorted(x.get(l, ["<none>"])), sorted(y.get(l, ["<none>"]))] for l in sorted(set(x) | set(y)) if x.get(l) != y.get(l)}
            return {"file": f, "line -> [left, right]": lines}
    return None


def check_case(case, res: Result, cli=False):
    vs = []
    with core.Scratch("c08") as top:
        root = os.path.join(top, "cb")
        os.makedirs(root)
        m = cbcase.materialise(case, root)
        cj = {"case": case, "texts": m["texts"]}
        try:
            full, st, cb = attrs(root, m["dbs"])
            # (1) union of single-command analyses
            union = {f: {l: set() for l in a} for f, a in full.items()}
            single_by_cmd = {}
            for pname, cmds in case["platforms"].items():
                for i, cmd in enumerate(cmds):
                    dbp = os.path.join(top, f"single-{pname}-{i}.json")
                    with open(dbp, "w") as fh:
                        json.dump([cbcase.db_entry(cmd, root)], fh)
                    one, _, _ = attrs(root, {pname: dbp})
                    single_by_cmd[(pname, i)] = one
                    for f, a in one.items():
                        tgt = union.setdefault(f, {})
                        for l, ps in a.items():
                            tgt.setdefault(l, set()).update(ps)
            union = {f: {l: frozenset(s) for l, s in a.items()} for f, a in union.items()}
            common = {f: a for f, a in full.items()}
            d = first_diff({f: a for f, a in common.items()}, {f: union.get(f, {}) for f in common})
            if d:
                vs.append(make_violation("full-analysis-differs-from-union-of-single-commands", cj, d, "left=full analysis, right=union of fresh single-command analyses"))
            # (2) projection
            names = sorted(case["platforms"])
            subset = [n for i, n in enumerate(names) if (case["subset_mask"] >> i) & 1] or names[:1]
            sub, _, _ = attrs(root, m["dbs"], platforms=subset)
            proj = {f: {l: ps & frozenset(subset) for l, ps in a.items()} for f, a in full.items()}
            d = first_diff({f: proj[f] for f in proj if f in sub}, {f: sub[f] for f in proj if f in sub})
            if d:
                vs.append(make_violation("subset-analysis-differs-from-projection", cj, {**d, "subset": subset}, "left=projection of full, right=analysis of subset"))
            # (3) permutation of commands and platforms
            pcase = json.loads(json.dumps(case))
            pcase["platforms"] = {p: permute(cs, case["perm_seed"]) for p, cs in case["platforms"].items()}
            pcase["platform_order"] = permute(names, case["perm_seed"])
            root2 = os.path.join(top, "cb2")
            os.makedirs(root2)
            m2 = cbcase.materialise(pcase, root2)
            dbs2 = {p: m2["dbs"][p] for p in pcase["platform_order"]}
            perm, _, _ = attrs(root2, dbs2)
            d = first_diff(full, perm)
            if d:
                vs.append(make_violation("permutation-changes-attribution", cj, d, "left=original order, right=permuted commands/platforms"))
        except Exception as e:
            return [make_violation(f"exception:{type(e).__name__}", cj, "analysis succeeds", f"{type(e).__name__}: {e}")]
        if cli and len(names) >= 2:
            setmap_sub = {}
            st_sub, cb_sub, _ = cbcase.analyse(root, m["dbs"], platforms=subset)
            setmap_sub = {k: v for k, v in st_sub.get_setmap(cb_sub).items() if v}
            # expected from the projection of the full result
            stf, cbf, _ = cbcase.analyse(root, m["dbs"])
            hf, _ = cbcase.file_histograms(stf, cbf)
            import collections

            exp = collections.Counter()
            for f, (is_link, h, a) in hf.items():
                if not is_link:
                    for l, ps in a.items():
                        exp[ps & frozenset(subset)] += 1
            pargs = [x for p in subset for x in ("-p", p)]
            rc, out, err = observe.run_cli("codebasin", ["-R", "summary", *pargs, m["analysis"]], cwd=root)
            if rc == 0 and sum(exp.values()):
                got = {k: v[0] for k, v in observe.parse_summary(out)["rows"].items()}
                if got != dict(exp):
                    vs.append(make_violation("cli:codebasin-p-not-projection", cj, sorted((sorted(k), v) for k, v in exp.items()), sorted((sorted(k), v) for k, v in got.items())))
            elif rc:
                vs.append(make_violation("cli:exit", cj, 0, [rc, err[-300:], out[-300:]]))
            rc, out, err = observe.run_cli("codebasin.tree", [*pargs, m["analysis"]], cwd=root)
            if rc == 0:
                hsub, _ = cbcase.file_histograms(st_sub, cb_sub)
                vs += c06.compare_tree("cli-p", out, root, hsub, False, None, cj)
            res.labels["cli-p"] += 1
        # non-trivial?
        nt = False
        for pname, cmds in case["platforms"].items():
            for i, j in itertools.combinations(range(len(cmds)), 2):
                a, b = single_by_cmd[(pname, i)], single_by_cmd[(pname, j)]
                for f in set(a) & set(b):
                    if f.endswith((".h", ".hpp")) and a[f] != b[f] and any(a[f].values()) and any(b[f].values()):
                        nt = True
        once_multi = any("pragma once" in t for f, t in m["texts"].items()) and sum(len(c) for c in case["platforms"].values()) >= 2
        nt = nt or once_multi
        res.case(key=[m["texts"], case["platforms"], case["perm_seed"], case["subset_mask"]], nontrivial=nt, sample={"platforms": {p: [cbcase.argv_for(c) for c in cs] for p, cs in case["platforms"].items()}, "subset": subset} if nt else None, labels=[f"commands={min(sum(len(c) for c in case['platforms'].values()),8)}", f"platforms={len(names)}"])
    return vs


# ---------------------------------------------------------------- stateful layer: the history is built step by step


def _stateful_shard(seed, n, known, steps):
    """Hypothesis rule-based machine: the code base is drawn once, rules append a
    compile command to a platform / move a command to the front / drop a platform;
    after every step the full analysis must equal the union of fresh
    single-command analyses (cached per command).  A failing history shrinks as
    one value."""
    core.setup_import_path()
    import hypothesis
    from hypothesis import settings, strategies as st
    from hypothesis.stateful import RuleBasedStateMachine, initialize, invariant, precondition, rule, run_state_machine_as_test

    from vlib import gen_cb, gen_pp

    res = Result()
    found = {}

    class History(RuleBasedStateMachine):
        def __init__(self):
            super().__init__()
            self.scratch = core.Scratch("c08s")
            self.top = self.scratch.__enter__()
            self.root = os.path.join(self.top, "cb")
            os.makedirs(self.root)
            self.case = None
            self.single = {}
            self.nsteps = 0

        @initialize(base=gen_cb.codebases(min_platforms=1, max_platforms=2, header_bias=True, symlinks=False, max_files=6))
        def start(self, base):
            base["platforms"] = {p: [] for p in base["platforms"]}
            self.case = base
            self.srcs = sorted(n for n in base["tree"] if not n.endswith((".h", ".hpp"))) or sorted(base["tree"])
            self.hdirs = sorted({os.path.dirname(h) or "." for h in base["tree"] if h.endswith((".h", ".hpp"))})

        @rule(data=st.data())
        def add_command(self, data):
            p = data.draw(st.sampled_from(sorted(self.case["platforms"])))
            cmd = {"file": data.draw(st.sampled_from(self.srcs)), "defines": data.draw(gen_pp.define_sets()), "dirs": [["I", d] for d in data.draw(st.lists(st.sampled_from(self.hdirs), max_size=2, unique=True))] if self.hdirs else [], "forced": []}
            self.case["platforms"][p].append(cmd)
            self.nsteps += 1

        @precondition(lambda self: self.case and any(len(c) >= 2 for c in self.case["platforms"].values()))
        @rule(data=st.data())
        def move_to_front(self, data):
            p = data.draw(st.sampled_from(sorted(k for k, c in self.case["platforms"].items() if len(c) >= 2)))
            cmds = self.case["platforms"][p]
            i = data.draw(st.integers(1, len(cmds) - 1))
            cmds.insert(0, cmds.pop(i))
            self.nsteps += 1

        @precondition(lambda self: self.case and len(self.case["platforms"]) >= 2)
        @rule(data=st.data())
        def drop_platform(self, data):
            p = data.draw(st.sampled_from(sorted(self.case["platforms"])))
            del self.case["platforms"][p]
            self.nsteps += 1

        @invariant()
        def composes(self):
            if not self.case or not any(self.case["platforms"].values()):
                return
            m = cbcase.materialise(self.case, self.root)
            full, _, _ = attrs(self.root, m["dbs"])
            union = {f: {l: set() for l in a} for f, a in full.items()}
            for pname, cmds in self.case["platforms"].items():
                for cmd in cmds:
                    key = json.dumps([pname, cmd], sort_keys=True)
                    if key not in self.single:
                        dbp = os.path.join(self.top, f"one-{len(self.single)}.json")
                        with open(dbp, "w") as fh:
                            json.dump([{"directory": self.root, "file": cmd["file"], "arguments": cbcase.argv_for(cmd)}], fh)
                        self.single[key], _, _ = attrs(self.root, {pname: dbp})
                    for f, a in self.single[key].items():
                        for l, ps in a.items():
                            union.setdefault(f, {}).setdefault(l, set()).update(ps)
            union = {f: {l: frozenset(s) for l, s in a.items()} for f, a in union.items()}
            d = first_diff(full, {f: union.get(f, {}) for f in full})
            ncmd = sum(len(c) for c in self.case["platforms"].values())
            res.case(key=[m["texts"], self.case["platforms"]], nontrivial=ncmd >= 2, sample={"history_length": self.nsteps, "platforms": {p: [cbcase.argv_for(c) for c in cs] for p, cs in self.case["platforms"].items()}} if ncmd >= 3 else None, labels=[f"stateful:commands={min(ncmd,8)}"])
            if d:
                sig = "stateful:full-analysis-differs-from-union-of-single-commands"
                if sig in known:
                    res.suppressed[sig] += 1
                    return
                found[sig] = make_violation(sig, {"case": self.case, "texts": m["texts"]}, d, "left=full analysis after this history, right=union of fresh single-command analyses")
                raise AssertionError(sig)

        def teardown(self):
            self.scratch.__exit__(None, None, None)

    try:
        run_state_machine_as_test(
            hypothesis.seed(seed)(History),
            settings=settings(max_examples=n, stateful_step_count=steps, deadline=None, database=None, report_multiple_bugs=False, suppress_health_check=list(hypothesis.HealthCheck), print_blob=False),
        )
    except AssertionError:
        for v in found.values():
            res.violation(**v)
    except hypothesis.errors.HypothesisException as e:
        raise core.HarnessError(f"hypothesis: {type(e).__name__}: {e}")
    return res


def _shard(seed, n, known, cli):
    core.setup_import_path()
    res = Result()
    core.hyp_search(case_strategy(), lambda c, r: check_case(c, r, cli=cli), n, seed, res, known_sigs=known, shrink=not cli)
    return res


def _dispatch(job):
    fn, a = job
    return fn(*a)


def run(ctx):
    n = core.NPROC
    napi, ncli = ctx.pick(300, 10000), ctx.pick(16, 500)
    jobs = [(_shard, (ctx.shard_seed("api", i), max(1, napi // (n - 8)), ctx.known_sigs, False)) for i in range(n - 8)]
    jobs += [(_shard, (ctx.shard_seed("cli", i), max(1, ncli // 4), ctx.known_sigs, True)) for i in range(4)]
    jobs += [(_stateful_shard, (ctx.shard_seed("stateful", i), ctx.pick(6, 200), ctx.known_sigs, ctx.pick(8, 30))) for i in range(4)]
    res = core.merge_results(core.pool_map(_dispatch, [(j,) for j in jobs]))
    res.exhaustive = False
    return res


def replay(case):
    core.setup_import_path()
    return check_case(case["case"], Result(), cli=False)
