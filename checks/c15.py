"""C15 - each physical file is parsed and counted once, however it is reached
(DESIGN.md section 2, C15)."""

import collections
import json
import os

from checks import c06
from vlib import cbcase, core, observe
from vlib.core import Result, make_violation

PROP = "C15"
RULE = (
    "a canonical code base (C/C++ files, headers incl. #pragma once headers that can observe a second inclusion) plus an "
    "alias decoration: file symlinks, directory symlinks (inside the root, and one pointing outside), `./` and `d/../d` "
    "segments; compile commands, -I options and include directives refer to files through randomly chosen aliases, and "
    "observer headers are included twice through two spellings. Oracle (metamorphic): the same code base with every "
    "alias replaced by the canonical path and the links removed - per-line attribution keyed by (real file, line) and "
    "get_setmap must be identical, links add nothing to any total, links whose target is outside the root are not "
    "members, cbi-tree shows links as `name -> target` without adding them to directory sums, cbi-cov entries reached "
    "through a link carry the target's lines; the decorated code base is analysed once more through a symbolic link to its root directory. Constructed scenario (half of the cases): two include directives evaluated from one directory (in one file or in two files of one platform, quote form or angle form through -I) spelled `du.h` and `ext/../du.h`, where `ext` links to a directory elsewhere, so that they name two different files (or the plain one names nothing); the twin spells the far file canonically. Non-trivial: some file is reached through >=2 different spellings in one "
    "run, one of them through a directory link; distinct by tree+decoration."
)
ASSUMPTIONS = [
    "compilers are deliberately not the oracle (they resolve quote includes relative to the path as spelled); the canonical twin is, as the statement says",
]


DETOUR_DIR = "dt/a"  # the directory of the including file(s) of the constructed `<dirlink>/..` scenario


def detours():
    """Constructed scenario: two include directives evaluated from the same directory (one file, or two files
    compiled for one platform) whose spellings differ only by a `<dirlink>/..` detour.  The link points to a
    directory whose parent is not the link's parent, so the operating system resolves the two spellings to two
    DIFFERENT places (`..` after a link is the parent of the link's target); textually they normalise to the same
    name.  The twin spells the far file canonically and has no link."""
    from hypothesis import strategies as st

    return st.fixed_dictionaries(
        {
            "far": st.sampled_from(["dt/b", "dt/b/c", "dtb", "dt/a/in", "dt"]),  # where `ext/..` really is
            "form": st.sampled_from(["quote", "angle"]),  # angle: found through -I <the includer's directory>
            "near_spelling": st.sampled_from(["du.h", "./du.h"]),
            "far_spelling": st.sampled_from(["ext/../du.h", "./ext/../du.h", "ext/./../du.h"]),  # no `//`: inside <...> the tree under test takes it for a comment (a separate matter, not C15's)
            "near_exists": st.booleans(),  # False: the plain spelling names nothing (a memoised failure must not hide the other)
            "far_first": st.booleans(),
            "split": st.booleans(),  # the two directives sit in two files compiled by two commands of one platform
            "ext": st.sampled_from([".c", ".cpp"]),
            "lines": st.tuples(st.integers(1, 3), st.integers(1, 3)),
        }
    )


def add_detour(c, pname):
    """adds the files, marked include items and compile commands of c["detour"] to the case (in place)"""
    dt = c["detour"]
    A, B = DETOUR_DIR, dt["far"]

    def hdr(n):
        return {"items": [["code", n]], "style": [0]}

    c["tree"][B + "/sub/in.h"] = hdr(1)  # makes the link's target directory exist
    c["tree"][B + "/du.h"] = hdr(dt["lines"][1])
    if dt["near_exists"]:
        c["tree"][A + "/du.h"] = hdr(dt["lines"][0])
    # ["include", form, canonical spelling, "DETOUR", decorated spelling]
    near = ["include", dt["form"], "du.h", "DETOUR", dt["near_spelling"]]
    far = ["include", dt["form"], os.path.relpath(B + "/du.h", A), "DETOUR", dt["far_spelling"]]
    incs = [far, near] if dt["far_first"] else [near, far]
    if dt["split"]:
        hosts = {f"{A}/dtm{i}{dt['ext']}": [inc, ["code", 1]] for i, inc in enumerate(incs)}
    else:
        hosts = {f"{A}/dtm0{dt['ext']}": [incs[0], ["code", 1], incs[1], ["code", 1]]}
    for h, items in hosts.items():
        c["tree"][h] = {"items": items, "style": [0]}
        c["platforms"][pname].append({"file": h, "defines": [], "dirs": [["I", A]] if dt["form"] == "angle" else [], "forced": []})


def case_strategy():
    from hypothesis import strategies as st

    from vlib import gen_cb

    @st.composite
    def case(draw):
        c = draw(gen_cb.codebases(min_platforms=1, header_bias=True, symlinks=False, max_files=8))
        c["extra"] = {k: v for k, v in c.get("extra", {}).items() if not k.endswith((".f90", ".S"))}
        c["tree"] = {k: v for k, v in c["tree"].items()}
        if not c["tree"]:
            c["tree"]["main.c"] = {"items": [["code", 2]], "style": [0]}
        names = sorted(c["tree"])
        headers = [n for n in names if n.endswith((".h", ".hpp"))]
        srcs = [n for n in names if not n.endswith((".h", ".hpp"))] or names
        for cmds in c["platforms"].values():
            for cmd in list(cmds):
                if cmd["file"] not in c["tree"]:
                    cmd["file"] = draw(st.sampled_from(srcs))
        if not any(c["platforms"].values()):
            c["platforms"][sorted(c["platforms"])[0]] = [{"file": srcs[0], "defines": [], "dirs": [], "forced": []}]
        # an observer header: #pragma once + "seen before" macro; included twice by a compiled file
        obs_dir = draw(st.sampled_from(sorted({os.path.dirname(n) for n in names})))
        obs = (obs_dir + "/" if obs_dir else "") + "obs.h"
        c["tree"][obs] = {"items": [["once"], ["chain", [["ifndef", "OBS_SEEN", [["define", "OBS_SEEN", ""], ["code", 1]]]], [["code", 2]]]], "style": [0]}
        host = draw(st.sampled_from(srcs))
        hdir = os.path.dirname(host)
        sp = os.path.relpath(obs, hdir or ".")
        c["tree"][host]["items"] = [["include", "quote", sp], ["code", 1], ["include", "quote", sp, "ALIAS"]] + c["tree"][host]["items"]
        # decoration choices
        dirs = sorted({os.path.dirname(n) for n in c["tree"] if os.path.dirname(n)})
        dlinks = {}
        for j in range(draw(st.integers(0, 2))):
            if not dirs:
                break
            tgt = draw(st.sampled_from(dirs))
            where = draw(st.sampled_from([""] + dirs))
            name = (where + "/" if where else "") + f"ld{j}"
            if name.startswith(tgt + "/") or name == tgt:
                continue  # a link inside its own target would make a loop
            dlinks[name] = tgt
        flinks = {}
        for j in range(draw(st.integers(0, 2))):
            tgt = draw(st.sampled_from(sorted(c["tree"])))
            where = draw(st.sampled_from([""] + dirs))
            flinks[(where + "/" if where else "") + f"lf{j}{os.path.splitext(tgt)[1]}"] = tgt
        c["dlinks"], c["flinks"] = dlinks, flinks
        c["outside_link"] = draw(st.booleans())
        c["alias_choices"] = draw(st.lists(st.integers(0, 7), min_size=8, max_size=8))
        c["detour"] = draw(st.none() | detours())
        if c["detour"]:
            add_detour(c, draw(st.sampled_from(sorted(c["platforms"]))))
        return c

    return case()


def aliases_of(path, dlinks, flinks):
    """all spellings (relative to the root) of an in-root file, including file links
    that are themselves reached through a directory link"""
    base = [path] + [ln for ln, tgt in flinks.items() if tgt == path]
    out = list(base)
    for b in base:
        for ln, tgt in dlinks.items():
            if b.startswith(tgt + "/"):
                out.append(ln + b[len(tgt):])
    for b in list(out):
        d = os.path.dirname(b)
        out.append("./" + b)
        if d in dlinks:
            # `..` after a link to a directory is the parent of the link's target (the operating system
            # resolves the link first), so the way back goes through the target's own name
            out.append(d + "/../" + os.path.basename(dlinks[d]) + "/" + os.path.basename(b))
        elif d:
            out.append(d + "/../" + os.path.basename(d) + "/" + os.path.basename(b))
    return out


def dir_aliases(d, dlinks):
    out = [d, "./" + d if d != "." else "."]
    for ln, tgt in dlinks.items():
        if d == tgt:
            out.append(ln)
        elif d.startswith(tgt + "/"):
            out.append(ln + d[len(tgt):])
    return out


def decorate(case):
    """-> (decorated case, twin case).  Both render the same files; only the
    spellings of paths and the presence of links differ."""
    ch = list(case["alias_choices"])
    k = [0]

    def pick(options):
        v = ch[k[0] % len(ch)]
        k[0] += 1
        return options[v % len(options)]

    dlinks, flinks = case["dlinks"], case["flinks"]
    deco = json.loads(json.dumps({kk: v for kk, v in case.items()}))
    twin = json.loads(json.dumps({kk: v for kk, v in case.items()}))
    for c in (deco, twin):
        for f in c["tree"].values():
            _strip_alias_marks(f["items"], None)
    # include directives marked ALIAS: decorated spelling goes through a directory link if one reaches the header
    for fname, f in case["tree"].items():
        hdir = os.path.dirname(fname)
        for idx, it in enumerate(f["items"]):
            if it[0] == "include" and len(it) > 3 and it[3] == "ALIAS":
                target = os.path.normpath(os.path.join(hdir, it[2]))
                al = [a for a in aliases_of(target, dlinks, {}) if a != target]
                spell = os.path.relpath(pick(al), hdir or ".") if al else it[2]
                if not spell.startswith("."):
                    spell = spell  # plain relative path
                deco["tree"][fname]["items"][idx] = ["include", "quote", spell]
                twin["tree"][fname]["items"][idx] = ["include", "quote", it[2]]
            elif it[0] == "include" and len(it) > 4 and it[3] == "DETOUR":
                deco["tree"][fname]["items"][idx] = ["include", it[1], it[4]]
                twin["tree"][fname]["items"][idx] = ["include", it[1], it[2]]
    for pname, cmds in case["platforms"].items():
        for i, cmd in enumerate(cmds):
            deco["platforms"][pname][i]["file"] = pick(aliases_of(cmd["file"], dlinks, flinks))
            deco["platforms"][pname][i]["dirs"] = [[kd, pick(dir_aliases(d, dlinks))] for kd, d in cmd.get("dirs", [])]
    links = {}
    for ln, tgt in dlinks.items():
        links[ln] = os.path.relpath(tgt, os.path.dirname(ln) or ".")
    for ln, tgt in flinks.items():
        links[ln] = os.path.relpath(tgt, os.path.dirname(ln) or ".")
    if case.get("detour"):
        links[DETOUR_DIR + "/ext"] = os.path.relpath(case["detour"]["far"] + "/sub", DETOUR_DIR)
    if case["outside_link"]:
        links["lout.h"] = "../outside/real.h"
        deco.setdefault("extra", {})["../outside/real.h"] = "int outside;\n"
        twin.setdefault("extra", {})["../outside/real.h"] = "int outside;\n"
    deco["symlinks"] = links
    twin["symlinks"] = {}
    return deco, twin


def _strip_alias_marks(items, _):
    for it in items:
        if it[0] == "include" and len(it) > 3:
            del it[3:]
        elif it[0] == "chain":
            for g in it[1]:
                _strip_alias_marks(g[2], None)
            if it[2]:
                _strip_alias_marks(it[2], None)


def observe_case(c, root):
    m = cbcase.materialise(c, root)
    st, cb, cfg = cbcase.analyse(root, m["dbs"])
    attr = {}
    for fn in st.get_filenames():
        a, problems = observe.attribution_of(st, fn)
        attr[os.path.relpath(os.path.realpath(fn), root)] = (a, problems)
    members = sorted(os.path.relpath(f, root) for f in cb)
    setmap = {k: v for k, v in st.get_setmap(cb).items() if v}
    hist, _ = cbcase.file_histograms(st, cb)
    return m, st, cb, attr, members, setmap, hist


def check_case(case, res: Result, cli=False):
    vs = []
    deco, twin = decorate(case)
    with core.Scratch("c15") as top:
        rootD, rootT = os.path.join(top, "d", "cb"), os.path.join(top, "t", "cb")
        os.makedirs(rootD)
        os.makedirs(rootT)
        cj = {"case": case, "decorated_platforms": deco["platforms"], "links": deco["symlinks"]}
        try:
            mD, stD, cbD, aD, memD, smD, histD = observe_case(deco, rootD)
            mT, stT, cbT, aT, memT, smT, histT = observe_case(twin, rootT)
        except Exception as e:
            return [make_violation(f"exception:{type(e).__name__}", cj, "analysis succeeds", f"{type(e).__name__}: {e}")]
        cj["texts"] = mD["texts"]
        # (1) attribution keyed by (real file, line)
        for f in sorted(set(aT) | set(aD)):
            if f.startswith(".."):
                continue
            x = aT.get(f, ({}, []))[0]
            y = aD.get(f, ({}, []))[0]
            if x != y:
                diff = {str(l): [sorted(x.get(l, ["<none>"])), sorted(y.get(l, ["<none>"]))] for l in sorted(set(x) | set(y)) if x.get(l) != y.get(l)}
                vs.append(make_violation("attribution-differs-from-canonical-twin", cj, {"file": f, "line -> [canonical, aliased]": diff}, "differs"))
                break
        # (2) totals
        if smD != smT:
            vs.append(make_violation("setmap-differs-from-canonical-twin", cj, sorted((sorted(k), v) for k, v in smT.items()), sorted((sorted(k), v) for k, v in smD.items())))
        # (3) membership: real files identical; listed links point into the code base; outside link not a member
        realD = sorted({os.path.relpath(os.path.realpath(os.path.join(rootD, f)), rootD) for f in memD})
        if realD != memT:
            vs.append(make_violation("members-differ-from-canonical-twin", cj, memT, realD))
        if "lout.h" in memD:
            vs.append(make_violation("link-to-outside-is-member", cj, "lout.h is not part of the code base", memD))
        # (5) the whole code base reached through a link to its root directory (a work-area link)
        rootL = os.path.join(top, "work")
        os.symlink(os.path.join("d", "cb"), rootL)
        try:
            mL = cbcase.materialise(deco, rootL)
            stL, cbL, _ = cbcase.analyse(rootL, mL["dbs"])
            aL = {}
            for fn in stL.get_filenames():
                aL[os.path.relpath(os.path.realpath(fn), rootD)] = observe.attribution_of(stL, fn)[0]
            smL = {k: v for k, v in stL.get_setmap(cbL).items() if v}
            memL = sorted({os.path.relpath(os.path.realpath(f), rootD) for f in cbL})
        except Exception as e:
            vs.append(make_violation(f"linked-root:exception:{type(e).__name__}", cj, "analysis succeeds", f"{type(e).__name__}: {e}"))
            return vs
        if memL != memT:
            vs.append(make_violation("linked-root:members-differ-from-canonical-twin", cj, memT, memL))
        elif smL != smT:
            vs.append(make_violation("linked-root:setmap-differs-from-canonical-twin", cj, sorted((sorted(k), v) for k, v in smT.items()), sorted((sorted(k), v) for k, v in smL.items())))
        else:
            for f in sorted(set(aT) | set(aL)):
                if f.startswith(".."):
                    continue
                x, y = aT.get(f, ({}, []))[0], aL.get(f, {})
                if x != y:
                    vs.append(make_violation("linked-root:attribution-differs-from-canonical-twin", cj, {"file": f}, "differs"))
                    break
        # (4) tree view: link rows show their target and add nothing to directory sums
        if cli:
            rc, out, err = observe.run_cli("codebasin.tree", [mD["analysis"]], cwd=rootD)
            if rc != 0:
                vs.append(make_violation("cli:cbi-tree:exit", cj, 0, [rc, err[-300:]]))
            else:
                vs += c06.compare_tree("cli-links", out, rootD, histD, False, None, cj)
                legend, rows, bad = c06.parse_rows(out, rootD)
                rootrow = rows.get("")
                tot = sum(smT.values())
                if rootrow and rootrow["sloc"] != c06.human(tot):
                    vs.append(make_violation("cli:tree-root-total-differs-from-canonical", cj, c06.human(tot), rootrow["sloc"]))
            pname = sorted(case["platforms"])[0]
            covp = os.path.join(top, "cov.json")
            rc, out, err = observe.run_cli("codebasin.coverage", ["compute", "-S", rootD, "-o", covp, mD["dbs"][pname]], cwd=rootD)
            if rc == 0:
                with open(covp) as f:
                    cov = {e["file"]: e for e in json.load(f)}
                st1, cb1, _ = cbcase.analyse(rootT, {pname: mT["dbs"][pname]})
                h1, _ = cbcase.file_histograms(st1, cb1)
                exp = {os.path.relpath(f, rootT): sorted(l for l, ps in a.items() if ps) for f, (_, h, a) in h1.items()}
                for rel, e in cov.items():
                    real = os.path.relpath(os.path.realpath(os.path.join(rootD, rel)), rootD)
                    if real in exp and sorted(e["used_lines"]) != exp[real]:
                        vs.append(make_violation("cli:cbi-cov-entry-differs-from-canonical-target", cj, {real: exp[real]}, {rel: sorted(e["used_lines"])}))
                        break
            else:
                vs.append(make_violation("cli:cbi-cov:exit", cj, 0, [rc, err[-300:]]))
            res.labels["cli"] += 1
        via_dirlink = any(any(seg in f for seg in deco["symlinks"] if seg.split("/")[-1].startswith("ld")) for cmds in deco["platforms"].values() for c in cmds for f in [c["file"]] + [d for _, d in c["dirs"]]) or any(
            any(ln.split("/")[-1] in t for ln in case["dlinks"]) for t in mD["texts"].values()
        )
        dt = case.get("detour")
        nt = (bool(case["dlinks"]) and via_dirlink) or bool(dt)
        res.case(key=[mD["texts"], deco["platforms"], deco["symlinks"]], nontrivial=nt, sample={"links": deco["symlinks"], "platforms": {p: [cbcase.argv_for(c) for c in cs] for p, cs in deco["platforms"].items()}, "includes": sorted({ln.strip() for t in mD["texts"].values() for ln in t.splitlines() if "include" in ln})[:8]} if nt else None, labels=[f"dlinks={len(case['dlinks'])}", f"flinks={len(case['flinks'])}", "outside-link" if case["outside_link"] else "no-outside-link", f"detour={dt['form']},{'split' if dt['split'] else 'one-file'},{'near-exists' if dt['near_exists'] else 'near-missing'}" if dt else "no-detour"])
    return vs


def _shard(seed, n, known, cli):
    core.setup_import_path()
    res = Result()
    core.hyp_search(case_strategy(), lambda c, r: check_case(c, r, cli=cli), n, seed, res, known_sigs=known, shrink=not cli)
    return res


def run(ctx):
    n = core.NPROC
    napi, ncli = ctx.pick(400, 20000), ctx.pick(12, 300)
    jobs = [(ctx.shard_seed("api", i), max(1, napi // (n - 4)), ctx.known_sigs, False) for i in range(n - 4)]
    jobs += [(ctx.shard_seed("cli", i), max(1, ncli // 4), ctx.known_sigs, True) for i in range(4)]
    res = core.merge_results(core.pool_map(_shard, jobs))
    res.exhaustive = False
    return res


def replay(case):
    core.setup_import_path()
    return check_case(case["case"], Result(), cli=False)
