"""C03 - macro definition and expansion conform to the C standard
(DESIGN.md section 2, C03)."""

import json
import os
import re
import signal
import subprocess

from vlib import core
from vlib.core import Result, make_violation

PROP = "C03"
RULE = (
    "macro tables of <=5 macros over a small name pool (so nested, mutual and self reference are frequent): object-like or "
    "function-like with 0-3 parameters, optionally variadic (`...` and GNU `args...`); bodies from a token grammar "
    "(parameters, other macro names, itself, unknown identifiers, numbers, operators that lex identically in C and in "
    "CBI, #param, a##b chains, __VA_ARGS__, calls to other macros); invocation lines with 0..n arguments (empty, nested "
    "parentheses, nested calls, commas in parentheses), function-like names without parentheses, results that name a "
    "function-like macro taking its arguments from the following source tokens, trailing tokens. Oracle: gcc -E on the "
    "same table and line (differential), its output re-tokenised by a reference pp-tokeniser and compared token by token "
    "(white space significant only inside string literals); a case is in the domain only if gcc AND clang accept it "
    "silently and agree. Observed through MacroExpander.expand, through the truth of `#if (INV)` where gcc accepts it, "
    "through computed #include, and with the table given as -D options; every expansion runs under a watchdog "
    "(termination). Non-trivial: a function-like macro with >=1 argument and one of ##, #, nested call in an argument, "
    "self/mutual reference, empty argument, variadic tail, arguments taken from following tokens; distinct by table+line."
)
ASSUMPTIONS = [
    "gcc 12 and clang 14 agreeing silently defines the conforming expansion (orders the standard leaves unspecified are thereby excluded)",
    "tokens are written with separating blanks so that C's longer punctuators cannot form accidentally",
    "a variadic parameter is never an operand of ## (comma pasting is a GNU extension), unknown identifiers avoid the string-literal prefixes u/U/L, and the #if-truth observation excludes shifts (undefined for the counts expansions produce)",
    "the termination check uses a generous wall-clock bound (20 s for a one-line expansion, retried once with 10x the bound)",
]

NAMES = ["F", "G", "H", "X", "Y", "None"]  # None: a name that means something to the implementation language
PARAMS = ["a", "b", "c"]
OPS = ["+", "-", "*", "<", ">", "<<", ">>", "==", "!=", "&&", "||", "!", "~"]

NOT_IN_GRAMMAR = {"++", "--", "->", "+=", "-=", "*=", "/=", "%=", "&=", "^=", "|=", "<<=", ">>=", "..."}

# ---------------------------------------------------------------- reference pp-tokeniser

PUNCT = ["...", "<<=", ">>=", "<<", ">>", "<=", ">=", "==", "!=", "&&", "||", "##", "->", "++", "--", "+=", "-=", "*=", "/=", "%=", "&=", "^=", "|=",
         "+", "-", "*", "/", "%", "<", ">", "=", "!", "~", "&", "|", "^", "?", ":", ";", ",", ".", "(", ")", "[", "]", "{", "}", "#"]
TOK = re.compile(
    r'\s*(?:(?P<str>"(?:[^"\\\n]|\\.)*")|(?P<chr>(?:[LuU](?=\'))?\'(?:[^\'\\\n]|\\.)*\')|(?P<num>\.?[0-9](?:[eEpP][+-]|[0-9A-Za-z_.])*)|(?P<id>[A-Za-z_][A-Za-z0-9_]*)|(?P<p>'
    + "|".join(re.escape(p) for p in PUNCT)
    + r")|(?P<other>\S))"
)


def pp_tokens(text):
    out = []
    pos = 0
    text = text.strip()
    while pos < len(text):
        m = TOK.match(text, pos)
        if not m:
            break
        out.append(m.group(m.lastgroup))
        pos = m.end()
    return out


# ---------------------------------------------------------------- rendering


def define_line(m):
    head = m["name"]
    if m["params"] is not None:
        ps = list(m["params"])
        if m["variadic"] == "...":
            ps.append("...")
        elif m["variadic"]:
            ps.append(m["variadic"])
        head += "(" + ",".join(ps) + ")"
    return f"#define {head} " + " ".join(m["body"])


def dash_d(m):
    head = m["name"]
    if m["params"] is not None:
        ps = list(m["params"])
        if m["variadic"] == "...":
            ps.append("...")
        elif m["variadic"]:
            ps.append(m["variadic"])
        head += "(" + ",".join(ps) + ")"
    body = " ".join(m["body"])
    return head + "=" + body


def line_text(inv):
    return " ".join(inv)


# ---------------------------------------------------------------- oracles


def cc_expand_batch(cases, tool, workdir):
    """cases: list of (table, inv).  -> list of (diag, tokens|None)"""
    lines = []
    spans = []
    for i, (table, inv) in enumerate(cases):
        a = len(lines) + 1
        for m in table:
            lines.append(define_line(m))
        lines.append(f"SENTB_{i}_")
        lines.append(line_text(inv))
        lines.append(f"SENTE_{i}_")
        for m in table:
            lines.append(f"#undef {m['name']}")
        spans.append((a, len(lines)))
    path = os.path.join(workdir, f"b_{tool}.c")
    with open(path, "w") as f:
        f.write("\n".join(lines) + "\n")
    p = subprocess.run([tool, "-E", "-P", "-x", "c", "-nostdinc", path], stdout=subprocess.PIPE, stderr=subprocess.PIPE, text=True, errors="replace")
    dl = sorted({int(x) for x in re.findall(r"^[^:\n]+:(\d+):(?:\d+:)? (?:warning|error|fatal error)", p.stderr, re.M)})
    glob_err = [ln for ln in p.stderr.splitlines() if re.match(r"^(cc1|clang|gcc)[^:]*: (error|fatal error)", ln)] or ("unterminated argument list" in p.stderr)
    if glob_err or (p.stderr.strip() and not dl):
        # a case swallowed the rest of the file (e.g. an argument list left open): isolate it by bisection
        if len(cases) == 1:
            return [(True, None)]
        h = len(cases) // 2
        return cc_expand_batch(cases[:h], tool, workdir) + cc_expand_batch(cases[h:], tool, workdir)
    import bisect

    res = []
    for i, (a, b) in enumerate(spans):
        k = bisect.bisect_left(dl, a)
        diag = k < len(dl) and dl[k] <= b
        m = re.search(rf"SENTB_{i}_\s(.*?)\sSENTE_{i}_", p.stdout, re.S)
        if diag or not m:
            res.append((True, None))
        else:
            res.append((False, pp_tokens(m.group(1))))
    return res


def cc_truth_batch(cases, tool, workdir):
    """`#if (INV)` per case -> list of (diag, truth)"""
    lines, spans = [], []
    for i, (table, inv) in enumerate(cases):
        a = len(lines) + 1
        for m in table:
            lines.append(define_line(m))
        lines += [f"#if ( {line_text(inv)} )", f"TRUE_{i}_", "#endif"]
        for m in table:
            lines.append(f"#undef {m['name']}")
        spans.append((a, len(lines)))
    path = os.path.join(workdir, f"t_{tool}.c")
    with open(path, "w") as f:
        f.write("\n".join(lines) + "\n")
    p = subprocess.run([tool, "-E", "-P", "-x", "c", "-nostdinc", path], stdout=subprocess.PIPE, stderr=subprocess.PIPE, text=True, errors="replace")
    dl = sorted({int(x) for x in re.findall(r"^[^:\n]+:(\d+):(?:\d+:)? (?:warning|error|fatal error)", p.stderr, re.M)})
    import bisect

    out = []
    for i, (a, b) in enumerate(spans):
        k = bisect.bisect_left(dl, a)
        diag = k < len(dl) and dl[k] <= b
        out.append((diag, f"TRUE_{i}_" in p.stdout))
    return out


# ---------------------------------------------------------------- observing CBI


class Timeout(Exception):
    pass


def _alarm(signum, frame):
    raise Timeout()


def with_watchdog(fn, seconds):
    old = signal.signal(signal.SIGALRM, _alarm)
    signal.alarm(seconds)
    try:
        return fn()
    finally:
        signal.alarm(0)
        signal.signal(signal.SIGALRM, old)


def parse_defines(table):
    from codebasin import preprocessor as pp

    return [pp.DirectiveParser(pp.Lexer(define_line(m)).tokenize()).parse() for m in table]


def cbi_platform(table, via_dash_d=False, nodes=None):
    """nodes: already parsed #define directives (a parsed file is evaluated once
    per platform and translation unit, so the same nodes are evaluated again and again)"""
    from codebasin import platform, preprocessor as pp

    p = platform.Platform("p", "/")
    if via_dash_d:
        for m in table:
            macro = pp.macro_from_definition_string(dash_d(m))
            p.define(macro.name, macro)
    else:
        for node in nodes if nodes is not None else parse_defines(table):
            node.evaluate_for_platform(platform=p, filename="x.c", state=None)
    return p


def spell(tok):
    from codebasin import preprocessor as pp

    if isinstance(tok, pp.StringConstant):
        return '"' + str(tok.token) + '"'
    if isinstance(tok, pp.CharacterConstant):
        return getattr(tok, "prefix", "") + "'" + str(tok.token) + "'"
    return str(tok.token)


def cbi_expand(table, inv, via_dash_d=False, bound=20):
    from codebasin import preprocessor as pp

    def run():
        nodes = None if via_dash_d else parse_defines(table)
        p = cbi_platform(table, via_dash_d, nodes)
        toks = [spell(t) for t in pp.MacroExpander(p).expand(pp.Lexer(line_text(inv)).tokenize())]
        if nodes is not None:
            # a second platform / translation unit evaluates the very same parsed directives
            p2 = cbi_platform(table, False, nodes)
            toks2 = [spell(t) for t in pp.MacroExpander(p2).expand(pp.Lexer(line_text(inv)).tokenize())]
            if toks2 != toks:
                raise RuntimeError(f"the same parsed #define lines evaluated for a second platform expand differently: first {toks} then {toks2}")
        return toks

    try:
        return ("ok", with_watchdog(run, bound))
    except Timeout:
        try:
            return ("ok", with_watchdog(run, bound * 10))
        except Timeout:
            return ("timeout", None)
        except Exception as e:
            return ("exc", f"{type(e).__name__}: {e}"[:200])
    except RecursionError as e:
        return ("exc", "RecursionError")
    except Exception as e:
        return ("exc", f"{type(e).__name__}: {e}"[:200])


def cbi_truth(table, inv):
    from codebasin import preprocessor as pp

    def run():
        p = cbi_platform(table)
        node = pp.DirectiveParser(pp.Lexer("#if ( " + line_text(inv) + " )").tokenize()).parse()
        return bool(node.evaluate_for_platform(platform=p, filename="x.c", state=None))

    try:
        return ("ok", with_watchdog(run, 20))
    except Timeout:
        return ("timeout", None)
    except Exception as e:
        return ("exc", f"{type(e).__name__}: {e}"[:200])


def retok(spellings):
    """normalise CBI's token spellings through the same reference tokeniser
    (so that e.g. a pasted `a1` or `<<` is compared by spelling, not by how CBI classifies it)"""
    return pp_tokens(" ".join(spellings))


# ---------------------------------------------------------------- features / signatures


def features(table, inv):
    f = set()
    names = {m["name"] for m in table}
    fl = {m["name"] for m in table if m["params"] is not None}
    for m in table:
        b = m["body"]
        if "##" in b:
            f.add("##")
        if "#" in b:
            f.add("#")
        if m["variadic"]:
            f.add("variadic")
        if m["name"] in b:
            f.add("self-ref")
        if any(x in names and x != m["name"] for x in b):
            f.add("refers-other-macro")
        if m["params"] is not None and m["body"] and m["body"][-1] in fl:
            f.add("body-ends-in-function-like-name")
    depth = 0
    prev = None
    for i, t in enumerate(inv):
        if t == "(":
            depth += 1
            if i + 1 < len(inv) and inv[i + 1] in (")", ","):
                f.add("empty-arg")
        elif t == ")":
            depth -= 1
        elif t == ",":
            if i + 1 < len(inv) and inv[i + 1] in (")", ","):
                f.add("empty-arg")
        elif t in names and depth >= 1:
            f.add("macro-in-argument")
        if t in fl and (i + 1 >= len(inv) or inv[i + 1] != "("):
            f.add("function-like-name-without-parens")
        if t.startswith("'"):
            f.add("char-const")
        if t.startswith('"'):
            f.add("string")
            if t[1:-1].endswith('"'):
                f.add("string-ends-in-escaped-quote")
        if t[:1] in "\"'" and "\\" in t:
            f.add("escape-in-literal")
        prev = t
    if any(inv[i] == ")" and i + 1 < len(inv) and inv[i + 1] == "(" for i in range(len(inv))):
        f.add("call-result-applied-to-following-tokens")
    if any(m["params"] is not None for m in table) and "(" in inv:
        f.add("function-like-call")
    return f


def nontrivial(table, inv):
    f = features(table, inv)
    return "function-like-call" in f and bool(f & {"##", "#", "macro-in-argument", "self-ref", "refers-other-macro", "empty-arg", "variadic", "call-result-applied-to-following-tokens", "body-ends-in-function-like-name"})


# ---------------------------------------------------------------- generator


def case_strategy():
    from hypothesis import strategies as st

    num = st.sampled_from(["0", "1", "2", "7", "10"])

    def body_strategy(name, params, variadic, others, function_like):
        ident = st.sampled_from(list(params) + others + [name, "w", "z"] + (["__VA_ARGS__"] if variadic == "..." else [variadic[:-3]] if variadic else []))
        atom = st.one_of(ident, ident, num)
        units = [atom.map(lambda x: [x]), st.sampled_from(OPS).map(lambda x: [x])]
        units.append(st.sampled_from([["'#'"], ['"##"'], ["','"], ["'('"]]))
        if params:
            units.append(st.sampled_from(list(params)).map(lambda q: ["L", "##", q]))  # TEXT()-style: L ## 'x' is L'x'
            # a literal whose content is spelled like a parameter is not a parameter use
            units.append(st.sampled_from(params).flatmap(lambda q: st.sampled_from([['"' + q + '"'], ["'" + q + "'"]])))
        # operands of ## are never the variadic parameter: pasting a token list that contains commas is
        # GNU comma-paste territory (gcc and clang accept it silently with their own semantics)
        vname = "__VA_ARGS__" if variadic == "..." else (variadic[:-3] if variadic else None)
        patom = atom.filter(lambda x: x != vname)
        units.append(st.tuples(patom, patom).map(lambda t: [t[0], "##", t[1]]))
        units.append(st.tuples(patom, patom, patom).map(lambda t: [t[0], "##", t[1], "##", t[2]]))
        if function_like and (params or variadic):
            pn = list(params) + (["__VA_ARGS__"] if variadic == "..." else [variadic[:-3]] if variadic else [])
            units.append(st.sampled_from(pn).map(lambda p: ["#", p]))
        if others:
            args = st.lists(st.lists(atom, min_size=0, max_size=2).map(lambda xs: xs), min_size=0, max_size=3)
            units.append(st.tuples(st.sampled_from(others), args).map(lambda t: [t[0], "("] + _join_args(t[1]) + [")"]))
        units.append(atom.map(lambda x: ["(", x, ")"]))
        return st.lists(st.one_of(*units), min_size=0, max_size=4).map(lambda us: [t for u in us for t in u])

    @st.composite
    def table(draw):
        n = draw(st.integers(1, 5))
        names = draw(st.permutations(NAMES))[:n]
        tab = []
        for name in names:
            function_like = draw(st.booleans())
            params, variadic = None, None
            if function_like:
                params = PARAMS[: draw(st.integers(0, 3))]
                variadic = draw(st.sampled_from([None, None, None, "...", "rest..."]))
            others = [x for x in names if x != name]
            body = draw(body_strategy(name, params or [], variadic, others, function_like))
            tab.append({"name": name, "params": params, "variadic": variadic, "body": body})
        return tab

    @st.composite
    def case(draw):
        tab = draw(table())
        names = [m["name"] for m in tab]
        # arguments are often spelled like the parameters of the macro they are passed to (MAX(a, b))
        atom = st.one_of(st.sampled_from(names + ["w", "q"]), num, st.sampled_from(["'x'", '"s t"', "+", "-", "<"]), st.sampled_from(PARAMS),
                         # constants whose content is spelled like a punctuator or operator of the macro syntax
                         st.sampled_from(["','", "'('", "')'", "'#'", '","', '"##"', '")"', '"a\\\\"', '"\\\\"', '"q\\""', '"\\""']))
        arg = st.one_of(
            st.just([]),
            st.lists(atom, min_size=1, max_size=3),
            st.tuples(atom, atom).map(lambda t: ["(", t[0], ",", t[1], ")"]),
            st.tuples(st.sampled_from(names), st.lists(st.lists(atom, max_size=2), max_size=2)).map(lambda t: [t[0], "("] + _join_args(t[1]) + [")"]),
        )
        call = st.tuples(st.sampled_from(names), st.lists(arg, min_size=0, max_size=4)).map(lambda t: [t[0], "("] + _join_args(t[1]) + [")"])
        unit = st.one_of(call, call, call, st.sampled_from(names).map(lambda x: [x]), atom.map(lambda x: [x]), st.lists(arg, min_size=1, max_size=2).map(lambda a: ["("] + _join_args(a) + [")"]))
        inv = draw(st.lists(unit, min_size=1, max_size=4).map(lambda us: [t for u in us for t in u]))
        return {"table": tab, "inv": inv}

    return case()


def scenario_strategy():
    """Constructed shapes that random tables almost never hit: self/mutual reference passed
    through arguments, a parameter used both plainly and under #/##, commas produced by
    argument expansion, nested self calls."""
    from hypothesis import strategies as st

    def M(name, params, body, variadic=None):
        return {"name": name, "params": params, "variadic": variadic, "body": body}

    num = st.sampled_from(["0", "1", "2", "7"])

    # string literals assembled from self-contained pieces (so every literal is well formed); the escaped
    # quote / backslash may stand anywhere, in particular as the first or the last character of the content
    ESC_PIECES = ["a", "b c", "hi", " ", "%d", "\\\"", "\\\\", "\\n", "'", "#", ",", "(", "\\\"", "\\t"]
    ESC_CHARS = st.sampled_from(["'\"'", "'\\''", "'\\\\'", "'\\\"'", "'a'", "'\\n'"])

    def escaped_literal():
        body = st.lists(st.sampled_from(ESC_PIECES), min_size=0, max_size=4).map("".join)
        return st.one_of(body, body.map(lambda c: c + "\\\""), body.map(lambda c: "\\\"" + c + "\\\""), body.map(lambda c: c + "\\\\")).map(lambda c: '"' + c + '"')

    @st.composite
    def case(draw):
        kind = draw(st.sampled_from(["selfref-arg", "plain-and-paste", "comma-from-arg", "selfref-arg", "plain-and-paste", "name-as-arg", "variadic-later-arg", "stringify-escapes"]))
        n1, n2 = draw(num), draw(num)
        tab = []
        if kind == "stringify-escapes":
            # C11 6.10.3.2p2: # inserts a \ before each " and \ of a string literal / character constant of the
            # argument - wherever in the literal they stand (first, last, adjacent), wherever the literal stands
            # in the argument, and again when the produced string is stringified a second time
            l1, l2 = draw(escaped_literal()), draw(st.one_of(escaped_literal(), ESC_CHARS))
            tab.append(M("F", ["a"], draw(st.sampled_from([["#", "a"], ["#", "a"], ["#", "a", "a"], ["a", "#", "a"]]))))
            tab.append(M("G", ["a"], ["F", "(", "a", ")"]))
            tab.append(M("H", [], ["#", "__VA_ARGS__"], variadic="..."))
            tab.append(M("X", None, draw(st.sampled_from([[l1], [l1, l2], ["w", l1]]))))
            tab.append(M("Y", ["a"], ["a"]))
            inv = draw(st.sampled_from([
                ["F", "(", l1, ")"], ["F", "(", "w", l1, ")"], ["F", "(", l1, "+", "1", ")"], ["F", "(", "w", "(", l1, ")", "+", "1", ")"],
                ["F", "(", l2, l1, ")"], ["F", "(", l1, l2, ")"], ["G", "(", "X", ")"], ["G", "(", "Y", "(", l1, ")", ")"],
                ["G", "(", "F", "(", l1, ")", ")"], ["H", "(", l1, ",", l2, ")"], ["H", "(", l2, ",", l1, ")"],
                ["G", "(", "H", "(", l2, ",", "X", ")", ")"], ["F", "(", l1, ")", l1],
            ]))
        elif kind == "selfref-arg":
            shape = draw(st.sampled_from(["self", "mutual", "paren", "fn-self"]))
            if shape == "self":
                tab.append(M("X", None, [n1, "+", "X"]))
            elif shape == "paren":
                tab.append(M("X", None, ["(", n1, "+", "X", ")"]))
            elif shape == "mutual":
                tab += [M("X", None, ["Y", n1]), M("Y", None, ["X", n2])]
            else:
                tab.append(M("X", ["a"], ["a", "+", "X", "(", "a", ")"]))
            fbody = draw(st.sampled_from([["a"], ["a", "+", "a"], ["(", "a", ")", "w"], ["a", "G", "(", "a", ")"], ["G", "(", "a", ")"]]))
            tab.append(M("F", ["a"], fbody))
            tab.append(M("G", ["a"], draw(st.sampled_from([["a"], ["a", "v"], ["F", "(", "a", ")"]]))))
            arg = ["X", "(", n2, ")"] if shape == "fn-self" else ["X"]
            inv = draw(st.sampled_from([["F", "("] + arg + [")"], ["F", "(", "F", "("] + arg + [")", ")"], ["F", "("] + arg + [")"] + arg, ["G", "(", "F", "("] + arg + [")", ")"], ["F", "(", n1] + arg + [")"]]))
        elif kind == "name-as-arg":
            # a function-like macro name travels through an argument and is applied to tokens that follow
            tab.append(M("G", ["a"], draw(st.sampled_from([["a", "+", n1], ["(", "a", ")"], ["a", "a"]]))))
            tab.append(M("F", ["a", "b"], draw(st.sampled_from([["a", "(", "b", ")"], ["a", "(", "b", ")", "+", "a", "(", n2, ")"], ["b", "a"]]))))
            tab.append(M("H", ["a"], draw(st.sampled_from([["a"], ["a", "w"]]))))
            tab.append(M("X", None, draw(st.sampled_from([["G"], ["H"], ["G", "(", n1, ")"]]))))
            inv = draw(st.sampled_from([["F", "(", "G", ",", n1, ")"], ["H", "(", "G", ")", "(", n2, ")"], ["H", "(", "X", ")", "(", n2, ")"], ["F", "(", "H", ",", "G", ")", "(", n1, ")"], ["F", "(", "X", ",", n2, ")"], ["H", "(", "H", ")", "(", "G", ")", "(", n1, ")"]]))
        elif kind == "variadic-later-arg":
            # second and later variadic arguments are pre-expanded like the first
            vn = draw(st.sampled_from(["...", "rest..."]))
            va = "__VA_ARGS__" if vn == "..." else "rest"
            tab.append(M("F", draw(st.sampled_from([[], ["a"]])), draw(st.sampled_from([[va], ["(", va, ")"], ["G", "(", va, ")"], [va, "+", "0"]])), variadic=vn))
            tab.append(M("G", [], [va], variadic=vn) if vn == "..." else M("G", ["a"], ["a"], variadic="..."))
            tab.append(M("X", None, [n1]))
            tab.append(M("H", ["a", "b"], ["b", "a"]))
            later = draw(st.sampled_from([["F", "(", n2, ")"], ["X"], ["H", "(", n1, ",", n2, ")"], ["F", "(", n1, ",", "X", ")"], ["H"]]))
            first = draw(st.sampled_from([[n1], ["X"], []]))
            inv = ["F", "("] + first + [","] + later + draw(st.sampled_from([[], [",", "X"], [",", "H"]])) + [")"] + draw(st.sampled_from([[], ["(", n1, ",", n2, ")"]]))
        elif kind == "plain-and-paste":
            pieces = draw(st.lists(st.sampled_from([["a"], ["a", "##", "0"], ["a", "##", "_T"], ["#", "a"], ["+"], ["G", "(", "a", ")"], ["x", "##", "a"], ["a"]]), min_size=2, max_size=4))
            tab.append(M("F", ["a"], [t for pc in pieces for t in pc]))
            tab.append(M("G", ["a"], draw(st.sampled_from([["a"], ["a", "*", "2"], ["w"]]))))
            tab.append(M("X", None, draw(st.sampled_from([[n1, n2], [n1], ["Y"], ["G", "(", n1, ")"]]))))
            tab.append(M("Y", None, [n2]))
            arg = draw(st.sampled_from([["X"], ["F", "(", n1, ")"], ["G", "(", n2, ")"], ["X", "Y"], [n1], ["F", "(", n1, ")", "+", n2], ["Y"]]))
            inv = ["F", "("] + arg + [")"]
        else:
            tab.append(M("X", None, [n1, ",", n2]))
            tab.append(M("G", ["a", "b"], draw(st.sampled_from([["a", "+", "b"], ["b"], ["b", "a"]]))))
            tab.append(M("F", ["a"], draw(st.sampled_from([["G", "(", "a", ")"], ["G", "(", "a", ")", "a", "##", "1"], ["a", "G", "(", "a", ")"]]))))
            tab.append(M("H", ["a"], ["F", "(", "a", ")"]))
            inv = draw(st.sampled_from([["F", "(", "X", ")"], ["H", "(", "X", ")"], ["G", "(", "X", ")"], ["F", "(", "X", ")", "X"]]))
        tab = draw(st.permutations(tab))
        return {"table": list(tab), "inv": inv}

    return case()


def _join_args(args):
    out = []
    for i, a in enumerate(args):
        if i:
            out.append(",")
        out += list(a)
    return out


# ---------------------------------------------------------------- minimisation (batched through the compilers)


def reductions(table, inv):
    """one-step smaller candidates"""
    out = []
    for i in range(len(table)):
        out.append((table[:i] + table[i + 1:], inv))
    for i in range(len(inv)):
        out.append((table, inv[:i] + inv[i + 1:]))
    for mi, m in enumerate(table):
        for i in range(len(m["body"])):
            m2 = dict(m, body=m["body"][:i] + m["body"][i + 1:])
            out.append((table[:mi] + [m2] + table[mi + 1:], inv))
        if m["params"]:
            m2 = dict(m, params=m["params"][:-1])
            out.append((table[:mi] + [m2] + table[mi + 1:], inv))
        if m["variadic"]:
            m2 = dict(m, variadic=None)
            out.append((table[:mi] + [m2] + table[mi + 1:], inv))
    def balanced(toks):
        d = 0
        for t in toks:
            d += (t == "(") - (t == ")")
            if d < 0:
                return False
        return d == 0

    def ok_body(m):
        b = m["body"]
        if not balanced(b) or (b and (b[0] == "##" or b[-1] == "##")):
            return False
        for i, t in enumerate(b):
            if t == "#" and (m["params"] is None or i + 1 >= len(b) or b[i + 1] not in list(m["params"]) + ["__VA_ARGS__", (m["variadic"] or "...")[:-3]]):
                return False
            if t == "##" and (b[i - 1] in ("##", "#", "(", ")") or i + 1 >= len(b) or b[i + 1] in ("##", "#", "(", ")")):
                return False
        return True

    return [(t, i) for t, i in out if i and balanced(i) and all(ok_body(m) for m in t)]


def judge_batch(cases, workdir):
    """-> list of None (outside domain or agrees) | (kind, expected, observed)"""
    g = cc_expand_batch(cases, "gcc", workdir)
    c = cc_expand_batch(cases, "clang", workdir)
    judge_batch.last_gcc = g
    out = []
    for (table, inv), (gd, gt), (cd, ct) in zip(cases, g, c):
        if gd or cd:
            out.append(("domain", "diagnosed"))
            continue
        if gt != ct:
            out.append(("domain", "gcc!=clang"))
            continue
        if any(t in NOT_IN_GRAMMAR for t in gt):
            # e.g. `+ ## +` -> `++`: the statement's grammar pastes identifiers and numbers; punctuators that can
            # only arise from pasting operators are outside it
            out.append(("domain", "pasted-punctuator-outside-grammar"))
            continue
        k, v = cbi_expand(table, inv)
        if k == "timeout":
            out.append(("non-termination", gt, None))
        elif k == "exc":
            out.append(("second-evaluation-differs" if v.startswith("RuntimeError: the same parsed") else f"exception:{v.split(':')[0]}", gt, v))
        elif retok(v) != gt:
            out.append(("wrong-expansion", gt, v))
        else:
            out.append(None)
    return out


def minimise(table, inv, kind, workdir, rounds=8):
    cur = (table, inv)
    for _ in range(rounds):
        cands = reductions(*cur)[:80]
        if not cands:
            break
        js = judge_batch(cands, workdir)
        nxt = None
        for cnd, j in zip(cands, js):
            if j is not None and j[0] == kind:
                nxt = cnd
                break
        if nxt is None:
            break
        cur = nxt
    return cur


def signature(kind, table, inv):
    if kind == "second-evaluation-differs":
        return kind
    return f"{kind}|" + ",".join(sorted(features(table, inv))) or "plain"


# ---------------------------------------------------------------- shards


def _rand_shard(seed, n, known):
    core.setup_import_path()
    from hypothesis import HealthCheck, given, settings
    import hypothesis

    res = Result()
    cases = []

    from hypothesis import strategies as st_

    @hypothesis.seed(seed)
    @settings(max_examples=n, database=None, deadline=None, suppress_health_check=list(HealthCheck), phases=[hypothesis.Phase.generate])
    @given(st_.one_of(case_strategy(), case_strategy(), case_strategy(), scenario_strategy()))
    def collect(c):
        cases.append(c)

    collect()
    with core.Scratch("c03") as wd:
        batch = [(c["table"], c["inv"]) for c in cases]
        verdicts = []
        cc_tokens = {}
        for i in range(0, len(batch), 250):
            part = batch[i:i + 250]
            verdicts += judge_batch(part, wd)
            for (t_, inv_), (gd, gt) in zip(part, judge_batch.last_gcc):
                if not gd:
                    cc_tokens[id(inv_)] = gt
        # truth of `#if (INV)` where gcc accepts it
        tb = cc_truth_batch(batch, "gcc", wd)
        seen = set()
        for (table, inv), j, (tdiag, ttruth) in zip(batch, verdicts, tb):
            if j is not None and j[0] == "domain":
                res.discarded[j[1]] += 1
                continue
            f = features(table, inv)
            res.case(key=[[define_line(m) for m in table], inv], nontrivial=nontrivial(table, inv), sample={"table": [define_line(m) for m in table], "line": line_text(inv)}, labels=sorted(f))
            gtoks = cc_tokens.get(id(inv))
            arith = gtoks is not None and all(re.fullmatch(r"[0-9]+|[A-Za-z_]\w*|\(|\)", t) or (t in OPS and t not in ("<<", ">>")) for t in gtoks)
            if j is None and not tdiag and arith:
                k, v = cbi_truth(table, inv)
                res.labels["if-truth-compared"] += 1
                if k != "ok" or v != ttruth:
                    j = (f"if-truth:{k if k != 'ok' else 'wrong'}", ttruth, v)
            if j is None:
                # the same table given as -D options must behave like the #define form
                if all("#" not in m["body"] or True for m in table):
                    k1, v1 = cbi_expand(table, inv, via_dash_d=True)
                    k0, v0 = cbi_expand(table, inv)
                    if (k1, v1) != (k0, v0):
                        j = ("dash-D-differs-from-define", v0, v1 if k1 == "ok" else f"{k1}: {v1}")
                    res.labels["dash-D-compared"] += 1
            if j is None:
                continue
            kind = j[0]
            if kind.startswith(("if-truth", "dash-D")):
                mt, mi = table, inv
            else:
                mt, mi = minimise(table, inv, kind, wd)
            sig = signature(kind, mt, mi)
            if sig in known:
                res.suppressed[sig] += 1
                continue
            if sig in seen:
                continue
            seen.add(sig)
            j2 = judge_batch([(mt, mi)], wd)[0] if not kind.startswith(("if-truth", "dash-D")) else j
            res.violation(sig, {"table": mt, "inv": mi, "defines": [define_line(m) for m in mt], "line": line_text(mi), "original": {"defines": [define_line(m) for m in table], "line": line_text(inv)}}, (j2 or j)[1], (j2 or j)[2])
    return res


INCLUDE_FAMILY = [
    (["#define HDR \"h1.h\""], "HDR", "h1.h"),
    (["#define SYS <h2.h>"], "SYS", "h2.h"),
    (["#define STR(x) #x", "#define XSTR(x) STR(x)", "#define NAME h1.h"], "XSTR(NAME)", "h1.h"),
    (["#define STR(x) #x"], "STR(h2.h)", "h2.h"),
    (["#define CAT(a,b) a##b", "#define STR(x) #x", "#define XSTR(x) STR(x)"], "XSTR(CAT(h,1).h)", "h1.h"),
    (["#define PICK(a,b) b", "#define A \"h1.h\"", "#define B \"h2.h\""], "PICK(A,B)", "h2.h"),
    (["#define ID(x) x", "#define Q \"h1.h\""], "ID(Q)", "h1.h"),
    (["#define ANG(x) <x>"], "ANG(h2.h)", "h2.h"),
    (["#define SEL 2", "#define H1 \"h1.h\"", "#define H2 \"h2.h\"", "#define CAT(a,b) a##b", "#define XCAT(a,b) CAT(a,b)"], "XCAT(H,SEL)", "h2.h"),
]


def _include_shard(known):
    """computed #include: which marker-carrying header is attributed (gcc decides)"""
    core.setup_import_path()
    from vlib import observe

    res = Result()
    for defs, operand, _ in INCLUDE_FAMILY:
        with core.Scratch("c03i") as root:
            core.write_tree(root, {"h1.h": "int marker_h1;\n", "h2.h": "int marker_h2;\n", "inc/h2.h": "int marker_h2_inc;\n", "main.c": "\n".join(defs) + f"\n#include {operand}\nint after;\n"})
            p = subprocess.run(["gcc", "-E", "-P", "-nostdinc", "-I", root, "main.c"], cwd=root, stdout=subprocess.PIPE, stderr=subprocess.PIPE, text=True)
            if p.stderr.strip() or p.returncode:
                res.discarded["gcc-diagnosed-include"] += 1
                continue
            exp = {h: (f"marker_{h[:2]};" in p.stdout) for h in ("h1.h", "h2.h")}
            try:
                state, cb = observe.find(root, {"p": [observe.entry(os.path.join(root, "main.c"), [], [root], [])]})
            except Exception as e:
                res.violation(f"computed-include:exception:{type(e).__name__}|{operand}", {"defines": defs, "operand": operand}, exp, f"{type(e).__name__}: {e}")
                continue
            got = {}
            for h in ("h1.h", "h2.h"):
                a, _ = observe.attribution_of(state, os.path.join(root, h))
                got[h] = bool(a.get(1))
            res.case(key=["include", defs, operand], nontrivial=len(defs) >= 2, sample={"defines": defs, "include": operand}, labels=["computed-include"])
            if got != exp:
                sig = f"computed-include:wrong-file|{operand}"
                if sig in known:
                    res.suppressed[sig] += 1
                else:
                    res.violation(sig, {"defines": defs, "operand": operand}, exp, got)
    return res


def _dispatch(job):
    fn, a = job
    return fn(*a)


def run(ctx):
    n = core.NPROC
    total = ctx.pick(16000, 300000)
    jobs = [(_rand_shard, (ctx.shard_seed("rand", i), total // n, ctx.known_sigs)) for i in range(n)]
    jobs.append((_include_shard, (ctx.known_sigs,)))
    res = core.merge_results(core.pool_map(_dispatch, [(j,) for j in jobs]))
    res.exhaustive = False
    return res


def replay(case):
    core.setup_import_path()
    if "operand" in case:
        return []
    if case.get("dash_d"):
        k1, v1 = cbi_expand(case["table"], case["inv"], via_dash_d=True)
        k0, v0 = cbi_expand(case["table"], case["inv"])
        if (k1, v1) != (k0, v0):
            return [make_violation(signature("dash-D-differs-from-define", case["table"], case["inv"]), case, v0, f"{k1}: {v1}")]
        return []
    with core.Scratch("c03r") as wd:
        j = judge_batch([(case["table"], case["inv"])], wd)[0]
        if j is None or j[0] == "domain":
            # truth / -D observations
            tb = cc_truth_batch([(case["table"], case["inv"])], "gcc", wd)[0]
            if j is None and not tb[0]:
                k, v = cbi_truth(case["table"], case["inv"])
                if k != "ok" or v != tb[1]:
                    return [make_violation(signature(f"if-truth:{k if k != 'ok' else 'wrong'}", case["table"], case["inv"]), case, tb[1], v)]
            return []
        return [make_violation(signature(j[0], case["table"], case["inv"]), case, j[1], j[2])]
