"""C13 - compilation-database entries resolve to the right files and
directories (DESIGN.md section 2, C13)."""

import collections
import json
import logging
import os
import re

from vlib import core, observe, pp_ast, pp_check
from vlib.core import Result, make_violation

PROP = "C13"
RULE = (
    "source trees (cb/src, cb/include, cb/src/inc) with a build directory inside the root (cb/build, holding a generated "
    "header) and one outside (outbuild); databases whose entries spell `directory` as absent / absolute / relative to the "
    "root / with ./ and .. segments, `file` as absolute or relative to that directory (with redundant segments), and -I "
    "values as absolute or relative to the directory (incl. `-I.`, and -I values that resolve to the entry file's own directory, "
    "whose headers api.h / cfg.h are then reached by `#include <...>` and compete by position with the other -I values), mixed with entries for missing files, object files, "
    "link commands, non-source files, files that exist relative to the root but not relative to the entry's directory, `command: \"\"` and `arguments: []`; a generated source file in the outside build directory may be an entry too. Oracle: an independent path model (directory "
    "relative to the root unless absolute; file and -I relative to the directory) gives entry['file'] and "
    "entry['include_paths']; the reference preprocessor model on the canonical paths gives the per-line attribution; "
    "`gcc -E` run with the entry's own arguments from the entry's directory confirms which marker lines a compiler uses. "
    "Skipped entries must each be named by a WARNING, never raise and not change the rest; files named by no entry (and "
    "not included) get no platform. Non-trivial: a relative `directory`, or a relative -I with a directory other than the "
    "root, or a .. segment, together with >=1 skipped entry; distinct by tree+database."
)
ASSUMPTIONS = [
    "gcc 12 run from the entry's directory is the reference for how relative file and -I values are interpreted",
    "a skipped entry counts as named when a WARNING record contains its file value (as written or resolved)",
]

HDRS = {"cb/include/h.h": "cb/include", "cb/src/inc/k.h": "cb/src/inc", "cb/build/gen.h": "cb/build", "outbuild/og.h": "outbuild",
        # a per-build-directory generated header: same name, different content, found through `-I.`
        "cb/build/cfg.h": "cb/build", "outbuild/cfg.h": "outbuild", "cb/include/cfg.h": "cb/include",
        # same names directly in the analysis root: must only be found when the root is given with -I
        "cb/cfg.h": "cb", "cb/h.h": "cb",
        # headers that live next to the sources: `-I../src` from a build directory (or `-I.` from the source
        # directory) names the entry file's OWN directory, which is a search directory like any other -
        # `#include <api.h>` has no implicit including-file directory and needs it; cb/src/cfg.h additionally
        # makes the POSITION of the own directory among the -I values matter
        "cb/src/api.h": "cb/src", "cb/lib/api.h": "cb/lib", "outbuild/api.h": "outbuild", "cb/src/cfg.h": "cb/src"}
DIRECTORIES = ["cb", "cb/build", "outbuild", "cb/src"]


def spell(path, style):
    """redundant segments that keep the meaning"""
    if os.path.isabs(path) or style == 0:
        return path
    if style == 1:
        return "./" + path
    d, b = os.path.split(path)
    if style == 2 and d and os.path.basename(d) not in ("..", "."):
        return d + "/../" + os.path.basename(d) + "/" + b
    if style == 3:
        return path.replace("/", "//", 1)
    return path


def case_strategy():
    from hypothesis import strategies as st

    from vlib import gen_pp

    @st.composite
    def case(draw):
        present = {h for h in HDRS if draw(st.integers(0, 9)) < 7}
        tree = {}
        for h in sorted(present):
            body = draw(gen_pp.item_lists(1, gen_pp.NAMES, max_items=3, raw=False))
            tree[h] = {"items": [["code", 1]] + body, "style": draw(gen_pp.styles())}
        srcs = ["cb/src/main.c"] + (["cb/src/util.cpp"] if draw(st.booleans()) else []) + (["cb/lib/extra.c"] if draw(st.booleans()) else [])
        # a generated source in the build directory outside the root: its own lines are not in the
        # code base, but the in-root headers it includes are
        if draw(st.integers(0, 2)) == 0:
            srcs.append("outbuild/gen.c")
        plats = {}
        entries = {}
        all_dirsets = []
        # constructed scenario "own directory": every command names the directory of its own source file among
        # its -I values (at a drawn position), that directory holds api.h, and the sources include <api.h>
        own_dir = draw(st.integers(0, 3)) == 0
        if own_dir:
            for s in srcs:
                h = os.path.dirname(s) + "/api.h"
                if h not in present:
                    present.add(h)
                    body = draw(gen_pp.item_lists(1, gen_pp.NAMES, max_items=3, raw=False))
                    tree[h] = {"items": [["code", 1]] + body, "style": draw(gen_pp.styles())}
        for pi in range(draw(st.integers(1, 2))):
            cmds = []
            for _ in range(draw(st.integers(1, 3))):
                idirs = draw(st.lists(st.sampled_from(sorted(set(HDRS.values()))), max_size=3, unique=True))
                f = draw(st.sampled_from(srcs))
                if own_dir and os.path.dirname(f) not in idirs:
                    idirs.insert(draw(st.integers(0, len(idirs))), os.path.dirname(f))
                all_dirsets.append(set(idirs))
                cmds.append({"file": f, "defines": draw(gen_pp.define_sets()), "dirs": [["I", d] for d in idirs], "forced": []})
            plats[f"p{pi}"] = cmds
        # a name may be included in angle form when every command finds it in one of its -I directories
        angle_ok = {os.path.basename(h) for h in present}
        for ds in all_dirsets:
            angle_ok &= {os.path.basename(h) for h in present if HDRS[h] in ds}
        for s in srcs:
            quote_ok = set(angle_ok)
            if s.startswith("cb/src/") and "cb/src/inc/k.h" in present:
                quote_ok.add("inc/k.h")
            if s.startswith("outbuild/"):
                quote_ok |= {os.path.basename(h) for h in present if HDRS[h] == "outbuild"}
            inc = gen_pp.include_items(quote_ok, angle_ok)
            items = draw(gen_pp.item_lists(2, gen_pp.NAMES, extra=inc, max_items=5, raw=False))
            if inc is not None and not any(i[0] == "include" for i in items):
                items = draw(inc) + items
            if own_dir:
                # the own-directory header in angle form (plain or computed); every command lists a directory with api.h
                items = draw(gen_pp.include_items([], ["api.h"])) + items
            tree[s] = {"items": items or [["code", 1]], "style": draw(gen_pp.styles())}
        tree["cb/src/never.c"] = {"items": [["code", 2]], "style": [0]}
        # how each entry is spelled
        for pname, cmds in plats.items():
            entries[pname] = []
            for cmd in cmds:
                entries[pname].append(
                    {
                        "directory": draw(st.sampled_from(DIRECTORIES)),
                        "dir_form": draw(st.sampled_from(["absent", "abs", "rel", "rel", "rel-dots", "abs"])),
                        "file_form": draw(st.sampled_from(["abs", "rel", "rel"])),
                        "file_style": draw(st.integers(0, 3)),
                        "inc_forms": [draw(st.sampled_from(["abs", "rel", "rel"])) for _ in cmd["dirs"]],
                        "inc_styles": [draw(st.integers(0, 3)) for _ in cmd["dirs"]],
                        "as_command": draw(st.booleans()),
                        "empty_I": draw(st.integers(0, 9)) == 0,
                    }
                )
        # a forced include of the per-build-directory header: looked up in the entry's directory first
        for pname, cmds in plats.items():
            for cmd, sp in zip(cmds, entries[pname]):
                d = "cb" if sp["dir_form"] == "absent" else sp["directory"]
                cmd["cwd"] = d
                if d + "/cfg.h" in present and draw(st.integers(0, 2)) == 0:
                    cmd["forced"] = ["cfg.h"]
        bad = {p: draw(st.lists(st.sampled_from(["missing", "object", "link", "empty-command", "empty-arguments", "text", "missing-there", "missing-there-out", "directory"]), max_size=3)) for p in plats}
        return {"tree": tree, "platforms": plats, "entries": entries, "bad": bad, "cbroot": "cb", "plain": draw(st.booleans())}

    return case()


def build_entry(top, root, cmd, sp):
    """-> (json entry, expected abs file, expected abs include paths, gcc cwd, gcc argv tail)"""
    dabs = os.path.join(top, sp["directory"])
    if sp["dir_form"] == "absent":
        dabs = root
        directory = None
    elif sp["dir_form"] == "abs":
        directory = dabs
    else:
        directory = os.path.relpath(dabs, root)
        if sp["dir_form"] == "rel-dots":
            directory = "./" + directory + "/../" + os.path.basename(dabs) if directory != "." else "./."
    fabs = os.path.join(top, cmd["file"])
    fsp = fabs if sp["file_form"] == "abs" else spell(os.path.relpath(fabs, dabs), sp["file_style"])
    incs, inc_abs = [], []
    for (k, d), form, style in zip(cmd["dirs"], sp["inc_forms"], sp["inc_styles"]):
        a = os.path.join(top, d)
        inc_abs.append(a)
        v = a if form == "abs" else spell(os.path.relpath(a, dabs), style)
        incs.append(v)
    flags = ["-D" + d for d in cmd["defines"]]
    for i, v in enumerate(incs):
        flags += (["-I" + v] if i % 2 else ["-I", v])
    for f in cmd.get("forced", []):
        flags += ["-include", f]
    if sp.get("empty_I"):
        flags += ["-I", ""]  # an empty directory name is ignored
    argv = ["gcc", *flags, "-c", fsp]
    e = {"file": fsp}
    if directory is not None:
        e["directory"] = directory
    if sp["as_command"]:
        import shlex

        e["command"] = shlex.join(argv)
    else:
        e["arguments"] = argv
    return e, os.path.normpath(fabs), [os.path.normpath(a) for a in inc_abs], dabs, flags + [fsp]


def bad_entry(kind, top, root, i):
    if kind == "missing":
        return {"directory": root, "file": f"src/generated{i}.c", "arguments": ["gcc", "-c", f"src/generated{i}.c"]}, f"generated{i}.c"
    if kind == "missing-there":
        # exists relative to the root, but not relative to the entry's directory
        return {"directory": "build", "file": "src/never.c", "arguments": ["gcc", "-DNEVER", "-c", "src/never.c"]}, "never.c"
    if kind == "missing-there-out":
        return {"directory": "../outbuild", "file": "src/never.c", "command": "gcc -c src/never.c"}, "never.c"
    if kind == "directory":
        # a directory with a source-like name is not a source file
        os.makedirs(os.path.join(root, "gendir.c"), exist_ok=True)
        return {"directory": root, "file": "gendir.c", "arguments": ["gcc", "-c", "gendir.c"]}, "gendir.c"
    if kind == "object":
        return {"directory": root, "file": "build/main.o", "arguments": ["gcc", "-o", "a.out", "build/main.o"]}, "main.o"
    if kind == "link":
        return {"directory": root, "file": "build/libx.a", "arguments": ["ar", "rcs", "build/libx.a", "build/main.o"]}, "libx.a"
    if kind == "text":
        return {"directory": root, "file": "notes.txt", "arguments": ["gcc", "-c", "notes.txt"]}, "notes.txt"
    if kind == "empty-command":
        return {"directory": root, "file": "src/main.c", "command": ""}, "src/main.c"
    return {"directory": root, "file": "src/main.c", "arguments": []}, "src/main.c"


class Capture(logging.Handler):
    def __init__(self):
        super().__init__(level=logging.DEBUG)
        self.records = []

    def emit(self, record):
        self.records.append((record.levelno, record.getMessage()))


def check_case(case, res: Result, confirm="on-failure"):
    from codebasin import CodeBase, config, finder

    vs = []
    with core.Scratch("c13") as top:
        root = os.path.join(top, "cb")
        texts, layouts, counted = pp_check.materialise(case, top)
        os.makedirs(os.path.join(root, "build"), exist_ok=True)
        os.makedirs(os.path.join(top, "outbuild"), exist_ok=True)
        for f, content in (("build/main.o", b"\x7fELF"), ("build/libx.a", b"!<arch>\n"), ("notes.txt", b"notes\n")):
            with open(os.path.join(root, f), "wb") as fh:
                fh.write(content)
        cj = {"case": case, "texts": texts}
        try:
            expected, events, per_cmd = pp_check.model_expect(case, top, layouts, counted)
        except pp_ast.Invalid as e:
            res.discarded[f"model-invalid:{e}"[:60]] += 1
            return []
        if any(ev for ev in events.values()):
            res.discarded["reached-missing-header"] += 1
            return []
        log = logging.getLogger("codebasin")
        cap = Capture()
        old_level, old_disable = log.level, logging.root.manager.disable
        logging.disable(logging.NOTSET)
        log.setLevel(logging.DEBUG)
        log.addHandler(cap)
        cwd = os.getcwd()
        cfg = {}
        exp_entries = {}
        gcc_jobs = []
        bad_names = []
        try:
            os.chdir(root)
            config._compilers = None
            for pname, cmds in case["platforms"].items():
                db = []
                exp_entries[pname] = []
                for i, (cmd, sp) in enumerate(zip(cmds, case["entries"][pname])):
                    e, fabs, incabs, dabs, tail = build_entry(top, root, cmd, sp)
                    db.append(e)
                    exp_entries[pname].append((fabs, incabs))
                    gcc_jobs.append((pname, i, dabs, tail))
                for j, kind in enumerate(case["bad"][pname]):
                    e, name = bad_entry(kind, top, root, j)
                    # interleave bad entries
                    db.insert(min(len(db), j), e)
                    bad_names.append((pname, kind, name))
                dbp = os.path.join(top, f"db-{pname}.json")
                with open(dbp, "w") as fh:
                    json.dump(db, fh)
                cfg[pname] = config.load_database(dbp, root)
            state = finder.find(root, CodeBase(root), cfg)
        except Exception as e:
            os.chdir(cwd)
            ok = True
            if confirm != "never":
                ok = _gcc_confirms(case, top, texts, per_cmd, gcc_jobs, res)
            if not ok:
                return []
            return [make_violation(f"exception:{type(e).__name__}", cj, "analysis succeeds", f"{type(e).__name__}: {e}")]
        finally:
            os.chdir(cwd)
            log.removeHandler(cap)
            log.setLevel(old_level)
            logging.disable(old_disable)
        # (1) resolved entries
        for pname in case["platforms"]:
            got = [(os.path.normpath(e["file"]), [os.path.normpath(p) for p in e["include_paths"]]) for e in cfg[pname]]
            want = [(f, incs) for f, incs in exp_entries[pname]]
            if got != want:
                kind = "file" if [g[0] for g in got] != [w[0] for w in want] else "include_paths"
                vs.append(make_violation(f"entry-resolution:{kind}", cj, [[os.path.relpath(f, top), [os.path.relpath(i, top) for i in incs]] for f, incs in want], [[os.path.relpath(f, top), [os.path.relpath(i, top) for i in incs]] for f, incs in got]))
                break
        # (2) attribution
        observed, problems = observe.attribution(state)
        for ap, exp in expected.items():
            rel = os.path.relpath(ap, top)
            if not rel.startswith("cb/"):
                continue
            obs = observed.get(ap) or {}
            if obs != exp:
                diff = {str(l): [sorted(exp.get(l, ["<uncounted>"])), sorted(obs.get(l, ["<uncounted>"]))] for l in sorted(set(exp) | set(obs)) if exp.get(l) != obs.get(l)}
                vs.append(make_violation("attribution", cj, {"file": rel, "line -> [expected, observed]": diff}, "differs"))
                break
        # (3) skipped entries are named by a warning
        warns = [m for lvl, m in cap.records if lvl == logging.WARNING]
        for pname, kind, name in bad_names:
            if not any(name in w for w in warns):
                vs.append(make_violation(f"skipped-entry-without-warning:{kind}", cj, f"a WARNING naming {name}", warns[:6]))
                break
        if vs and confirm != "never":
            if not _gcc_confirms(case, top, texts, per_cmd, gcc_jobs, res):
                return []
        elif confirm == "always":
            if not _gcc_confirms(case, top, texts, per_cmd, gcc_jobs, res):
                return []
        ents = [sp for sps in case["entries"].values() for sp in sps]
        reldir = any(sp["dir_form"] in ("rel", "rel-dots") and sp["directory"] != "cb" for sp in ents)
        relinc = any("rel" in sp["inc_forms"] and sp["directory"] != "cb" and sp["dir_form"] != "absent" for sp in ents)
        dots = any(sp["dir_form"] == "rel-dots" or sp["file_style"] == 2 or 2 in sp["inc_styles"] for sp in ents)
        nt = (reldir or relinc or dots) and bool(bad_names)
        # own-directory shape: a command lists the directory of its own source file with -I, the source has an
        # angle-form include, and the model says a header of that directory is used by that command
        ownang = 0
        for pname, cmds in case["platforms"].items():
            for i, cmd in enumerate(cmds):
                od = os.path.dirname(cmd["file"])
                if od in [d for _, d in cmd["dirs"]] and _has_angle(case["tree"][cmd["file"]]["items"]):
                    oda = os.path.realpath(os.path.join(top, od))
                    if any(os.path.dirname(ap) == oda and ap != os.path.realpath(os.path.join(top, cmd["file"])) and lines for ap, lines in per_cmd[(pname, i)].items()):
                        ownang = 1
        res.case(key=[texts, case["platforms"], case["entries"], case["bad"]], nontrivial=nt, sample={"entries": case["entries"], "bad": case["bad"], "platforms": case["platforms"]} if nt else None, labels=[f"rel-directory={int(reldir)}", f"rel-include={int(relinc)}", f"bad={min(len(bad_names),4)}", f"own-dir-angle-include={ownang}"])
    return vs


def _has_angle(items):
    """an angle-form include (written out, or computed through a macro defined as <...>) anywhere in the items"""
    if isinstance(items, (list, tuple)):
        if len(items) == 3 and items[0] == "include" and items[1] == "angle":
            return True
        if len(items) == 3 and items[0] == "define" and isinstance(items[2], str) and items[2].startswith("<"):
            return True
        return any(_has_angle(x) for x in items)
    return False


def _gcc_confirms(case, top, texts, per_cmd, gcc_jobs, res):
    """gcc -E with the entry's own arguments, run from the entry's directory,
    must use exactly the model's marker lines."""
    import subprocess

    ids = pp_ast.marker_file_ids(case["tree"])
    for pname, i, dabs, tail in gcc_jobs:
        lang = "c++" if tail[-1].endswith(".cpp") else "c"
        p = subprocess.run(["gcc", "-E", "-P", "-x", lang, "-nostdinc", *tail], cwd=dabs, stdout=subprocess.PIPE, stderr=subprocess.PIPE, text=True, errors="replace")
        if p.stderr.strip() or p.returncode:
            res.discarded["gcc-diagnosed"] += 1
            return False
        gused = collections.defaultdict(set)
        for fid, ln in pp_check.MARK.findall(p.stdout):
            if fid in ids:
                gused[os.path.realpath(os.path.join(top, ids[fid]))].add(int(ln))
        used = per_cmd[(pname, i)]
        for rel in case["tree"]:
            ap = os.path.realpath(os.path.join(top, rel))
            m = used.get(ap, set()) & pp_check.marker_lines(texts, rel)
            if m != gused.get(ap, set()):
                res.oracle_disagreement(f"path model disagrees with gcc run from {dabs}: file={rel} model={sorted(m)} gcc={sorted(gused.get(ap, set()))} args={tail}")
                return False
    res.extra["gcc_confirmed_model"] = res.extra.get("gcc_confirmed_model", 0) + 1
    return True


def _shard(seed, n, known, confirm_every):
    core.setup_import_path()
    res = Result()
    cnt = [0]

    def chk(case, r):
        cnt[0] += 1
        return check_case(case, r, confirm="always" if cnt[0] % confirm_every == 0 else "on-failure")

    core.hyp_search(case_strategy(), chk, n, seed, res, known_sigs=known)
    return res


def run(ctx):
    n = core.NPROC
    total = ctx.pick(800, 40000)
    jobs = [(ctx.shard_seed("rand", i), total // n, ctx.known_sigs, ctx.pick(5, 1)) for i in range(n)]
    res = core.merge_results(core.pool_map(_shard, jobs))
    res.exhaustive = False
    return res


def replay(case):
    core.setup_import_path()
    return check_case(case["case"], Result(), confirm="on-failure")
