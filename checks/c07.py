"""C07 - coverage, average coverage, distance and divergence equal their
definitions (DESIGN.md section 2, C07)."""

import io
import itertools
import math
import os
from fractions import Fraction

from vlib import core
from vlib.core import Result, make_violation

PROP = "C07"
RULE = (
    "tables (platform-set -> count): exhaustive over 3 platforms (8 keys, each absent or a count from a small "
    "set incl. 0) plus Hypothesis-generated tables over <=8 unicode-named platforms, <=40 keys, counts <=10^12; "
    "every non-empty `platforms` subset as set and list; oracle = exact rational formulas + metamorphic relations "
    "(symmetry, renaming, insertion order, scaling). Non-trivial: >=3 platforms, or a platform occurring only in "
    "shared sets, or a zero-count row, or an explicit platforms subset; distinct by canonical table."
)
ASSUMPTIONS = [
    "float results are compared with exact rationals at 1e-9 relative tolerance",
    "a pair of platforms whose union of lines is empty is 0/0: NaN or 0 are both accepted there, an exception is not",
    "an empty `platforms` argument means 'not provided' (documented)",
]

TOL = 1e-9
NAN = "nan"


# ---------------------------------------------------------------- model


def m_platforms(table):
    s = set()
    for k in table:
        s |= set(k)
    return s


def m_coverage(table, platforms=None):
    """Returns a set of acceptable values (Fractions or NAN)."""
    if platforms is None:
        platforms = m_platforms(table)
    total = sum(table.values())
    if total == 0 or len(platforms) == 0:
        return {NAN}
    used = sum(c for k, c in table.items() if set(k) & set(platforms))
    return {Fraction(100 * used, total)}


def m_avg_coverage(table, platforms=None):
    if platforms is None:
        platforms = m_platforms(table)
    total = sum(table.values())
    if total == 0 or len(platforms) == 0:
        return {NAN}
    vals = [next(iter(m_coverage(table, {p}))) for p in platforms]
    return {sum(vals, Fraction(0)) / len(vals)}


def m_distance(table, p1, p2):
    union = sum(c for k, c in table.items() if p1 in k or p2 in k)
    if union == 0:
        return {NAN, Fraction(0)}
    sym = sum(c for k, c in table.items() if (p1 in k) != (p2 in k))
    return {Fraction(sym, union)}


def m_divergence(table):
    ps = sorted(m_platforms(table))
    pairs = list(itertools.combinations(ps, 2))
    if not pairs:
        return {NAN}
    acc = {Fraction(0)}
    for a, b in pairs:
        ds = m_distance(table, a, b)
        new = set()
        for x in acc:
            for d in ds:
                new.add(NAN if (x == NAN or d == NAN) else x + d)
        acc = new
    return {NAN if x == NAN else x / len(pairs) for x in acc}


def agrees(observed, acceptable):
    if isinstance(observed, bool) or not isinstance(observed, (int, float)):
        try:
            observed = float(observed)
        except Exception:
            return False
    if math.isnan(observed):
        return NAN in acceptable
    for a in acceptable:
        if a == NAN:
            continue
        fa = float(a)
        if abs(observed - fa) <= TOL * max(1.0, abs(fa)):
            return True
    return False


def show(acceptable):
    return sorted(NAN if a == NAN else f"{a.numerator}/{a.denominator}" for a in acceptable)


# ---------------------------------------------------------------- checking one table


def table_json(table):
    return sorted([sorted(k), c] for k, c in table.items())


def shape(table):
    """Coarse structural class of a table, used in signatures."""
    ps = m_platforms(table)
    total = sum(table.values())
    return f"np={min(len(ps),3)}{'+' if len(ps)>3 else ''},total={'0' if total==0 else '+'},zero_rows={'y' if any(c==0 for c in table.values()) else 'n'}"


def call(fn, *a):
    try:
        return ("ok", fn(*a))
    except Exception as e:  # the statement promises a number
        return ("exc", f"{type(e).__name__}: {e}")


RANGE_MAX = {"coverage": 100, "average_coverage": 100, "divergence": 1, "distance": 1}


def check_table(table, res: Result, subsets=True, metamorphic=None):
    """table: dict frozenset(str)->int.  Returns list of violations."""
    from codebasin import report

    vs = []
    ps = sorted(m_platforms(table))
    tj = table_json(table)

    def judge(what, got, acceptable, args=None):
        kind, val = got
        if kind == "exc":
            vs.append(make_violation(f"{what}:exception:{val.split(':')[0]}:{shape(table)}", {"table": tj, "call": what, "args": args}, show(acceptable), val))
        elif not agrees(val, acceptable):
            und = "expected-nan" if acceptable == {NAN} else ("got-nan" if isinstance(val, float) and math.isnan(val) else "value")
            vs.append(make_violation(f"{what}:{und}:{shape(table)}", {"table": tj, "call": what, "args": args}, show(acceptable), repr(val)))
        elif isinstance(val, (int, float)) and not math.isnan(val) and not (0 <= val <= RANGE_MAX[what]):
            # the documented range holds exactly, not up to rounding: 1.0000000000000002 is not a distance
            vs.append(make_violation(f"{what}:outside-documented-range", {"table": tj, "call": what, "args": args}, f"[0, {RANGE_MAX[what]}]", repr(val)))

    judge("coverage", call(report.coverage, dict(table)), m_coverage(table))
    judge("average_coverage", call(report.average_coverage, dict(table)), m_avg_coverage(table))
    judge("divergence", call(report.divergence, dict(table)), m_divergence(table))
    for a in ps:
        for b in ps:
            got = call(report.distance, dict(table), a, b)
            judge("distance", got, m_distance(table, a, b), [a, b])
            if a < b:
                got2 = call(report.distance, dict(table), b, a)
                if got[0] == "ok" and got2[0] == "ok":
                    x, y = got[1], got2[1]
                    if not ((math.isnan(x) and math.isnan(y)) or x == y):
                        vs.append(make_violation(f"distance:asymmetric:{shape(table)}", {"table": tj, "args": [a, b]}, "d(a,b)==d(b,a)", [x, y]))
    if subsets:
        for r in range(0, len(ps) + 1):
            for sub in itertools.combinations(ps, r):
                if len(ps) > 4 and r not in (0, 1, 2, len(ps)):
                    continue
                for conv in (set, list):
                    judge("coverage", call(report.coverage, dict(table), conv(sub)), m_coverage(table, set(sub)), list(sub))
                    judge("average_coverage", call(report.average_coverage, dict(table), conv(sub)), m_avg_coverage(table, set(sub)), list(sub))
        # ranges
    for what, fn in (("coverage", report.coverage), ("average_coverage", report.average_coverage)):
        k, v = call(fn, dict(table))
        if k == "ok" and isinstance(v, float) and not math.isnan(v) and not (-TOL <= v <= 100 + 1e-7):
            vs.append(make_violation(f"{what}:range", {"table": tj}, "[0,100]", v))
    k, v = call(report.divergence, dict(table))
    if k == "ok" and isinstance(v, float) and not math.isnan(v) and not (-TOL <= v <= 1 + TOL):
        vs.append(make_violation("divergence:range", {"table": tj}, "[0,1]", v))

    # metamorphic relations on the implementation itself
    if metamorphic:
        ren, order, factor = metamorphic
        fns = [("coverage", report.coverage, None), ("average_coverage", report.average_coverage, None), ("divergence", report.divergence, None)]
        if len(ps) >= 2:
            fns.append(("distance", report.distance, (ps[0], ps[-1])))
        base = {n: call(f, dict(table), *(extra or ())) for n, f, extra in fns}
        variants = {
            "renamed": {frozenset(ren[p] for p in k): c for k, c in table.items()},
            "reordered": {k: table[k] for k in order},
            "scaled": {k: c * factor for k, c in table.items()},
        }
        for vn, t2 in variants.items():
            for n, f, extra in fns:
                if extra and vn == "renamed":
                    extra = tuple(ren[p] for p in extra)
                g = call(f, dict(t2), *(extra or ()))
                b = base[n]
                if b[0] != "ok" or g[0] != "ok":
                    continue  # exceptions are judged above
                x, y = b[1], g[1]
                # renaming, reordering and a common factor must not change a single bit ("unchanged"):
                # every metric is a correctly rounded quotient of integers, or an exactly rounded sum of such
                same = (math.isnan(x) and math.isnan(y)) or x == y
                if not same:
                    vs.append(make_violation(f"{n}:not-invariant:{vn}", {"table": tj, "variant": table_json(t2)}, x, y))
    return vs


def nontrivial(table, subsets=True):
    ps = m_platforms(table)
    only_shared = any(all(len(k) > 1 for k in table if p in k) for p in ps)
    return len(ps) >= 3 or only_shared or any(c == 0 for c in table.values()) or (subsets and len(ps) >= 1)


# ---------------------------------------------------------------- exhaustive part

KEYS3 = [frozenset(c) for r in range(4) for c in itertools.combinations("ABC", r)]


def _enum_shard(shard, nshards, counts):
    core.setup_import_path()
    res = Result()
    opts = [None] + list(counts)
    n = len(opts) ** 8
    for idx in range(shard, n, nshards):
        t = {}
        x = idx
        for k in KEYS3:
            x, r = divmod(x, len(opts))
            if opts[r] is not None:
                t[k] = opts[r]
        vs = check_table(t, res, subsets=True)
        res.case(key=None, nontrivial=nontrivial(t), sample=table_json(t) if idx % 7919 == 0 else None, labels=[f"enum:platforms={len(m_platforms(t))}"])
        for v in vs:
            res.violation(**v)
    return res


# ---------------------------------------------------------------- random part


def table_strategy():
    from hypothesis import strategies as st

    names = st.lists(
        st.one_of(st.sampled_from(["cpu", "gpu", "fpga", "A", "B", "x y", "é", "平台"]), st.text(min_size=1, max_size=6)),
        min_size=0, max_size=8, unique=True,
    )
    counts = st.one_of(st.integers(0, 5), st.integers(0, 10**12), st.sampled_from([0, 1, 10**12, 2**53 + 1]))

    @st.composite
    def tables(draw):
        ps = draw(names)
        keys = draw(st.lists(st.frozensets(st.sampled_from(ps), max_size=len(ps)) if ps else st.just(frozenset()), min_size=0, max_size=40, unique=True))
        t = {k: draw(counts) for k in keys}
        ren_targets = draw(st.permutations([f"r{i}" for i in range(len(ps))]))
        ren = dict(zip(ps, ren_targets))
        order = draw(st.permutations(list(t.keys())))
        factor = draw(st.sampled_from([2, 3, 1000, 10**6]))
        return (t, ren, order, factor)

    return tables()


def _rand_check(case, res: Result):
    t, ren, order, factor = case
    vs = check_table(t, res, subsets=True, metamorphic=(ren, order, factor))
    res.case(key=table_json(t), nontrivial=nontrivial(t), sample=table_json(t), labels=[f"rand:platforms={min(len(m_platforms(t)),8)}"])
    return vs


def _rand_shard(seed, n, known):
    core.setup_import_path()
    res = Result()
    core.hyp_search(table_strategy(), _rand_check, n, seed, res, known_sigs=known)
    return res


# ---------------------------------------------------------------- printed reports


def _fmt(acc):
    a = next(iter(acc))
    return "nan" if a == NAN else f"{float(a):.2f}"


def _near(printed, acc):
    a = next(iter(acc))
    if a == NAN:
        return printed == "nan"
    try:
        return abs(float(printed) - float(a)) <= 0.005 + 1e-9
    except ValueError:
        return False


def check_printed(t, res):
    """The metric lines of report.summary and the matrix of report.clustering
    must be the exact values rounded to two decimals; neither report may raise
    on any table (empty tables, tables without platforms or without lines
    print NaN / skip the clustering)."""
    import re

    from codebasin import report

    vs = []
    buf = io.StringIO()
    try:
        report.summary(dict(t), stream=buf)
    except Exception as e:
        return [make_violation(f"summary:exception:{type(e).__name__}", {"table": table_json(t), "printed": True}, "summary printed", f"{type(e).__name__}: {e}")]
    text = buf.getvalue()
    for label, acc in (("Code Divergence", m_divergence(t)), ("Coverage (%)", m_coverage(t)), ("Avg. Coverage (%)", m_avg_coverage(t))):
        m = re.search(re.escape(label) + r": (\S+)", text)
        ok = m is not None and any(_near(m.group(1), {a}) for a in acc)
        if not ok:
            vs.append(make_violation(f"summary-line:{label}", {"table": table_json(t), "printed": True}, _fmt(acc), m.group(1) if m else None))
    ps = sorted(m_platforms(t))
    nt = len(ps) >= 3
    defined = all(NAN not in m_distance(t, a, b) for a in ps for b in ps)
    if len(ps) < 2 or defined:
        buf = io.StringIO()
        with core.Scratch("c07") as d:
            try:
                report.clustering(os.path.join(d, "dendrogram.png"), dict(t), stream=buf)
            except Exception as e:
                # all pairwise distances are defined here (or there is nothing to cluster), so the report has no excuse
                vs.append(make_violation(f"clustering:exception:{type(e).__name__}:np={min(len(ps), 2)}", {"table": table_json(t), "printed": True}, "distance matrix printed, or the report skipped", f"{type(e).__name__}: {e}"))
                return vs
        if len(ps) >= 2:
            rows = [ln for ln in buf.getvalue().splitlines() if ln.startswith("│")]
            got = {}
            for ln in rows[1:]:
                cells = [c.strip() for c in ln.strip("│").split("│")]
                got[cells[0]] = cells[1:]
            for a in ps:
                for j, b in enumerate(ps):
                    exp = m_distance(t, a, b)
                    pr = got.get(a, [None] * len(ps))[j] if a in got else None
                    if pr is None or not _near(pr, exp):
                        vs.append(make_violation("clustering-matrix", {"table": table_json(t), "pair": [a, b], "printed": True}, _fmt(exp), pr))
            res.labels["printed:clustering"] += 1
        else:
            res.labels["printed:clustering-skipped-for-fewer-than-two-platforms"] += 1
    res.case(key=["printed", table_json(t)], nontrivial=nt, sample=None, labels=["printed:summary"])
    return vs


def _printed_shard(seed, n):
    core.setup_import_path()
    from hypothesis import strategies as st

    res = Result()
    small = st.dictionaries(
        # (names that look like numbers must keep their spelling in the printed matrix)
        st.frozensets(st.sampled_from(["p1", "p2", "2024.1", "2024.10", "1e3"]), max_size=4),
        st.one_of(st.integers(1, 999), st.integers(0, 3)), min_size=0, max_size=10,
    )
    core.hyp_search(small, check_printed, n, seed, res)
    return res


# ---------------------------------------------------------------- entry points


def run(ctx):
    counts = ctx.pick((0, 1, 3), (0, 1, 2, 5))
    nsh = core.NPROC * 4
    jobs = [(_enum_shard, (i, nsh, counts)) for i in range(nsh)]
    nrand = ctx.pick(20000, 400000)
    jobs += [(_rand_shard, (ctx.shard_seed("rand", i), nrand // core.NPROC, ctx.known_sigs)) for i in range(core.NPROC)]
    nprint = ctx.pick(64, 1600)
    jobs += [(_printed_shard, (ctx.shard_seed("printed", i), nprint // 8)) for i in range(8)]
    parts = core.pool_map(_dispatch, [(j,) for j in jobs])
    res = core.merge_results(parts)
    res.exhaustive = False
    res.extra["exhaustive_part"] = f"all {(len(counts)+1)**8} tables over platforms A,B,C with counts in {list(counts)} or absent"
    return res


def _dispatch(job):
    fn, a = job
    return fn(*a)


def replay(case):
    core.setup_import_path()
    t = {frozenset(k): c for k, c in case["table"]}
    res = Result()
    if case.get("printed"):
        return check_printed(t, res)
    meta = None
    if case.get("variant") is not None:
        # not-invariant findings: replay every row order and a renaming that reverses the names
        ps = sorted(m_platforms(t))
        meta = (dict(zip(ps, [f"r{i}" for i in range(len(ps))][::-1])), list(t.keys())[::-1], 3)
    return check_table(t, res, subsets=True, metamorphic=meta)
