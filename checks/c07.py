"""C07 - coverage, average coverage, distance and divergence equal their
definitions (DESIGN.md section 2, C07)."""

import io
import itertools
import math
import os
from fractions import Fraction

from vlib import core
from vlib.core import Result, make_violation

PROP = "C07"
RULE = (
    "tables (platform-set -> count): exhaustive over 3 platforms (8 keys, each absent or a count from a small "
    "set incl. 0) plus Hypothesis-generated tables over <=8 unicode-named platforms, <=40 keys, counts <=10^12; "
    "every non-empty `platforms` subset as set and list; oracle = exact rational formulas + metamorphic relations "
    "(symmetry, renaming, insertion order, scaling). Non-trivial: >=3 platforms, or a platform occurring only in "
    "shared sets, or a zero-count row, or an explicit platforms subset; distinct by canonical table. "
    "Histories: ONE dict/defaultdict object over <=4 platforms updated in place 1-5 times (counts accumulated on "
    "the same keys, common factor, all zero, one count replaced, key exchanged/added/removed, another table asked "
    "in between) with every metric (and optionally the summary lines) recomputed on that same object after each "
    "step against the exact model of its current contents; non-trivial: >=1 effective in-place update of a table "
    "that had lines."
)
ASSUMPTIONS = [
    "float results are compared with exact rationals at 1e-9 relative tolerance",
    "a pair of platforms whose union of lines is empty is 0/0: NaN or 0 are both accepted there, an exception is not",
    "an empty `platforms` argument means 'not provided' (documented)",
]

TOL = 1e-9
NAN = "nan"


# ---------------------------------------------------------------- model


def m_platforms(table):
    s = set()
    for k in table:
        s |= set(k)
    return s


def m_coverage(table, platforms=None):
    """Returns a set of acceptable values (Fractions or NAN)."""
    if platforms is None:
        platforms = m_platforms(table)
    total = sum(table.values())
    if total == 0 or len(platforms) == 0:
        return {NAN}
    used = sum(c for k, c in table.items() if set(k) & set(platforms))
    return {Fraction(100 * used, total)}


def m_avg_coverage(table, platforms=None):
    if platforms is None:
        platforms = m_platforms(table)
    total = sum(table.values())
    if total == 0 or len(platforms) == 0:
        return {NAN}
    vals = [next(iter(m_coverage(table, {p}))) for p in platforms]
    return {sum(vals, Fraction(0)) / len(vals)}


def m_distance(table, p1, p2):
    union = sum(c for k, c in table.items() if p1 in k or p2 in k)
    if union == 0:
        return {NAN, Fraction(0)}
    sym = sum(c for k, c in table.items() if (p1 in k) != (p2 in k))
    return {Fraction(sym, union)}


def m_divergence(table):
    ps = sorted(m_platforms(table))
    pairs = list(itertools.combinations(ps, 2))
    if not pairs:
        return {NAN}
    acc = {Fraction(0)}
    for a, b in pairs:
        ds = m_distance(table, a, b)
        new = set()
        for x in acc:
            for d in ds:
                new.add(NAN if (x == NAN or d == NAN) else x + d)
        acc = new
    return {NAN if x == NAN else x / len(pairs) for x in acc}


def agrees(observed, acceptable):
    if isinstance(observed, bool) or not isinstance(observed, (int, float)):
        try:
            observed = float(observed)
        except Exception:
            return False
    if math.isnan(observed):
        return NAN in acceptable
    for a in acceptable:
        if a == NAN:
            continue
        fa = float(a)
        if abs(observed - fa) <= TOL * max(1.0, abs(fa)):
            return True
    return False


def show(acceptable):
    return sorted(NAN if a == NAN else f"{a.numerator}/{a.denominator}" for a in acceptable)


# ---------------------------------------------------------------- checking one table


def table_json(table):
    return sorted([sorted(k), c] for k, c in table.items())


def shape(table):
    """Coarse structural class of a table, used in signatures."""
    ps = m_platforms(table)
    total = sum(table.values())
    return f"np={min(len(ps),3)}{'+' if len(ps)>3 else ''},total={'0' if total==0 else '+'},zero_rows={'y' if any(c==0 for c in table.values()) else 'n'}"


def call(fn, *a):
    try:
        return ("ok", fn(*a))
    except Exception as e:  # the statement promises a number
        return ("exc", f"{type(e).__name__}: {e}")


RANGE_MAX = {"coverage": 100, "average_coverage": 100, "divergence": 1, "distance": 1}


def check_table(table, res: Result, subsets=True, metamorphic=None):
    """table: dict frozenset(str)->int.  Returns list of violations."""
    from codebasin import report

    vs = []
    ps = sorted(m_platforms(table))
    tj = table_json(table)

    def judge(what, got, acceptable, args=None):
        kind, val = got
        if kind == "exc":
            vs.append(make_violation(f"{what}:exception:{val.split(':')[0]}:{shape(table)}", {"table": tj, "call": what, "args": args}, show(acceptable), val))
        elif not agrees(val, acceptable):
            und = "expected-nan" if acceptable == {NAN} else ("got-nan" if isinstance(val, float) and math.isnan(val) else "value")
            vs.append(make_violation(f"{what}:{und}:{shape(table)}", {"table": tj, "call": what, "args": args}, show(acceptable), repr(val)))
        elif isinstance(val, (int, float)) and not math.isnan(val) and not (0 <= val <= RANGE_MAX[what]):
            # the documented range holds exactly, not up to rounding: 1.0000000000000002 is not a distance
            vs.append(make_violation(f"{what}:outside-documented-range", {"table": tj, "call": what, "args": args}, f"[0, {RANGE_MAX[what]}]", repr(val)))

    judge("coverage", call(report.coverage, dict(table)), m_coverage(table))
    judge("average_coverage", call(report.average_coverage, dict(table)), m_avg_coverage(table))
    judge("divergence", call(report.divergence, dict(table)), m_divergence(table))
    for a in ps:
        for b in ps:
            got = call(report.distance, dict(table), a, b)
            judge("distance", got, m_distance(table, a, b), [a, b])
            if a < b:
                got2 = call(report.distance, dict(table), b, a)
                if got[0] == "ok" and got2[0] == "ok":
                    x, y = got[1], got2[1]
                    if not ((math.isnan(x) and math.isnan(y)) or x == y):
                        vs.append(make_violation(f"distance:asymmetric:{shape(table)}", {"table": tj, "args": [a, b]}, "d(a,b)==d(b,a)", [x, y]))
    if subsets:
        for r in range(0, len(ps) + 1):
            for sub in itertools.combinations(ps, r):
                if len(ps) > 4 and r not in (0, 1, 2, len(ps)):
                    continue
                for conv in (set, list):
                    judge("coverage", call(report.coverage, dict(table), conv(sub)), m_coverage(table, set(sub)), list(sub))
                    judge("average_coverage", call(report.average_coverage, dict(table), conv(sub)), m_avg_coverage(table, set(sub)), list(sub))
        # ranges
    for what, fn in (("coverage", report.coverage), ("average_coverage", report.average_coverage)):
        k, v = call(fn, dict(table))
        if k == "ok" and isinstance(v, float) and not math.isnan(v) and not (-TOL <= v <= 100 + 1e-7):
            vs.append(make_violation(f"{what}:range", {"table": tj}, "[0,100]", v))
    k, v = call(report.divergence, dict(table))
    if k == "ok" and isinstance(v, float) and not math.isnan(v) and not (-TOL <= v <= 1 + TOL):
        vs.append(make_violation("divergence:range", {"table": tj}, "[0,1]", v))

    # metamorphic relations on the implementation itself
    if metamorphic:
        ren, order, factor = metamorphic
        fns = [("coverage", report.coverage, None), ("average_coverage", report.average_coverage, None), ("divergence", report.divergence, None)]
        if len(ps) >= 2:
            fns.append(("distance", report.distance, (ps[0], ps[-1])))
        base = {n: call(f, dict(table), *(extra or ())) for n, f, extra in fns}
        variants = {
            "renamed": {frozenset(ren[p] for p in k): c for k, c in table.items()},
            "reordered": {k: table[k] for k in order},
            "scaled": {k: c * factor for k, c in table.items()},
        }
        for vn, t2 in variants.items():
            for n, f, extra in fns:
                if extra and vn == "renamed":
                    extra = tuple(ren[p] for p in extra)
                g = call(f, dict(t2), *(extra or ()))
                b = base[n]
                if b[0] != "ok" or g[0] != "ok":
                    continue  # exceptions are judged above
                x, y = b[1], g[1]
                # renaming, reordering and a common factor must not change a single bit ("unchanged"):
                # every metric is a correctly rounded quotient of integers, or an exactly rounded sum of such
                same = (math.isnan(x) and math.isnan(y)) or x == y
                if not same:
                    vs.append(make_violation(f"{n}:not-invariant:{vn}", {"table": tj, "variant": table_json(t2)}, x, y))
    return vs


def nontrivial(table, subsets=True):
    ps = m_platforms(table)
    only_shared = any(all(len(k) > 1 for k in table if p in k) for p in ps)
    return len(ps) >= 3 or only_shared or any(c == 0 for c in table.values()) or (subsets and len(ps) >= 1)


# ---------------------------------------------------------------- exhaustive part

KEYS3 = [frozenset(c) for r in range(4) for c in itertools.combinations("ABC", r)]


def _enum_shard(shard, nshards, counts):
    core.setup_import_path()
    res = Result()
    opts = [None] + list(counts)
    n = len(opts) ** 8
    for idx in range(shard, n, nshards):
        t = {}
        x = idx
        for k in KEYS3:
            x, r = divmod(x, len(opts))
            if opts[r] is not None:
                t[k] = opts[r]
        vs = check_table(t, res, subsets=True)
        res.case(key=None, nontrivial=nontrivial(t), sample=table_json(t) if idx % 7919 == 0 else None, labels=[f"enum:platforms={len(m_platforms(t))}"])
        for v in vs:
            res.violation(**v)
    return res


# ---------------------------------------------------------------- random part


def table_strategy():
    from hypothesis import strategies as st

    names = st.lists(
        st.one_of(st.sampled_from(["cpu", "gpu", "fpga", "A", "B", "x y", "é", "平台"]), st.text(min_size=1, max_size=6)),
        min_size=0, max_size=8, unique=True,
    )
    counts = st.one_of(st.integers(0, 5), st.integers(0, 10**12), st.sampled_from([0, 1, 10**12, 2**53 + 1]))

    @st.composite
    def tables(draw):
        ps = draw(names)
        keys = draw(st.lists(st.frozensets(st.sampled_from(ps), max_size=len(ps)) if ps else st.just(frozenset()), min_size=0, max_size=40, unique=True))
        t = {k: draw(counts) for k in keys}
        ren_targets = draw(st.permutations([f"r{i}" for i in range(len(ps))]))
        ren = dict(zip(ps, ren_targets))
        order = draw(st.permutations(list(t.keys())))
        factor = draw(st.sampled_from([2, 3, 1000, 10**6]))
        return (t, ren, order, factor)

    return tables()


def _rand_check(case, res: Result):
    t, ren, order, factor = case
    vs = check_table(t, res, subsets=True, metamorphic=(ren, order, factor))
    res.case(key=table_json(t), nontrivial=nontrivial(t), sample=table_json(t), labels=[f"rand:platforms={min(len(m_platforms(t)),8)}"])
    return vs


def _rand_shard(seed, n, known):
    core.setup_import_path()
    res = Result()
    core.hyp_search(table_strategy(), _rand_check, n, seed, res, known_sigs=known)
    return res


# ---------------------------------------------------------------- printed reports


def _fmt(acc):
    a = next(iter(acc))
    return "nan" if a == NAN else f"{float(a):.2f}"


def _near(printed, acc):
    a = next(iter(acc))
    if a == NAN:
        return printed == "nan"
    try:
        return abs(float(printed) - float(a)) <= 0.005 + 1e-9
    except ValueError:
        return False


def check_printed(t, res):
    """The metric lines of report.summary and the matrix of report.clustering
    must be the exact values rounded to two decimals; neither report may raise
    on any table (empty tables, tables without platforms or without lines
    print NaN / skip the clustering)."""
    import re

    from codebasin import report

    vs = []
    buf = io.StringIO()
    try:
        report.summary(dict(t), stream=buf)
    except Exception as e:
        return [make_violation(f"summary:exception:{type(e).__name__}", {"table": table_json(t), "printed": True}, "summary printed", f"{type(e).__name__}: {e}")]
    text = buf.getvalue()
    for label, acc in (("Code Divergence", m_divergence(t)), ("Coverage (%)", m_coverage(t)), ("Avg. Coverage (%)", m_avg_coverage(t))):
        m = re.search(re.escape(label) + r": (\S+)", text)
        ok = m is not None and any(_near(m.group(1), {a}) for a in acc)
        if not ok:
            vs.append(make_violation(f"summary-line:{label}", {"table": table_json(t), "printed": True}, _fmt(acc), m.group(1) if m else None))
    ps = sorted(m_platforms(t))
    nt = len(ps) >= 3
    defined = all(NAN not in m_distance(t, a, b) for a in ps for b in ps)
    if len(ps) < 2 or defined:
        buf = io.StringIO()
        with core.Scratch("c07") as d:
            try:
                report.clustering(os.path.join(d, "dendrogram.png"), dict(t), stream=buf)
            except Exception as e:
                # all pairwise distances are defined here (or there is nothing to cluster), so the report has no excuse
                vs.append(make_violation(f"clustering:exception:{type(e).__name__}:np={min(len(ps), 2)}", {"table": table_json(t), "printed": True}, "distance matrix printed, or the report skipped", f"{type(e).__name__}: {e}"))
                return vs
        if len(ps) >= 2:
            rows = [ln for ln in buf.getvalue().splitlines() if ln.startswith("│")]
            got = {}
            for ln in rows[1:]:
                cells = [c.strip() for c in ln.strip("│").split("│")]
                got[cells[0]] = cells[1:]
            for a in ps:
                for j, b in enumerate(ps):
                    exp = m_distance(t, a, b)
                    pr = got.get(a, [None] * len(ps))[j] if a in got else None
                    if pr is None or not _near(pr, exp):
                        vs.append(make_violation("clustering-matrix", {"table": table_json(t), "pair": [a, b], "printed": True}, _fmt(exp), pr))
            res.labels["printed:clustering"] += 1
        else:
            res.labels["printed:clustering-skipped-for-fewer-than-two-platforms"] += 1
    res.case(key=["printed", table_json(t)], nontrivial=nt, sample=None, labels=["printed:summary"])
    return vs


def _printed_shard(seed, n):
    core.setup_import_path()
    from hypothesis import strategies as st

    res = Result()
    small = st.dictionaries(
        # (names that look like numbers must keep their spelling in the printed matrix)
        st.frozensets(st.sampled_from(["p1", "p2", "2024.1", "2024.10", "1e3"]), max_size=4),
        st.one_of(st.integers(1, 999), st.integers(0, 3)), min_size=0, max_size=10,
    )
    core.hyp_search(small, check_printed, n, seed, res)
    return res


# ---------------------------------------------------------------- histories of ONE table object
#
# The statement quantifies over tables, not over dict objects: a metric asked of a table must be the
# metric of the table *as it is at the time of the call*.  Callers keep one setmap object and update
# it in place between two computations (FileTree.insert: ``parent.setmap[ps] += setmap[ps]``), so a
# history is: build ONE dict / defaultdict(int), compute every metric, update the very same object in
# place (same keys and larger counts, a common factor, all counts zero, one count replaced, a key
# exchanged for another one, a key added or removed), compute every metric again, ... - each time
# against the exact rational model of the current contents.  Everything above hands a fresh
# ``dict(table)`` to every call and therefore cannot see state kept per object between two calls.

HIST_NAMES = ["cpu", "gpu", "fpga", "A", "é"]
SAME_KEYS_STEPS = ("add", "scale", "zero", "set")  # in-place updates that keep the key set


def _kj(k):
    return sorted(k)


def hist_apply(obj, step):
    """Apply one JSON step to the live object, in place.  Steps that do not fit the current
    contents (possible only in hand-edited replays) are skipped."""
    kind = step[0]
    if kind == "add":
        for k, d in step[1]:
            k = frozenset(k)
            if k in obj:
                obj[k] += d
    elif kind == "scale":
        for k in obj:
            obj[k] *= step[1]
    elif kind == "zero":
        for k in obj:
            obj[k] = 0
    elif kind == "set":
        if frozenset(step[1]) in obj:
            obj[frozenset(step[1])] = step[2]
    elif kind == "swap":
        old, new = frozenset(step[1]), frozenset(step[2])
        if old in obj and new not in obj:
            c = obj.pop(old)
            obj[new] = c if len(step) < 4 else step[3]
    elif kind == "new":
        if frozenset(step[1]) not in obj:
            obj[frozenset(step[1])] = step[2]
    elif kind == "del":
        obj.pop(frozenset(step[1]), None)
    elif kind == "other":
        # an unrelated table object is asked in between
        from codebasin import report

        o = {frozenset(k): c for k, c in step[1]}
        for fn in (report.coverage, report.average_coverage, report.divergence):
            call(fn, o)


def history_strategy():
    from hypothesis import strategies as st

    small = st.one_of(st.integers(0, 9), st.integers(0, 10**6), st.sampled_from([0, 1, 10**12]))

    @st.composite
    def histories(draw):
        ps = draw(st.lists(st.sampled_from(HIST_NAMES), min_size=1, max_size=4, unique=True))
        keyspace = [frozenset(c) for r in range(len(ps) + 1) for c in itertools.combinations(ps, r)]
        keys = draw(st.lists(st.sampled_from(keyspace), min_size=1, max_size=8, unique=True))
        initial = [[_kj(k), draw(small)] for k in keys]
        container = draw(st.sampled_from(["dict", "defaultdict"]))
        cur = list(keys)
        steps = []
        for _ in range(draw(st.integers(1, 5))):
            kinds = ["add", "add", "scale", "zero", "set", "other"]
            if len(cur) < len(keyspace):
                kinds += ["swap", "new"]
            if len(cur) > 1:
                kinds.append("del")
            kind = draw(st.sampled_from(kinds)) if cur else "new"
            if kind == "add":
                # a further file with the same platform sets is accumulated into the table
                steps.append(["add", [[_kj(k), draw(small)] for k in cur]])
            elif kind == "scale":
                steps.append(["scale", draw(st.sampled_from([2, 3, 1000, 10**6]))])
            elif kind == "zero":
                steps.append(["zero"])
            elif kind == "set":
                steps.append(["set", _kj(draw(st.sampled_from(cur))), draw(small)])
            elif kind == "swap":
                old = draw(st.sampled_from(cur))
                new = draw(st.sampled_from([k for k in keyspace if k not in cur]))
                cur[cur.index(old)] = new
                steps.append(["swap", _kj(old), _kj(new)] + ([draw(small)] if draw(st.booleans()) else []))
            elif kind == "new":
                new = draw(st.sampled_from([k for k in keyspace if k not in cur]))
                cur.append(new)
                steps.append(["new", _kj(new), draw(small)])
            elif kind == "del":
                old = draw(st.sampled_from(cur))
                cur.remove(old)
                steps.append(["del", _kj(old)])
            else:
                o = draw(st.lists(st.sampled_from(keyspace), min_size=0, max_size=4, unique=True))
                steps.append(["other", [[_kj(k), draw(small)] for k in o]])
        printed = draw(st.booleans())
        return {"container": container, "initial": initial, "steps": steps, "printed": printed}

    return histories()


def _judge_state(obj, hist, at, kind, vs):
    """Every metric of the live object `obj`, against the exact model of its current contents."""
    import re

    from codebasin import report

    table = dict(obj)  # the model works on a snapshot; the tool is always handed `obj` itself
    ps = sorted(m_platforms(table))
    tj = table_json(table)
    case = {"history": hist, "at_step": at, "table": tj}
    results = {}

    def judge(what, got, acceptable, args=None):
        k, val = got
        if k == "exc":
            vs.append(make_violation(f"history:{what}:exception:{val.split(':')[0]}:after={kind}", {**case, "call": what, "args": args}, show(acceptable), val))
        elif not agrees(val, acceptable):
            und = "expected-nan" if acceptable == {NAN} else ("got-nan" if isinstance(val, float) and math.isnan(val) else "value")
            vs.append(make_violation(f"history:{what}:{und}:after={kind}", {**case, "call": what, "args": args}, show(acceptable), repr(val), note="same table object as in the earlier steps, updated in place"))
        elif isinstance(val, (int, float)) and not math.isnan(val) and not (0 <= val <= RANGE_MAX[what]):
            vs.append(make_violation(f"history:{what}:outside-documented-range:after={kind}", {**case, "call": what, "args": args}, f"[0, {RANGE_MAX[what]}]", repr(val)))
        if k == "ok" and args is None:
            results[what] = val

    judge("coverage", call(report.coverage, obj), m_coverage(table))
    judge("average_coverage", call(report.average_coverage, obj), m_avg_coverage(table))
    judge("divergence", call(report.divergence, obj), m_divergence(table))
    for a in ps:
        for b in ps:
            judge("distance", call(report.distance, obj, a, b), m_distance(table, a, b), [a, b])
    for r in (1, len(ps)):
        for sub in itertools.combinations(ps, r):
            for conv in (set, list):
                judge("coverage", call(report.coverage, obj, conv(sub)), m_coverage(table, set(sub)), list(sub))
                judge("average_coverage", call(report.average_coverage, obj, conv(sub)), m_avg_coverage(table, set(sub)), list(sub))
    if hist.get("printed"):
        buf = io.StringIO()
        try:
            report.summary(obj, stream=buf)
        except Exception as e:
            vs.append(make_violation(f"history:summary:exception:{type(e).__name__}", case, "summary printed", f"{type(e).__name__}: {e}"))
        else:
            for label, acc in (("Code Divergence", m_divergence(table)), ("Coverage (%)", m_coverage(table)), ("Avg. Coverage (%)", m_avg_coverage(table))):
                m = re.search(re.escape(label) + r": (\S+)", buf.getvalue())
                if m is None or not any(_near(m.group(1), {a}) for a in acc):
                    vs.append(make_violation(f"history:summary-line:{label}:after={kind}", case, _fmt(acc), m.group(1) if m else None))
    return results


def check_history(hist, res: Result):
    import collections

    vs = []
    obj = collections.defaultdict(int) if hist.get("container") == "defaultdict" else {}
    for k, c in hist["initial"]:
        obj[frozenset(k)] = c
    prev = _judge_state(obj, hist, 0, "initial", vs)
    inplace = 0  # updates of the object that change a defined metric's inputs while the key set stays
    labels = [f"history:container={hist.get('container', 'dict')}"]
    for i, step in enumerate(hist["steps"], 1):
        before = dict(obj)
        hist_apply(obj, step)
        if step[0] == "other":
            labels.append("history:step=other-table-in-between")
            continue
        changed = dict(obj) != before
        labels.append(f"history:step={step[0]}{'' if changed else '(no change)'}")
        if changed and sum(before.values()) > 0:
            inplace += 1
        now = _judge_state(obj, hist, i, step[0], vs)
        if step[0] == "scale":
            # "unchanged by multiplying all counts by a common factor": not a single bit (see check_table)
            for n, x in prev.items():
                y = now.get(n)
                if y is not None and not ((math.isnan(x) and math.isnan(y)) or x == y):
                    vs.append(make_violation(f"history:{n}:not-invariant:scaled-in-place", {"history": hist, "at_step": i, "table": table_json(dict(obj))}, x, y))
        prev = now
    res.case(key=["history", hist], nontrivial=inplace > 0, sample={"history": hist}, labels=labels + [f"history:in-place-updates={min(inplace, 3)}{'+' if inplace > 3 else ''}"])
    return vs


def _history_shard(seed, n, known):
    core.setup_import_path()
    res = Result()
    core.hyp_search(history_strategy(), check_history, n, seed, res, known_sigs=known)
    return res


# ---------------------------------------------------------------- entry points


def run(ctx):
    counts = ctx.pick((0, 1, 3), (0, 1, 2, 5))
    nsh = core.NPROC * 4
    jobs = [(_enum_shard, (i, nsh, counts)) for i in range(nsh)]
    nrand = ctx.pick(20000, 400000)
    jobs += [(_rand_shard, (ctx.shard_seed("rand", i), nrand // core.NPROC, ctx.known_sigs)) for i in range(core.NPROC)]
    nprint = ctx.pick(64, 1600)
    jobs += [(_printed_shard, (ctx.shard_seed("printed", i), nprint // 8)) for i in range(8)]
    nhist = ctx.pick(3200, 96000)
    jobs += [(_history_shard, (ctx.shard_seed("history", i), nhist // core.NPROC, ctx.known_sigs)) for i in range(core.NPROC)]
    parts = core.pool_map(_dispatch, [(j,) for j in jobs])
    res = core.merge_results(parts)
    res.exhaustive = False
    res.extra["exhaustive_part"] = f"all {(len(counts)+1)**8} tables over platforms A,B,C with counts in {list(counts)} or absent"
    return res


def _dispatch(job):
    fn, a = job
    return fn(*a)


def replay(case):
    core.setup_import_path()
    if case.get("history") is not None:
        return check_history(case["history"], Result())
    t = {frozenset(k): c for k, c in case["table"]}
    res = Result()
    if case.get("printed"):
        return check_printed(t, res)
    meta = None
    if case.get("variant") is not None:
        # not-invariant findings: replay every row order and a renaming that reverses the names
        ps = sorted(m_platforms(t))
        meta = (dict(zip(ps, [f"r{i}" for i in range(len(ps))][::-1])), list(t.keys())[::-1], 3)
    return check_table(t, res, subsets=True, metamorphic=meta)
