"""C02 - #if expressions are evaluated with C integer-constant-expression
semantics (DESIGN.md section 2, C02)."""

import itertools

from vlib import core, model_expr as mx, oracle_cc
from vlib.core import Result, make_violation

PROP = "C02"
RULE = (
    "expression ASTs rendered with minimal C parentheses; exhaustive: (b) both parse trees of `a op1 b op2 c` for every "
    "ordered pair of the 18 binary operators and ?: over literal triples, (c) every unary/binary composition, (a) all "
    "expressions with <=2 operators over the boundary literal set (sampled in quick); Hypothesis: random trees with "
    "<=12 leaves over literals in every base/suffix, character constants, macro and unknown identifiers, defined; "
    "unevaluated-#elif chains with garbage expressions. Oracle: exact-integer ISO C model (value+signedness), observed "
    "through the truth of E, (E)==V, (E)!=V and the signedness probe ((E)-(E)-1)<0; gcc -E confirms the model on a "
    "sample and on every unlisted disagreement. Cases with C undefined behaviour or any gcc diagnostic are discarded. "
    "Non-trivial: >=2 operators of different precedence, mixed signedness, a relational/logical result used as an "
    "arithmetic operand, a non-decimal/suffixed/character literal, or a negative dividend; distinct by rendered text+macros."
)
ASSUMPTIONS = [
    "gcc 12 is the reference for implementation-defined choices (arithmetic >> of negatives, char signedness)",
    "model==gcc is verified on a sample each run; a model/gcc disagreement on a gcc-silent case is a harness error",
    "expressions on which gcc prints any diagnostic (signed overflow, sign-changing promotion, ...) are outside the domain",
]

LABELS = ("t", "eq", "ne", "sg")


# ---------------------------------------------------------------- observing CBI


def cbi_truth(defs, text):
    """Evaluate `#if text` under object-like `#define`s with the code under test."""
    from codebasin import platform, preprocessor as pp

    try:
        p = platform.Platform("p", "/")
        for name, body in defs:
            node = pp.DirectiveParser(pp.Lexer(f"#define {name} {body}").tokenize()).parse()
            node.evaluate_for_platform(platform=p, filename="x.c", state=None)
        node = pp.DirectiveParser(pp.Lexer("#if " + text).tokenize()).parse()
        r = node.evaluate_for_platform(platform=p, filename="x.c", state=None)
        return ("ok", bool(r))
    except Exception as e:
        return ("exc", type(e).__name__)


def tests_for(e, v):
    t = mx.render(e)
    vl = mx.value_literal(v)
    return {"t": t, "eq": f"({t}) == {vl}", "ne": f"({t}) != {vl}", "sg": f"(({t}) - ({t}) - 1) < 0"}


def expected_for(v):
    return {"t": v[0] != 0, "eq": True, "ne": False, "sg": not v[1]}


def macro_defs(macros):
    return [(n, mx.render(b)) for n, b in sorted(macros.items())]


def failure_kind(macros, e):
    """None if CBI agrees with the model (or the case is outside the domain);
    otherwise a string naming how it fails."""
    try:
        v = mx.evaluate(e, macros)
    except mx.UB:
        return None
    defs = macro_defs(macros)
    exp = expected_for(v)
    for lab, text in tests_for(e, v).items():
        kind, val = cbi_truth(defs, text)
        if kind == "exc":
            return f"exception:{val}" + ("" if lab == "t" else f"@{lab}")
        if val != exp[lab]:
            return f"wrong:{lab}"
    return None


# ---------------------------------------------------------------- minimisation


def simpler_literals(e):
    if e[0] == "lit":
        suf = e[1][len(e[1].rstrip("uUlL")):]
        t = e[1].lower()
        base = "hex" if t.startswith("0x") else "bin" if t.startswith("0b") else "oct" if (len(t.rstrip("ul")) > 1 and t[0] == "0") else "dec"
        for n in (1, 2, 3, 8):
            for b, s in ((base, suf), ("dec", suf), (base, ""), ("dec", "")):
                c = mx.lit(n, b, s)
                if c != e and c[3] is not None and (len(c[1]), c[1]) < (len(e[1]), e[1]):
                    yield c
    elif e[0] == "chr":
        yield mx.lit(1)
        if "\\" in e[1] and e[1] != "'\\n'":
            yield ("chr", "'\\n'", 10)
        if e[1] != "'a'":
            yield ("chr", "'a'", 97)
    elif e[0] in ("id", "defined"):
        yield mx.lit(1)
        yield mx.lit(0)


def candidates(e, macros):
    k = e[0]
    if k in ("lit", "chr", "id", "defined"):
        if k == "id" and e[1] in macros:
            yield macros[e[1]]
        yield from simpler_literals(e)
        return
    children = {"par": [1], "un": [2], "bin": [2, 3], "tern": [1, 2, 3]}[k]
    for i in children:
        yield e[i]
    for i in children:
        for c in candidates(e[i], macros):
            yield e[:i] + (c,) + e[i + 1:]


def minimise(macros, e, kind, budget=400):
    def same(k2):
        return k2 is not None and k2.split("@")[0].split(":")[0] == kind.split("@")[0].split(":")[0] and (
            not kind.startswith("exception") or k2.split("@")[0] == kind.split("@")[0]
        )

    cur, curm = e, dict(macros)
    improved = True
    while improved and budget > 0:
        improved = False
        for c in candidates(cur, curm):
            budget -= 1
            if budget <= 0:
                break
            k2 = failure_kind(curm, c)
            if same(k2):
                cur, kind, improved = c, k2, True
                break
    used = {n for n in curm if _uses(cur, n, curm)}
    curm = {n: b for n, b in curm.items() if n in used}
    return curm, cur, failure_kind(curm, cur) or kind


def _uses(e, name, macros, seen=()):
    if e[0] in ("id", "defined"):
        if e[1] == name:
            return True
        if e[0] == "id" and e[1] in macros and e[1] not in seen:
            return _uses(macros[e[1]], name, macros, seen + (e[1],))
        return False
    return any(_uses(c, name, macros, seen) for c in e[1:] if isinstance(c, tuple))


def signature(kind, macros, e):
    return f"{kind}|{mx.shape(e)}" + ("|macro" if macros else "")


# ---------------------------------------------------------------- one case


def nontrivial(e):
    f = mx.features(e)
    return bool(f & {"mixed-prec", "bool-as-operand", "hex", "oct", "bin", "suffix", "char", "unsigned"}) or ("bin/" in f and "un-" in f) or ("bin%" in f and "un-" in f)


def check_case(case, res: Result, gcc_queue=None):
    """case = (macros: dict name->AST, e: AST).  Returns violations (unconfirmed by gcc)."""
    macros, e = case
    try:
        v = mx.evaluate(e, macros)
    except mx.UB as ub:
        res.discarded[f"model-UB:{ub}"] += 1
        return []
    text = mx.render(e)
    f = mx.features(e)
    res.case(key=[text, macro_defs(macros)], nontrivial=nontrivial(e), sample={"expr": text, "macros": macro_defs(macros), "value": mx.value_literal(v)}, labels=[x for x in f if not x.startswith(("bin", "un"))] + [f"ops={min(mx.n_ops(e),6)}"])
    kind = failure_kind(macros, e)
    if gcc_queue is not None:
        gcc_queue.append((macros, e, v))
    if kind is None:
        return []
    if kind.startswith("exception:OverflowError"):
        # root-cause classifier: does typing every non-decimal literal above
        # INT64_MAX explicitly as unsigned (suffix u) remove the failure?
        mu = {n: _add_u(b) for n, b in macros.items()}
        eu = _add_u(e)
        if (mu, eu) != (macros, e) and failure_kind(mu, eu) is None:
            big = _first_big(e) or next(filter(None, (_first_big(b) for b in macros.values())))
            return [make_violation(BIGLIT_SIG, {"macros": [], "expr": big[1], "ast": big, "macro_asts": [], "original": {"expr": text, "macros": macro_defs(macros)}}, {"value": f"{big[2]}u", **expected_for((big[2], True))}, kind)]
    m2, e2, k2 = minimise(macros, e, kind)
    try:
        v2 = mx.evaluate(e2, m2)
    except mx.UB:
        m2, e2, k2, v2 = macros, e, kind, v
    return [
        make_violation(
            signature(k2, m2, e2),
            {"macros": macro_defs(m2), "expr": mx.render(e2), "ast": e2, "macro_asts": sorted(m2.items()), "original": {"expr": text, "macros": macro_defs(macros)}},
            {"value": mx.value_literal(v2), **expected_for(v2)},
            k2,
        )
    ]


def gcc_confirm(items, res: Result, tool="gcc"):
    """items: list of (macros, e, v).  Returns list of 'silent-and-agrees' booleans;
    raises HarnessError when gcc is silent and disagrees with the model."""
    if not items:
        return []
    batch = [{"defs": macro_defs(m), "tests": tests_for(e, v)} for m, e, v in items]
    out = oracle_cc.eval_if_batch(batch, tool=tool)
    ok = []
    for (m, e, v), o in zip(items, out):
        if o["diag"]:
            res.discarded[f"{tool}-diagnosed"] += 1
            ok.append(False)
            continue
        exp = {lab for lab, val in expected_for(v).items() if val}
        if o["true"] != exp:
            res.oracle_disagreement(f"model disagrees with {tool} on a silent case: {mx.render(e)} macros={macro_defs(m)} model={mx.value_literal(v)} {tool}_true={sorted(o['true'])}")
            ok.append(False)
            continue
        res.extra[f"{tool}_confirmed_model"] = res.extra.get(f"{tool}_confirmed_model", 0) + 1
        ok.append(True)
    return ok


def confirm_violations(vs, res, known):
    """Keep only violations whose minimal case gcc accepts silently (domain) -
    listed known findings are not re-confirmed, they are suppressed anyway."""
    keep = []
    todo = [v for v in vs if v["signature"] not in known]
    keep += [v for v in vs if v["signature"] in known]
    if todo:
        items = []
        for v in todo:
            m = {n: _tup(b) for n, b in v["case"]["macro_asts"]}
            e = _tup(v["case"]["ast"])
            items.append((m, e, mx.evaluate(e, m)))
        for v, ok in zip(todo, gcc_confirm(items, res)):
            if ok:
                keep.append(v)
    return keep


BIGLIT_SIG = "exception:OverflowError|unsuffixed-nondecimal-literal-above-INT64_MAX"


def _is_big(e):
    return e[0] == "lit" and e[3] is True and "u" not in e[1].lower()


def _add_u(e):
    if _is_big(e):
        return ("lit", e[1] + "u", e[2], True)
    if e[0] in ("lit", "chr", "id", "defined"):
        return e
    return tuple(_add_u(c) if isinstance(c, tuple) else c for c in e)


def _first_big(e):
    if _is_big(e):
        return e
    if e[0] in ("lit", "chr", "id", "defined"):
        return None
    for c in e[1:]:
        if isinstance(c, tuple):
            r = _first_big(c)
            if r:
                return r
    return None


def _tup(x):
    if isinstance(x, list):
        return tuple(_tup(y) for y in x)
    return x


# ---------------------------------------------------------------- exhaustive parts


def _pairs_shard(shard, nshards, known):
    core.setup_import_path()
    res = Result()
    triples = [(7, 3, 2), (1, 2, 3), (8, 2, 2), (5, 0, 3), (2, 1, 1)]
    ops = mx.BINOPS + ["?"]
    jobs = list(itertools.product(ops, ops))
    vs_all = []
    queue = []
    for idx, (o1, o2) in enumerate(jobs):
        if idx % nshards != shard:
            continue
        for a, b, c in triples:
            A, B, C, D = mx.lit(a), mx.lit(b), mx.lit(c), mx.lit(4)

            def mk(op, l, r):
                return ("tern", l, D, r) if op == "?" else ("bin", op, l, r)

            for e in (mk(o2, mk(o1, A, B), C), mk(o1, A, mk(o2, B, C))):
                vs_all += check_case(({}, e), res, queue if (idx + a) % 9 == 0 else None)
    # single-literal expressions: 0, 1, 2 in every base and with every suffix
    if shard == 0:
        for n in (0, 1, 2, 8):
            for base in ("dec", "hex", "oct", "bin"):
                for suf in mx.SUFFIXES:
                    l = mx.lit(n, base, suf)
                    if l[3] is not None:
                        vs_all += check_case(({}, l), res, queue if (n + len(suf)) % 4 == 0 else None)
                        vs_all += check_case(({"M0": l}, ("id", "M0")), res, None)
    # (c) unary o binary and binary o unary
    for idx, (u, o) in enumerate(itertools.product(mx.UNOPS, mx.BINOPS)):
        if idx % nshards != shard:
            continue
        for a, b in ((7, 3), (0, 2), (2, 0), (1, 1)):
            A, B = mx.lit(a), mx.lit(b)
            for e in (("un", u, ("bin", o, A, B)), ("bin", o, ("un", u, A), B), ("bin", o, A, ("un", u, B)), ("un", u, ("un", u, A))):
                vs_all += check_case(({}, e), res, queue if idx % 5 == 0 else None)
    gcc_confirm(queue, res)
    for v in confirm_violations(_dedupe(vs_all), res, known):
        res.violation(**v)
    return res


def _dedupe(vs):
    seen, out = set(), []
    for v in vs:
        if v["signature"] not in seen:
            seen.add(v["signature"])
            out.append(v)
    return out


def _small_exprs():
    """(a) all expressions with <=2 operators over the boundary literal set."""
    L = mx.boundary_literals()
    for a in L:
        for u in mx.UNOPS:
            yield ("un", u, a)
    for o in mx.BINOPS:
        for a in L:
            for b in L:
                yield ("bin", o, a, b)
    for o1 in mx.BINOPS:
        for o2 in mx.BINOPS:
            for a in L:
                for b in L:
                    for c in L:
                        yield ("bin", o2, ("bin", o1, a, b), c)
                        yield ("bin", o1, a, ("bin", o2, b, c))
    for u in mx.UNOPS:
        for o in mx.BINOPS:
            for a in L:
                for b in L:
                    yield ("un", u, ("bin", o, a, b))
                    yield ("bin", o, ("un", u, a), b)
                    yield ("bin", o, a, ("un", u, b))


def small_expr_count():
    n = len(mx.boundary_literals())
    return n * 4 + 18 * n * n + 18 * 18 * n**3 * 2 + 4 * 18 * n * n * 3


def _small_shard(shard, nshards, stride, offset, known):
    """Every `stride`-th expression of enumeration (a), starting at `offset`
    (stride 1 = complete)."""
    core.setup_import_path()
    res = Result()
    vs_all = []
    queue = []
    for idx, e in enumerate(_small_exprs()):
        if idx % stride != offset:
            continue
        j = idx // stride
        if j % nshards != shard:
            continue
        vs = check_case(({}, e), res, queue if j % 97 == 0 else None)
        for v in vs:
            if v["signature"] in known:
                res.suppressed[v["signature"]] += 1
            else:
                vs_all.append(v)
        if len(vs_all) > 200:
            vs_all = _dedupe(vs_all)
    gcc_confirm(queue, res)
    for v in confirm_violations(_dedupe(vs_all), res, known):
        res.violation(**v)
    return res


# ---------------------------------------------------------------- random part


def case_strategy():
    from hypothesis import strategies as st

    expr, literal, leaf = mx.strategies()
    body = st.one_of(literal, literal.map(lambda l: ("par", ("un", "-", l))), st.sampled_from(["M0", "M1", "M2", "UNK"]).map(lambda n: ("id", n)), expr.map(lambda e: ("par", e)))
    macros = st.dictionaries(st.sampled_from(["M0", "M1", "M2"]), body, max_size=3)
    return st.tuples(macros, expr)


def _rand_shard(seed, n, known):
    core.setup_import_path()
    res = Result()
    queue = []
    found = []

    def chk(case, r):
        vs = check_case(case, r, queue if r.evaluations % 23 == 0 else None)
        out = []
        for v in vs:
            if v["signature"] in known:
                out.append(v)  # counted as suppressed by hyp_search
            elif v["signature"] not in {f["signature"] for f in found}:
                found.append(v)
        return out

    core.hyp_search(case_strategy(), chk, n, seed, res, known_sigs=known, shrink=False)
    gcc_confirm(queue, res)
    for v in confirm_violations(found, res, known):
        res.violation(**v)
    return res


# ---------------------------------------------------------------- through the whole pipeline (finder.find)


def _pipeline_shard(seed, nfiles, per_file, known):
    """`#if E / marker / #else / marker / #endif` blocks in a real file analysed with
    finder.find: the branch attributed to the platform must be the model's."""
    core.setup_import_path()
    import os

    import hypothesis
    from hypothesis import HealthCheck, given, settings

    from vlib import observe

    res = Result()
    cases = []

    @hypothesis.seed(seed)
    @settings(max_examples=nfiles * per_file, database=None, deadline=None, suppress_health_check=list(HealthCheck), phases=[hypothesis.Phase.generate])
    @given(case_strategy())
    def collect(c):
        cases.append(c)

    collect()
    usable = []
    for macros, e in cases:
        try:
            v = mx.evaluate(e, macros)
        except mx.UB:
            continue
        if failure_kind(macros, e) is not None:
            continue  # the expression-level search reports (or suppresses) these
        usable.append((macros, e, v))
    for i in range(0, len(usable), per_file):
        chunk = usable[i:i + per_file]
        lines, expect = [], {}
        for macros, e, v in chunk:
            for n, b in macro_defs(macros):
                lines.append(f"#define {n} {b}")
            lines.append(f"#if {mx.render(e)}")
            lines.append("int taken;")
            expect[len(lines)] = v[0] != 0
            lines.append("#else")
            lines.append("int other;")
            expect[len(lines)] = v[0] == 0
            lines.append("#endif")
            for n, b in macro_defs(macros):
                lines.append(f"#undef {n}")
        with core.Scratch("c02p") as d:
            path = os.path.join(d, "exprs.c")
            with open(path, "w") as f:
                f.write("\n".join(lines) + "\n")
            try:
                state, cb = observe.find(d, {"p": [observe.entry(path)]})
            except Exception as ex:
                res.violation(f"pipeline:exception:{type(ex).__name__}", {"file": "\n".join(lines)}, "analysis succeeds", f"{type(ex).__name__}: {ex}")
                continue
            a, _ = observe.attribution_of(state, path)
        for ln, want in expect.items():
            got = bool(a.get(ln))
            if got != want:
                ctx_lines = lines[max(0, ln - 4):ln + 2]
                sig = "pipeline:wrong-branch"
                if sig not in known:
                    res.violation(sig, {"lines": ctx_lines, "line": ln}, want, got)
                break
        res.case(key=["pipeline", lines], nontrivial=True, sample=None, labels=["pipeline-file"])
        res.labels["pipeline-expressions"] += len(chunk)
    return res


# ---------------------------------------------------------------- unevaluated #elif

GARBAGE = ["1 +", "( 1", "1 )", "1 / 0", "defined(", "defined", "", "1 2", "* 3", "F(", "F()", "1 ? 2", "@", "1 % 0", "0x", "'a", "1 <<", "? :", "##", "a b c"]


def _elif_shard(seed, n, known):
    """`#elif G` after a taken branch (also nested / behind a skipped parent)
    must be neither evaluated nor change the selection; gcc must accept the
    program silently for it to be in the domain."""
    core.setup_import_path()
    import os

    from hypothesis import strategies as st

    from codebasin import CodeBase, finder

    res = Result()
    prog = st.tuples(st.sampled_from(GARBAGE), st.sampled_from(["top", "nested-taken", "nested-skipped", "after-elif", "else-branch"]), st.sampled_from(["1", "defined(X)", "X == 2"]))

    def build(g, where, cond):
        L = []
        if where == "top":
            L = [f"#if {cond}", "A1;", f"#elif {g}", "A2;", "#else", "A3;", "#endif", "A4;"]
            used = {1, 2, 3, 5, 7, 8}
        elif where == "nested-taken":
            L = ["#if 1", f"#if {cond}", "A1;", f"#elif {g}", "A2;", "#endif", "#endif", "A3;"]
            used = {1, 2, 3, 4, 6, 7, 8}
        elif where == "nested-skipped":
            L = ["#if 0", "#if 1", "A1;", f"#elif {g}", "A2;", "#endif", f"#elif {cond}", "A3;", f"#elif {g}", "A4;", "#endif"]
            used = {1, 7, 8, 9, 11}
        elif where == "after-elif":
            L = ["#if 0", "A1;", f"#elif {cond}", "A2;", f"#elif {g}", "A3;", f"#elif {g}", "A4;", "#else", "A5;", "#endif"]
            used = {1, 3, 4, 5, 7, 9, 11}
        else:
            L = ["#if 0", "A0;", "#else", f"#if {cond}", "A1;", f"#elif {g}", "A2;", "#endif", "#endif"]
            used = {1, 3, 4, 5, 6, 8, 9}
        return "\n".join(L) + "\n", used

    def chk(case, r):
        g, where, cond = case
        text, used = build(g, where, cond)
        with core.Scratch("c02e") as d:
            path = os.path.join(d, "main.c")
            with open(path, "w") as f:
                f.write(text)
            diag, out, err = oracle_cc.cpp_markers("gcc", d, "main.c", ["-DX=2"])
            if diag:
                r.discarded["gcc-diagnosed-elif-program"] += 1
                return []
            # sanity: gcc keeps exactly the code markers of the model's selection
            r.case(key=["elif", g, where, cond], nontrivial=True, sample={"program": text, "D": "X=2"}, labels=["elif:" + where])
            cfg = {"p": [{"file": path, "defines": ["X=2"], "include_paths": [], "include_files": []}]}
            try:
                state = finder.find(d, CodeBase(d), cfg)
            except Exception as e:
                return [make_violation(f"elif-unevaluated:exception:{type(e).__name__}:{where}", {"program": text, "defines": ["X=2"], "garbage": g}, "analysis succeeds", f"{type(e).__name__}: {e}")]
            got = set()
            tree = state.get_tree(path)
            amap = state.get_map(path)
            for node in tree.walk():
                if hasattr(node, "lines") and amap[node]:
                    got |= set(node.lines)
            if got != used:
                return [make_violation(f"elif-unevaluated:selection:{where}", {"program": text, "defines": ["X=2"], "garbage": g}, sorted(used), sorted(got))]
        return []

    core.hyp_search(prog, chk, n, seed, res, known_sigs=known)
    return res


# ---------------------------------------------------------------- coverage-guided (atheris)


def fuzz_setup(workdir):
    pass


def _ast_from_bytes(data):
    it = iter(data)

    def nxt():
        return next(it, 0)

    def leaf():
        k = nxt() % 6
        if k <= 2:
            n = mx.BOUNDARY[nxt() % len(mx.BOUNDARY)] if nxt() % 2 else nxt()
            l = mx.lit(n, ["dec", "dec", "hex", "oct", "bin"][nxt() % 5], mx.SUFFIXES[nxt() % len(mx.SUFFIXES)] if nxt() % 3 == 0 else "")
            return l if l[3] is not None else mx.lit(1)
        if k == 3:
            c = mx.CHARS[nxt() % len(mx.CHARS)]
            return ("chr", c[0], c[1])
        if k == 4:
            return ("id", ["M0", "M1", "UNK"][nxt() % 3])
        return ("defined", ["M0", "M1", "UNK"][nxt() % 3], bool(nxt() % 2))

    def build(depth):
        k = nxt() % 10
        if depth <= 0 or k <= 2:
            return leaf()
        if k <= 4:
            return ("un", mx.UNOPS[nxt() % 4], build(depth - 1))
        if k <= 7:
            return ("bin", mx.BINOPS[nxt() % len(mx.BINOPS)], build(depth - 1), build(depth - 1))
        if k == 8:
            return ("tern", build(depth - 1), build(depth - 1), build(depth - 1))
        return ("par", build(depth - 1))

    macros = {}
    if nxt() % 2:
        macros["M0"] = leaf()
    if nxt() % 3 == 0:
        macros["M1"] = ("par", build(1))
    return macros, build(4)


def fuzz_one(data, stats):
    case = _ast_from_bytes(data)
    r = Result()
    vs = check_case(case, r)
    if r.evaluations:
        stats["in_domain"] += 1
    return vs or None


# ---------------------------------------------------------------- entry points


def _dispatch(job):
    fn, a = job
    return fn(*a)


def run(ctx):
    known = ctx.known_sigs
    n = core.NPROC
    jobs = [(_pairs_shard, (i, n, known)) for i in range(n)]
    total_small = small_expr_count()
    stride = ctx.pick(23, 1)
    offset = ctx.seed % stride
    nsh = n * ctx.pick(1, 8)
    jobs += [(_small_shard, (i, nsh, stride, offset, known)) for i in range(nsh)]
    nrand = ctx.pick(24000, 1000000)
    jobs += [(_rand_shard, (ctx.shard_seed("rand", i), nrand // (n * 2), known)) for i in range(n * 2)]
    jobs += [(_elif_shard, (ctx.shard_seed("elif", i), ctx.pick(40, 300), known)) for i in range(4)]
    jobs += [(_pipeline_shard, (ctx.shard_seed("pipeline", i), ctx.pick(2, 40), 60, known)) for i in range(4)]
    parts = core.pool_map(_dispatch, [(j,) for j in jobs])
    res = core.merge_results(parts)
    res.exhaustive = False
    res.extra["enumeration_a_size"] = total_small
    res.extra["enumeration_a_stride"] = stride
    res.extra["exhaustive_parts"] = "(b) operator pairs and (c) unary/binary compositions complete; (a) complete iff stride==1"
    # coverage-guided campaign: bytes -> AST, the ISO C model is the in-target oracle; gcc confirms findings
    from vlib import fuzz

    findings, stats = fuzz.run_campaign("checks.c02", known, ctx.seed, nprocs=ctx.pick(4, 16), runs=ctx.pick(8000, 120000), max_len=64)
    res.extra["atheris"] = stats
    if "executions" in stats:
        res.evaluations += stats.get("in_domain", 0)
        res.suppressed.update({"(atheris) known root causes": stats.get("suppressed", 0)})
    for v in confirm_violations(_dedupe(findings), res, known):
        res.violation(**{k: v.get(k) for k in ("signature", "case", "expected", "observed", "note")})
    return res


def replay(case):
    core.setup_import_path()
    res = Result()
    if "program" in case:
        return _replay_elif(case)
    if "ast" not in case:
        return []  # pipeline-layer findings carry only the surrounding lines; re-run the check to reproduce
    m = {n: _tup(b) for n, b in case.get("macro_asts", [])}
    e = _tup(case["ast"])
    vs = check_case((m, e), res)
    return vs


def _replay_elif(case):
    import os

    from codebasin import CodeBase, finder

    with core.Scratch("c02r") as d:
        path = os.path.join(d, "main.c")
        with open(path, "w") as f:
            f.write(case["program"])
        cfg = {"p": [{"file": path, "defines": case["defines"], "include_paths": [], "include_files": []}]}
        try:
            finder.find(d, CodeBase(d), cfg)
        except Exception as e:
            return [make_violation(f"elif-unevaluated:exception:{type(e).__name__}", case, "analysis succeeds", str(e))]
    return []
