"""C14 - results are deterministic and independent of enumeration order
(DESIGN.md section 2, C14)."""

import hashlib
import json
import os
import re
import subprocess
import sys

from checks import c06
from vlib import cbcase, core, observe
from vlib.core import Result, make_violation

PROP = "C14"
RULE = (
    "code bases built to be order-sensitive if anything is (same header name in several -I directories, macros defined in "
    "several files, byte-identical twins, >=3 platforms) analysed repeatedly in fresh interpreter processes; the schedule is "
    "the triple (PYTHONHASHSEED in {0,1,2,3,random}, directory enumeration order shuffled by interposing on os.scandir/"
    "os.listdir with a seed, order of the [platform.*] tables and of the database entries). Oracle: all schedules of one "
    "input must agree semantically on the platform-set table, the printed metric lines, the printed distance matrix, the "
    "per-line attribution, the coverage export (file -> record), the duplicate groups (set of sets) and the tree rows "
    "(set). Byte-level differences (row order) are only counted. Non-trivial: >=2 same-named headers or >=2 duplicate "
    "groups, and >=3 platforms; distinct by tree+databases."
)
ASSUMPTIONS = [
    "row order is not promised by the statement; outputs are compared after parsing",
    "the directory-order schedule is produced by a wrapper that shuffles os.scandir/os.listdir before running the unmodified front end (vlib/sched_runner.py); no repository hook",
]

RUNNER = os.path.join(os.path.dirname(os.path.dirname(os.path.abspath(__file__))), "vlib", "sched_runner.py")


def run_sched(hashseed, shuffle, mode, args, cwd):
    env = dict(os.environ)
    env["PYTHONPATH"] = os.pathsep.join([core.REPO] + [p for p in env.get("PYTHONPATH", "").split(os.pathsep) if p and p != core.REPO])
    if hashseed == "random":
        env.pop("PYTHONHASHSEED", None)
        env["PYTHONHASHSEED"] = "random"
    else:
        env["PYTHONHASHSEED"] = str(hashseed)
    env["PYTHONWARNINGS"] = "ignore"
    env["MPLBACKEND"] = "Agg"
    env["MPLCONFIGDIR"] = os.path.join(core.scratch_base(), "cbiv-mpl")
    for v in ("OMP_NUM_THREADS", "OPENBLAS_NUM_THREADS"):
        env[v] = "1"
    p = subprocess.run([sys.executable, RUNNER, str(shuffle), mode, *args], cwd=cwd, env=env, stdout=subprocess.PIPE, stderr=subprocess.PIPE, text=True, timeout=600)
    return p.returncode, p.stdout, p.stderr


def case_strategy():
    from hypothesis import strategies as st

    from vlib import gen_cb

    @st.composite
    def case(draw):
        c = draw(gen_cb.codebases(min_platforms=3, max_platforms=4, header_bias=True, max_files=10))
        if not c["tree"]:
            c["tree"]["main.c"] = {"items": [["code", 2]], "style": [0]}  # (the generator may draw a code base of raw files only)
        names = sorted(c["tree"])
        # twins: same base name in another directory, identical or different content
        dirs = sorted({os.path.dirname(n) for n in names} | {"twin", "twin/deep"})
        for j in range(draw(st.integers(1, 3))):
            src = draw(st.sampled_from(names))
            d = draw(st.sampled_from([x for x in dirs if x != os.path.dirname(src)] or ["twin"]))
            tw = (d + "/" if d else "") + os.path.basename(src)
            if tw in c["tree"]:
                continue
            same = draw(st.booleans())
            c["tree"][tw] = json.loads(json.dumps(c["tree"][src])) if same else {"items": [["code", draw(st.integers(1, 3))], ["undef", "A"], ["define", "A", "7"]], "style": [0]}
            if src.endswith((".h", ".hpp")):
                for cmds in c["platforms"].values():
                    for cmd in cmds:
                        if draw(st.integers(0, 3)) != 0:
                            pair = [["I", os.path.dirname(tw) or "."], ["I", os.path.dirname(src) or "."]]
                            if draw(st.booleans()):
                                pair.reverse()  # platforms search the same directories in different orders
                            cmd["dirs"] = pair + [d for d in cmd.get("dirs", []) if d not in pair]
                # and a compiled file that includes the twin header by its base name
                hosts = [n for n in names if not n.endswith((".h", ".hpp")) and n in c["tree"]]
                if hosts:
                    h = draw(st.sampled_from(hosts))
                    c["tree"][h]["items"] = [["include", "angle", os.path.basename(src)]] + c["tree"][h]["items"]
                    for cmds in c["platforms"].values():
                        if cmds and draw(st.booleans()):
                            cmds[0]["file"] = h
        plist = sorted(c["platforms"])
        # a header shared by a C and a Fortran translation unit of different platforms
        if draw(st.booleans()):
            c.setdefault("extra", {})["mixed/shared.h"] = "int s1;\n/* a C comment line */\nint s2; /* trailing */\n! not a C comment\nint s3;\n"
            c["extra"]["mixed/kernel.F90"] = "subroutine k()\n#include \"shared.h\"\n  integer :: i\nend subroutine k\n"
            c["tree"]["mixed/main.c"] = {"items": [["include", "quote", "shared.h"], ["code", 2]], "style": [0]}
            c["platforms"][plist[0]].append({"file": "mixed/main.c", "defines": [], "dirs": [], "forced": []})
            c["platforms"][plist[-1]].append({"file": "mixed/kernel.F90", "defines": [], "dirs": [], "forced": []})
        # a user-defined compiler whose flag selects two passes that each add their own include directory
        if draw(st.booleans()):
            c.setdefault("extra", {})[".cbi/config"] = (
                '[compiler.offcc]\n[[compiler.offcc.parser]]\nflags = ["-foffload-targets"]\naction = "store_split"\nsep = ","\nformat = "off-$value"\ndest = "passes"\n'
                '[[compiler.offcc.passes]]\nname = "off-amd"\ninclude_paths = ["amd_inc"]\n[[compiler.offcc.passes]]\nname = "off-nv"\ninclude_paths = ["nv_inc"]\n'
                '[[compiler.offcc.passes]]\nname = "off-x"\ninclude_paths = ["x_inc"]\n'
                # two flags enabling modes that define the same macro: which one wins must not depend on the hash seed
                '[[compiler.offcc.parser]]\nflags = ["-mwide"]\naction = "append_const"\ndest = "modes"\nconst = "wide"\n'
                '[[compiler.offcc.parser]]\nflags = ["-mnarrow"]\naction = "append_const"\ndest = "modes"\nconst = "narrow"\n'
                '[[compiler.offcc.parser]]\nflags = ["-mtiny"]\naction = "append_const"\ndest = "modes"\nconst = "tiny"\n'
                '[[compiler.offcc.modes]]\nname = "wide"\ndefines = ["SIMD_WIDTH=512"]\n'
                '[[compiler.offcc.modes]]\nname = "narrow"\ndefines = ["SIMD_WIDTH=128"]\n'
                '[[compiler.offcc.modes]]\nname = "tiny"\ndefines = ["SIMD_WIDTH=64"]\n'
            )
            for tag in ("amd", "nv", "x"):
                c["tree"][f"{tag}_inc/t.h"] = {"items": [["define", f"T_{tag.upper()}", "1"], ["code", 1]], "style": [0]}
            c["tree"]["off.c"] = {"items": [["include", "angle", "t.h"]] + [["chain", [["ifdef", f"T_{t}", [["code", 1]]]], [["code", 1]]] for t in ("AMD", "NV", "X")]
                                  + [["chain", [["if", ["cmp", "SIMD_WIDTH", "==", 512], [["code", 1]]], ["elif", ["cmp", "SIMD_WIDTH", "==", 128], [["code", 1]]]], [["code", 1]]]], "style": [0]}
            c["platforms"][draw(st.sampled_from(plist))].append({"file": "off.c", "defines": [], "dirs": [], "forced": [], "compiler": "offcc", "extra_flags": ["-foffload-targets=" + ",".join(draw(st.permutations(["amd", "nv", "x"]))[: draw(st.integers(2, 3))])] + list(draw(st.permutations(["-mwide", "-mnarrow", "-mtiny"]))[: draw(st.integers(0, 3))])})
        # a CUDA kernel compiled by several platforms for different architectures (the option that
        # replaces the default architecture is parsed once per command)
        if draw(st.booleans()):
            c["tree"]["cuda/k.cu"] = {"items": [["chain", [["if", ["and", ["defined", "__CUDA_ARCH__", True], ["cmp", "__CUDA_ARCH__", "==", 700]], [["code", 2]]], ["elif", ["defined", "__CUDA_ARCH__", True], [["code", 1]]]], [["code", 1]]], ["code", 1]], "style": [0]}
            archs = draw(st.permutations([["--gpu-code=sm_80"], ["--gpu-code=sm_90"], ["-gencode", "arch=compute_89,code=sm_89"], ["--gpu-architecture=compute_75", "--gpu-code=sm_75"]]))
            for pn, arch in zip(draw(st.permutations(plist)), archs[: draw(st.integers(2, 3))]):
                c["platforms"][pn].append({"file": "cuda/k.cu", "defines": [], "dirs": [], "forced": [], "extra_flags": arch})
        c["schedules"] = draw(st.lists(st.tuples(st.sampled_from([0, 1, 2, 3, "random"]), st.integers(0, 10**6), st.integers(0, 10**6)), min_size=3, max_size=3))
        return c

    return case()


def permuted(case, seed):
    def key(x):
        return hashlib.sha256((json.dumps(x, sort_keys=True) + str(seed)).encode()).hexdigest()

    c = json.loads(json.dumps(case))
    c["platforms"] = {p: sorted(cs, key=key) for p, cs in case["platforms"].items()}
    c["platform_order"] = sorted(case["platforms"], key=key)
    return c


def observe_all(case, root, hashseed, shuffle, permseed, top, tag, full):
    """-> dict of semantic outputs for one schedule"""
    c = permuted(case, permseed) if permseed is not None else case
    m = cbcase.materialise(c, root)
    out = {}
    rc, so, se = run_sched(hashseed, shuffle, "dump", [m["analysis"], m["dbs"][sorted(case["platforms"])[0]]], root)
    if rc != 0:
        return {"error": f"dump rc={rc} {se[-400:]}"}
    out["dump"] = json.loads(so)
    if full:
        rc, so, se = run_sched(hashseed, shuffle, "codebasin", [m["analysis"]], root)
        if rc != 0:
            return {"error": f"codebasin rc={rc} {se[-300:]} {so[-300:]}"}
        s = observe.parse_summary(so)
        out["summary"] = {"rows": sorted((sorted(k), v) for k, v in s["rows"].items()), "metrics": [s["divergence"], s["coverage"], s["avg_coverage"], s["total"]]}
        mat = {}
        sec = so.split("Distance Matrix:", 1)
        if len(sec) == 2:
            rows = [ln for ln in sec[1].splitlines() if ln.startswith("│")]
            if rows:
                hdr = [x.strip() for x in rows[0].strip("│").split("│")][1:]
                for ln in rows[1:]:
                    cells = [x.strip() for x in ln.strip("│").split("│")]
                    for h, v in zip(hdr, cells[1:]):
                        mat[f"{cells[0]}|{h}"] = v
        out["matrix"] = mat
        dsec = so.split("Duplicates", 1)[-1]
        groups, cur = [], None
        for ln in dsec.splitlines():
            if re.match(r"^Match \d+:", ln):
                cur = []
                groups.append(cur)
            elif ln.startswith("- ") and cur is not None:
                cur.append(os.path.relpath(ln[2:].strip(), root))
        out["dups_cli"] = sorted(sorted(g) for g in groups)
        out["raw_stdout_hash"] = hashlib.sha256(so.encode()).hexdigest()
        rc, so, se = run_sched(hashseed, shuffle, "tree", [m["analysis"]], root)
        if rc != 0:
            return {"error": f"cbi-tree rc={rc} {se[-300:]}"}
        legend, rows, bad = c06.parse_rows(so, root)
        out["tree"] = {"legend": legend, "rows": {k: [v["letters"], v["sloc"], v["cov"], v["avg"]] for k, v in rows.items()}}
        out["raw_tree_hash"] = hashlib.sha256(so.encode()).hexdigest()
        pname = sorted(case["platforms"])[0]
        covp = os.path.join(top, f"cov-{tag}.json")
        rc, so, se = run_sched(hashseed, shuffle, "cov", ["compute", "-S", root, "-o", covp, m["dbs"][pname]], root)
        if rc != 0:
            return {"error": f"cbi-cov rc={rc} {se[-300:]}"}
        with open(covp) as f:
            out["cov"] = {e["file"]: [e["id"], sorted(e["used_lines"]), sorted(e["unused_lines"])] for e in json.load(f)}
    return out


def check_case(case, res: Result, full=True):
    vs = []
    with core.Scratch("c14") as top:
        root = os.path.join(top, "cb")
        os.makedirs(root)
        cj = {"case": case}
        base = observe_all(case, root, 0, "none", None, top, "base", full)
        if "error" in base:
            if "ZeroDivisionError" in base["error"] or "float division" in base["error"]:
                res.discarded["no-counted-line"] += 1
                return []
            return [make_violation("front-end-failed", cj, "runs", base["error"])]
        byte_diffs = 0
        for i, (hs, shuf, perm) in enumerate(case["schedules"]):
            other = observe_all(case, root, hs, shuf, perm, top, f"s{i}", full)
            if "error" in other:
                vs.append(make_violation("front-end-failed-under-schedule", cj, "runs", {"schedule": [hs, shuf, perm], "error": other["error"]}))
                break
            # raw float metrics: summation order may differ in the last bits; compared with a 1e-9 tolerance
            bm, om = base["dump"].pop("metrics"), other["dump"].pop("metrics")
            for x, y in zip(bm, om):
                fx, fy = float(x), float(y)
                if not ((fx != fx and fy != fy) or abs(fx - fy) <= 1e-9 * max(1.0, abs(fx))):
                    vs.append(make_violation("schedule-dependent:metric-value", cj, bm, {"schedule": [hs, shuf, perm], "metrics": om}))
            base["dump"]["metrics"] = bm
            if vs:
                break
            for key in ("dump", "summary", "matrix", "dups_cli", "tree", "cov"):
                if key not in base:
                    continue
                bk = {k: v for k, v in base[key].items() if k != "metrics"} if key == "dump" else base[key]
                if bk != other.get(key):
                    sub = key
                    if key == "dump":
                        sub = "dump:" + ",".join(k for k in bk if bk[k] != other["dump"].get(k))
                    vs.append(make_violation(f"schedule-dependent:{sub}", cj, {"schedule": "hashseed=0, natural order", key: _short(base[key])}, {"schedule": [hs, shuf, perm], key: _short(other.get(key))}))
                    break
            if vs:
                break
            for k in ("raw_stdout_hash", "raw_tree_hash"):
                if k in base and base[k] != other.get(k):
                    byte_diffs += 1
        res.extra["byte_level_differences_not_violations"] = res.extra.get("byte_level_differences_not_violations", 0) + byte_diffs
        d = base["dump"]
        same_named = len({os.path.basename(f) for f in d["attr"]}) < len(d["attr"])
        nplat = len({p for k, v in d["setmap"] for p in k})
        nt = (same_named or len(d["dups"]) >= 2) and nplat >= 3
        res.case(key=[sorted(case["tree"]), case["platforms"], case["schedules"]], nontrivial=nt, sample={"files": sorted(d["attr"]), "schedules": case["schedules"], "duplicate_groups": d["dups"], "setmap": d["setmap"]} if nt else None, labels=[f"platforms={nplat}", f"dup-groups={min(len(d['dups']),3)}", "cli" if full else "dump-only"])
    return vs


def _short(o):
    s = json.dumps(o, sort_keys=True, default=str)
    return s if len(s) < 1500 else s[:1500] + "..."


def _shard(seed, n, known, full):
    core.setup_import_path()
    res = Result()
    core.hyp_search(case_strategy(), lambda c, r: check_case(c, r, full=full), n, seed, res, known_sigs=known, shrink=False)
    return res


def run(ctx):
    n = core.NPROC
    nfull, ndump = ctx.pick(8, 150), ctx.pick(96, 1500)
    jobs = [(ctx.shard_seed("full", i), max(1, nfull // 8), ctx.known_sigs, True) for i in range(8)]
    jobs += [(ctx.shard_seed("dump", i), max(1, ndump // 8), ctx.known_sigs, False) for i in range(8)]
    res = core.merge_results(core.pool_map(_shard, jobs))
    res.exhaustive = False
    return res


def replay(case):
    core.setup_import_path()
    return check_case(case["case"], Result(), full=True)
