"""C04 - #include resolution and attribution across files follow compiler
rules (DESIGN.md section 2, C04)."""

import os

from vlib import core, pp_check
from vlib.core import Result

PROP = "C04"
RULE = (
    "multi-directory trees (cb/src, cb/src/sub, cb/inc1, cb/inc2, cb/sys1 and ext/ outside the code base) in which the "
    "same header name exists in several directories with different bodies; quote, angle and computed includes nested up "
    "to the include-depth the guards allow; unguarded / #ifndef-guarded / #pragma once headers that define, undefine and "
    "test macros; commands with random sequences of -I/-isystem flags, -D sets and -include, turned into entries by "
    "codebasin's own argument parser. Oracle: reference model with the documented search rules (no memo) giving the "
    "platform set of every counted line of every code-base file; gcc -E with the same flags validates the model on marker "
    "lines (sampled and on every disagreement); cases with a reached missing header or any gcc diagnostic are discarded. "
    "Non-trivial: some include had >=2 candidate files, or one spelling resolved to >=2 files, or a header was entered "
    "twice in one translation unit; distinct by rendered tree+commands."
)
ASSUMPTIONS = [
    "gcc 12 is the reference for search order (-I before -isystem, a directory given both ways counts as system)",
    "gcc is run from the directory of the main file, so its working-directory rule for -include coincides with the quote-include rule",
    "attribution is compared for code-base files only; headers outside the code base matter through the macros they define",
]


def nontrivial(info):
    for (trace, entered) in info["traces"].values():
        by_sp = {}
        for includer, form, sp, resolved, ncand in trace:
            if ncand >= 2:
                return True
            if resolved:
                by_sp.setdefault(sp, set()).add(resolved)
        if any(len(v) >= 2 for v in by_sp.values()):
            return True
        if any(n >= 2 for n in entered.values()):
            return True
    return False


def check_case(case, res: Result, confirm="on-failure"):
    vs, info = pp_check.evaluate(case, res, confirm=confirm)
    if vs is None:
        return []
    if any(e[0] in ("missing", "missing-forced") for evs in info["events"].values() for e in evs):
        res.discarded["reached-missing-header"] += 1
        return []
    nt = nontrivial(info)
    nincl = sum(len(t[0]) for t in info["traces"].values())
    res.case(
        key=[info["texts"], case["platforms"]],
        nontrivial=nt,
        sample={"files": info["texts"], "platforms": case["platforms"]} if nincl >= 3 else None,
        labels=[f"includes-evaluated={min(nincl, 8)}", "forced" if any(c.get("forced") for cs in case["platforms"].values() for c in cs) else "no-forced"],
    )
    # signatures for this property: keep the kind, drop the long feature list
    for v in vs:
        v["signature"] = v["signature"].split("|")[0] + "|" + classify(case, info, v)
    return vs


def classify(case, info, v):
    """Name the include-resolution feature the (shrunk) case exercises."""
    feats = set()
    for (trace, entered) in info["traces"].values():
        by_sp = {}
        for includer, form, sp, resolved, ncand in trace:
            by_sp.setdefault(sp, set()).add((form, os.path.dirname(includer), resolved))
        for sp, uses in by_sp.items():
            if len({r for _, _, r in uses}) >= 2:
                if len({f for f, _, _ in uses}) >= 2:
                    feats.add("same-spelling-both-forms")
                if len({d for _, d, _ in uses}) >= 2:
                    feats.add("same-spelling-two-includer-dirs")
        if any(n >= 2 for n in entered.values()):
            feats.add("reentered-header")
    kinds = {k for cs in case["platforms"].values() for c in cs for k, _ in c.get("dirs", [])}
    if "isystem" in kinds:
        feats.add("isystem")
    if any(c.get("forced") for cs in case["platforms"].values() for c in cs):
        feats.add("forced")
    return ",".join(sorted(feats)) or "plain"


def _rand_shard(seed, n, known, confirm_every):
    core.setup_import_path()
    from vlib import gen_pp

    res = Result()
    cnt = [0]

    def chk(case, r):
        cnt[0] += 1
        return check_case(case, r, confirm="always" if cnt[0] % confirm_every == 0 else "on-failure")

    core.hyp_search(gen_pp.include_tree_cases(), chk, n, seed, res, known_sigs=known)
    return res


def run(ctx):
    n = core.NPROC
    nrand = ctx.pick(1600, 30000)
    jobs = [(ctx.shard_seed("rand", i), nrand // n, ctx.known_sigs, ctx.pick(8, 1)) for i in range(n)]
    res = core.merge_results(core.pool_map(_rand_shard, jobs))
    res.exhaustive = False
    return res


def replay(case):
    core.setup_import_path()
    res = Result()
    return check_case(case["case"], res, confirm="on-failure")
