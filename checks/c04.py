"""C04 - #include resolution and attribution across files follow compiler
rules (DESIGN.md section 2, C04)."""

import os

from vlib import core, pp_check
from vlib.core import Result

PROP = "C04"
RULE = (
    "multi-directory trees (cb/src, cb/src/sub, cb/inc1, cb/inc2, cb/sys1 and ext/ outside the code base) in which the "
    "same header name exists in several directories with different bodies; quote, angle and computed includes nested up "
    "to the include-depth the guards allow; unguarded / #ifndef-guarded / #pragma once headers that define, undefine and "
    "test macros; commands with random sequences of -I/-isystem flags, -D sets and -include, turned into entries by "
    "codebasin's own argument parser; a second family puts *directories* spelled like a header (cb/inc1/h.h/) into the "
    "searched directories where that header is absent - a compiler passes over them, the first existing *file* wins. Oracle: reference model with the documented search rules (no memo) giving the "
    "platform set of every counted line of every code-base file; gcc -E with the same flags validates the model on marker "
    "lines (sampled and on every disagreement); cases with a reached missing header or any gcc diagnostic are discarded. "
    "Non-trivial: some include had >=2 candidate files, or one spelling resolved to >=2 files, or a header was entered "
    "twice in one translation unit; distinct by rendered tree+commands."
)
ASSUMPTIONS = [
    "gcc 12 is the reference for search order (-I before -isystem, a directory given both ways counts as system)",
    "gcc is run from the directory of the main file, so its working-directory rule for -include coincides with the quote-include rule",
    "attribution is compared for code-base files only; headers outside the code base matter through the macros they define",
]


def nontrivial(info):
    for (trace, entered) in info["traces"].values():
        by_sp = {}
        for includer, form, sp, resolved, ncand in trace:
            if ncand >= 2:
                return True
            if resolved:
                by_sp.setdefault(sp, set()).add(resolved)
        if any(len(v) >= 2 for v in by_sp.values()):
            return True
        if any(n >= 2 for n in entered.values()):
            return True
    return False


def passed_dirs(case, info):
    """Include directives (model trace) whose search passed over a directory
    spelled like the header before reaching the file that a compiler opens:
    -> set of (spelling, directory that was passed over).  Statistics only; the
    expected attribution comes from the reference model, which asks the disk."""
    shadows = {os.path.normpath(x) for x in case.get("shadow_dirs", [])}
    out = set()
    if not shadows:
        return out
    root = os.path.realpath(info["root"])
    for (pname, i), (trace, entered) in info["traces"].items():
        dirs = [(k, os.path.normpath(d)) for k, d in case["platforms"][pname][i].get("dirs", [])]
        sysd = [d for k, d in dirs if k == "isystem"]
        search0 = [d for k, d in dirs if k == "I" and d not in sysd] + sysd
        for includer, form, sp, resolved, ncand in trace:
            if not resolved:
                continue
            search = ([os.path.relpath(os.path.dirname(includer), root)] if form == "quote" else []) + search0
            for d in search:
                p = os.path.normpath(os.path.join(d, sp))
                if p in shadows:
                    out.add((sp, p))
                elif os.path.realpath(os.path.join(root, p)) == resolved:
                    break
    return out


def check_case(case, res: Result, confirm="on-failure"):
    vs, info = pp_check.evaluate(case, res, confirm=confirm)
    if vs is None:
        return []
    if any(e[0] in ("missing", "missing-forced") for evs in info["events"].values() for e in evs):
        res.discarded["reached-missing-header"] += 1
        return []
    nt = nontrivial(info)
    passed = passed_dirs(case, info)
    nincl = sum(len(t[0]) for t in info["traces"].values())
    res.case(
        key=[info["texts"], case["platforms"], sorted(case.get("shadow_dirs", []))],
        nontrivial=nt or bool(passed),
        sample={"files": info["texts"], "platforms": case["platforms"]} if nincl >= 3 else None,
        labels=[f"includes-evaluated={min(nincl, 8)}", "forced" if any(c.get("forced") for cs in case["platforms"].values() for c in cs) else "no-forced"]
        + (["dir-spelled-like-header:" + ("passed-over" if passed else "not-reached")] if case.get("shadow_dirs") else []),
    )
    # signatures for this property: keep the kind, drop the long feature list
    for v in vs:
        v["signature"] = v["signature"].split("|")[0] + "|" + classify(case, info, v, passed)
    return vs


def classify(case, info, v, passed=()):
    """Name the include-resolution feature the (shrunk) case exercises."""
    feats = set()
    for (trace, entered) in info["traces"].values():
        by_sp = {}
        for includer, form, sp, resolved, ncand in trace:
            by_sp.setdefault(sp, set()).add((form, os.path.dirname(includer), resolved))
        for sp, uses in by_sp.items():
            if len({r for _, _, r in uses}) >= 2:
                if len({f for f, _, _ in uses}) >= 2:
                    feats.add("same-spelling-both-forms")
                if len({d for _, d, _ in uses}) >= 2:
                    feats.add("same-spelling-two-includer-dirs")
        if any(n >= 2 for n in entered.values()):
            feats.add("reentered-header")
    kinds = {k for cs in case["platforms"].values() for c in cs for k, _ in c.get("dirs", [])}
    if "isystem" in kinds:
        feats.add("isystem")
    if any(c.get("forced") for cs in case["platforms"].values() for c in cs):
        feats.add("forced")
    if passed:
        feats.add("dir-spelled-like-header")
    return ",".join(sorted(feats)) or "plain"


def _rand_shard(seed, n, known, confirm_every):
    core.setup_import_path()
    from vlib import gen_pp

    res = Result()
    cnt = [0]

    def chk(case, r):
        cnt[0] += 1
        return check_case(case, r, confirm="always" if cnt[0] % confirm_every == 0 else "on-failure")

    core.hyp_search(gen_pp.include_tree_cases(), chk, n, seed, res, known_sigs=known)
    return res


def shadow_dir_cases():
    """An include tree (same generator) in which some (directory, header name)
    pairs that hold no header get a *directory* of that name instead
    (cb/inc1/h.h/keep.txt).  gcc and the model (os.path.isfile on the real
    tree) pass over such an entry and open the next existing file."""
    from hypothesis import strategies as st

    from vlib import gen_pp

    @st.composite
    def case(draw):
        c = draw(gen_pp.include_tree_cases())
        free = [f"{d}/{n}" for d in gen_pp.HDR_DIRS for n in gen_pp.HDR_NAMES if f"{d}/{n}" not in c["tree"]]
        if not free:
            return c
        # mostly all of them (the more shadows the likelier one lies before the real header), sometimes a subset
        chosen = free if draw(st.integers(0, 2)) else draw(st.lists(st.sampled_from(free), min_size=1, max_size=len(free), unique=True))
        c["shadow_dirs"] = sorted(chosen)
        c["extra"] = {**c.get("extra", {}), **{f"{p}/keep.txt": "" for p in chosen}}
        return c

    return case()


def _shadow_shard(seed, n, known, confirm_every):
    core.setup_import_path()
    res = Result()
    cnt = [0]

    def chk(case, r):
        cnt[0] += 1
        return check_case(case, r, confirm="always" if cnt[0] % confirm_every == 0 else "on-failure")

    core.hyp_search(shadow_dir_cases(), chk, n, seed, res, known_sigs=known)
    return res


def run(ctx):
    n = core.NPROC
    nrand = ctx.pick(1600, 30000)
    jobs = [(ctx.shard_seed("rand", i), nrand // n, ctx.known_sigs, ctx.pick(8, 1)) for i in range(n)]
    res = core.merge_results(core.pool_map(_rand_shard, jobs))
    nsh = ctx.pick(320, 6000)
    jobs = [(ctx.shard_seed("shadow-dir", i), max(1, nsh // n), ctx.known_sigs, ctx.pick(4, 1)) for i in range(n)]
    res = core.merge_results([res] + core.pool_map(_shadow_shard, jobs))
    res.exhaustive = False
    return res


def replay(case):
    core.setup_import_path()
    res = Result()
    return check_case(case["case"], res, confirm="on-failure")
