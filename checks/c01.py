"""C01 - conditional inclusion matches what a real C preprocessor would do
(DESIGN.md section 2, C01)."""

import itertools

from vlib import core, pp_ast, pp_check
from vlib.core import Result

PROP = "C01"
RULE = (
    "single-file programs as ASTs (code markers, object-like #define/#undef, chains of #ifdef/#ifndef/#if/#elif/#else "
    "nested to depth 4) rendered with lexical variety, crossed with 1-3 platforms of -D assignments "
    "(undefined/-DN/-DN=/-DN=0/1/2/7). Exhaustive: every chain shape with <=K conditional directives (depth<=3, distinct "
    "defined(Xi) atoms, marker in every group) x all 2^K assignments, and the same shapes with #define/#undef of a later "
    "atom inserted at the start of each group. Oracle: reference preprocessor model on the AST giving the platform set of "
    "every counted line (code and directive lines); gcc -E marker survival validates the model (sampled, and on every "
    "disagreement); gcc-diagnosed programs are discarded. Non-trivial: has #elif, nesting>=2 or a #define/#undef inside a "
    "chain, and some line is skipped by some platform; distinct by rendered text+configuration."
)
ASSUMPTIONS = [
    "gcc 12 -E is the conforming preprocessor; programs on which it prints any diagnostic are outside the domain",
    "directive lines of reached chains are expected to be attributed (the statement says so); gcc cannot observe them, the model derives them from reachability of the opener",
    "the renderer's own notion of counted lines (markers and directive lines incl. continuation lines) is trusted for the simple constructs it emits",
]


def nontrivial(case, expected):
    f = pp_check.features(case)
    nested_define = False

    def walk(items, inside):
        nonlocal nested_define
        for it in items:
            if it[0] in ("define", "undef") and inside:
                nested_define = True
            if it[0] == "chain":
                for _, _, sub in it[1]:
                    walk(sub, True)
                if it[2]:
                    walk(it[2], True)

    for file in case["tree"].values():
        walk(file["items"], False)
    allp = frozenset(case["platforms"])
    skipped = any(ps != allp for exp in expected.values() for ps in exp.values())
    return ("elif" in f or "depth2" in f or "depth3" in f or "depth4" in f or nested_define) and skipped


def check_case(case, res: Result, confirm="on-failure"):
    vs, info = pp_check.evaluate(case, res, confirm=confirm)
    if vs is None:
        return []
    nt = nontrivial(case, info["expected"])
    f = pp_check.features(case)
    res.case(
        key=[info["texts"], case["platforms"]],
        nontrivial=nt,
        sample={"text": next(iter(info["texts"].values())), "platforms": case["platforms"]},
        labels=[x for x in f if x.startswith(("depth", "elif", "else", "cond:raw", "define-empty", "undef"))] + [f"platforms={len(case['platforms'])}"],
    )
    return vs


# ---------------------------------------------------------------- random part


def _rand_shard(seed, n, known, confirm_every):
    core.setup_import_path()
    from vlib import gen_pp

    res = Result()
    cnt = [0]

    def chk(case, r):
        cnt[0] += 1
        return check_case(case, r, confirm="always" if cnt[0] % confirm_every == 0 else "on-failure")

    core.hyp_search(gen_pp.single_file_cases(), chk, n, seed, res, known_sigs=known)
    return res


# ---------------------------------------------------------------- exhaustive shapes


def forests(n, depth):
    """all lists of chains using exactly n conditional directives"""
    if n == 0:
        yield []
        return
    if depth == 0:
        return
    for first in range(1, n + 1):
        for ch in chains(first, depth):
            for rest in forests(n - first, depth):
                yield [ch] + rest


def chains(n, depth):
    """all chains using exactly n conditional directives (own groups + nested)"""
    for g in range(1, n + 1):  # number of conditional groups (#if + #elif*)
        for has_else in (False, True):
            slots = g + (1 if has_else else 0)
            for dist in compositions(n - g, slots):
                for subs in itertools.product(*[list(forests(k, depth - 1)) for k in dist]):
                    yield (g, has_else, subs)


def compositions(total, slots):
    if slots == 0:
        if total == 0:
            yield ()
        return
    for k in range(total + 1):
        for rest in compositions(total - k, slots - 1):
            yield (k,) + rest


def shape_to_items(forest, counter, inject=None):
    """Turn a shape into AST items with distinct atoms X0.. and a marker line
    in every group and between chains.  inject=(group_index, kind, atom)."""
    items = [["code", 1]]
    for g, has_else, subs in forest:
        groups = []
        for gi in range(g):
            i = counter[0]
            counter[0] += 1
            name = f"X{i}"
            kind = "if" if gi == 0 else "elif"
            if gi == 0 and i % 3 == 1:
                kind, cond = "ifdef", name
            else:
                cond = ["defined", name, i % 2 == 0]
            body = [["code", 1]]
            grp_id = counter[1]
            counter[1] += 1
            if inject and inject[0] == grp_id:
                body = [[inject[1], inject[2]] + (["1"] if inject[1] == "define" else [])] + body
            body += shape_to_items(subs[gi], counter, inject)[1:]
            groups.append([kind, cond, body])
        els = None
        if has_else:
            grp_id = counter[1]
            counter[1] += 1
            els = [["code", 1]]
            if inject and inject[0] == grp_id:
                els = [[inject[1], inject[2]] + (["1"] if inject[1] == "define" else [])] + els
            els += shape_to_items(subs[g], counter, inject)[1:]
        items.append(["chain", groups, els])
        items.append(["code", 1])
    return items


def count_groups(forest):
    n = 0
    for g, has_else, subs in forest:
        n += g + (1 if has_else else 0)
        for s in subs:
            n += count_groups(s)
    return n


def _shape_cases(k, depth, with_inject):
    for forest in forests(k, depth):
        yield forest, None
        if with_inject:
            ng = count_groups(forest)
            for grp in range(ng):
                for atom in range(1, k):
                    for kind in ("define", "undef"):
                        yield forest, (grp, kind, f"X{atom}")


def _shapes_shard(shard, nshards, kmax, kinject, known, gcc_every):
    core.setup_import_path()
    res = Result()
    idx = 0
    for k in range(1, kmax + 1):
        for forest, inject in _shape_cases(k, 3, k <= kinject):
            idx += 1
            if idx % nshards != shard:
                continue
            items = shape_to_items(forest, [0, 0], inject)
            plats = {}
            for bits in itertools.product([0, 1], repeat=k):
                pname = "p" + "".join(map(str, bits))
                plats[pname] = [{"file": "main.c", "defines": [f"X{i}" for i, b in enumerate(bits) if b]}]
            case = {"tree": {"main.c": {"items": items, "style": [0]}}, "platforms": plats, "plain": True}
            vs = check_case(case, res, confirm="always" if (idx // nshards) % gcc_every == 0 else "on-failure")
            res.labels[f"shape:k={k}" + (":inject" if inject else "")] += 1
            for v in vs:
                if v["signature"] in known:
                    res.suppressed[v["signature"]] += 1
                else:
                    res.violation(**v)
            if len(res.violations) >= 5:
                return res
    return res


def _dispatch(job):
    fn, a = job
    return fn(*a)


def run(ctx):
    known = ctx.known_sigs
    n = core.NPROC
    kmax, kinj = ctx.pick((4, 3), (5, 4))
    jobs = [(_shapes_shard, (i, n, kmax, kinj, known, ctx.pick(25, 1))) for i in range(n)]
    nrand = ctx.pick(3200, 100000)
    jobs += [(_rand_shard, (ctx.shard_seed("rand", i), nrand // n, known, ctx.pick(10, 1))) for i in range(n)]
    res = core.merge_results(core.pool_map(_dispatch, [(j,) for j in jobs]))
    res.exhaustive = False
    res.extra["exhaustive_part"] = f"all chain shapes with <= {kmax} conditional directives, depth <= 3, x all 2^k -D assignments (as 2^k platforms in one analysis); define/undef injection for shapes with <= {kinj}"
    return res


def replay(case):
    core.setup_import_path()
    res = Result()
    vs, info = pp_check.evaluate(case["case"], res, confirm="on-failure")
    return vs or []
