#!/venv/bin/python
"""Single entry point of the verification framework.

    run_check.py <Cxx> [--tier quick|thorough] [--replay FILE]

exit 0  the property held on everything explored (KNOWN-FINDING lines allowed)
exit 1  + a line `VIOLATION property=<id> replay=<path>` for an unlisted violation
exit 2  harness / oracle / adapter error (never prints the word for exit 1)
"""

import argparse
import importlib
import json
import os
import sys
import time
import traceback

if os.environ.get("PYTHONHASHSEED") != "0":
    # hash randomisation must not influence any generated choice
    os.environ["PYTHONHASHSEED"] = "0"
    os.execv(sys.executable, [sys.executable] + sys.argv)
for _v in ("OMP_NUM_THREADS", "OPENBLAS_NUM_THREADS", "MKL_NUM_THREADS", "NUMEXPR_NUM_THREADS"):
    os.environ.setdefault(_v, "1")
HERE = os.path.dirname(os.path.abspath(__file__))
sys.path.insert(0, HERE)

from vlib import core  # noqa: E402


def run_demo(path):
    """A regression given as a standalone program (hunt/<Cxx>/demoK.py): it takes
    the package from PYTHONPATH, builds its own input, compares with a reference
    and exits non-zero while the defect exists.  -> list of violations"""
    import subprocess
    import tempfile

    env = dict(os.environ, PYTHONPATH=core.REPO, PYTHONWARNINGS="ignore", PYTHONHASHSEED="0")
    with tempfile.TemporaryDirectory(dir=core.scratch_base()) as cwd:
        env["TMPDIR"] = cwd  # whatever the demo creates with tempfile goes away with this directory
        try:
            p = subprocess.run([sys.executable, os.path.abspath(path)], cwd=cwd, env=env, stdout=subprocess.PIPE, stderr=subprocess.STDOUT, text=True, errors="replace", timeout=300)
        except subprocess.TimeoutExpired:
            raise core.HarnessError(f"demo {path} timed out")
    if p.returncode == 0:
        return []
    return [core.make_violation("demo:" + os.path.basename(os.path.dirname(path)) + "/" + os.path.basename(path), {"demo": path}, "exit 0", f"exit {p.returncode}: {p.stdout[-400:]}")]


def replay_any(mod, rp):
    if rp.endswith(".py"):
        return run_demo(rp)
    with open(rp) as f:
        body = json.load(f)
    return mod.replay(body["case"])


def main():
    ap = argparse.ArgumentParser()
    ap.add_argument("prop")
    ap.add_argument("--tier", default=os.environ.get("VERIF_TIER", "quick"), choices=["quick", "thorough"])
    ap.add_argument("--replay")
    args = ap.parse_args()
    prop = args.prop.upper()
    seed = int(os.environ.get("VERIF_SEED", "1") or "1")

    os.environ["VERIF_TIER"] = args.tier
    core.setup_import_path()
    try:
        mod = importlib.import_module(f"checks.{prop.lower()}")
    except Exception:
        print(f"HARNESS-ERROR cannot import check for {prop}:\n{traceback.format_exc()}")
        return 2

    if args.replay:
        try:
            vs = replay_any(mod, args.replay)
        except core.HarnessError as e:
            print(f"HARNESS-ERROR {e}")
            return 2
        if vs:
            for v in vs:
                print(f"replay still fails: signature={v['signature']} expected={v.get('expected')} observed={v.get('observed')}")
            print(f"VIOLATION property={prop} replay={args.replay}")
            return 1
        print(f"replay passes: {args.replay}")
        return 0

    t0 = time.time()
    ctx = core.Ctx(prop, args.tier, seed)
    out_lines = []
    nviol = 0
    try:
        # ---- replay tier: committed regressions of known / fixed findings
        replayed = []
        for ent in core.load_findings(prop):
            rp = os.path.join(HERE, ent["replay"])
            vs = replay_any(mod, rp)
            sigs = sorted({v["signature"] for v in vs})
            replayed.append({"id": ent["id"], "status": ent["status"], "fails": bool(vs), "signatures": sigs})
            if ent["status"] == "known":
                if vs and ent["signature"] in sigs:
                    ctx.known[ent["signature"]] = ent
                    out_lines.append(f"KNOWN-FINDING: property={prop} {ent['what_fails']}")
                    other = [s for s in sigs if s != ent["signature"]]
                    if other:
                        # the committed replay now fails in an additional way
                        pass
            elif ent["status"] == "fixed":
                if vs:
                    nviol += 1
                    out_lines.append(f"fixed finding {ent['id']} fails again: {sigs}")
                    out_lines.append(f"VIOLATION property={prop} replay={rp}")
        # ---- generated search
        res = mod.run(ctx)
        res.extra["replayed_findings"] = replayed
        unknown = []
        for v in res.violations:
            if v["signature"] in ctx.known:
                res.suppressed[v["signature"]] += 1
            else:
                unknown.append(v)
        seen = set()
        for v in unknown:
            if v["signature"] in seen:
                continue
            seen.add(v["signature"])
            nviol += 1
            path = core.write_replay(prop, v, args.tier, seed)
            out_lines.append(
                f"violation signature={v['signature']} expected={json.dumps(v.get('expected'))[:300]} "
                f"observed={json.dumps(v.get('observed'))[:300]} note={v.get('note','')[:200]}"
            )
            out_lines.append(f"VIOLATION property={prop} replay={path}")
        if core.SHARD_ERRORS:
            if not nviol:
                raise core.HarnessError(f"{len(core.SHARD_ERRORS)} shard(s) failed; first: {core.SHARD_ERRORS[0]}")
            out_lines.append(f"note: {len(core.SHARD_ERRORS)} shard(s) of this check ended with a harness error (last line: {str(core.SHARD_ERRORS[0]).strip().splitlines()[-1][:200]}); violations found by the other shards are reported")
            res.extra["shard_errors"] = len(core.SHARD_ERRORS)
        nd = res.extra.get("oracle_disagreements", 0)
        if nd:
            out_lines.append(f"note: {nd} case(s) dropped because reference model and real tool disagree (see evidence)")
            if nd > 20 and nd > 0.01 * max(1, res.evaluations):
                raise core.HarnessError(f"{nd} model/tool disagreements: the oracle of this check cannot be trusted")
        wall = time.time() - t0
        core.write_evidence(
            prop, args.tier, seed, res, mod.RULE, mod.ASSUMPTIONS, wall, nviol,
            extra_cov={"active_known_findings": sorted(e["id"] for e in ctx.known.values())},
        )
    except core.HarnessError as e:
        print("\n".join(out_lines))
        print(f"HARNESS-ERROR {prop}: {e}")
        return 2
    except Exception:
        print("\n".join(out_lines))
        print(f"HARNESS-ERROR {prop}: unexpected exception\n{traceback.format_exc()}")
        return 2

    for line in out_lines:
        print(line)
    print(
        f"{prop} tier={args.tier} seed={seed} evaluations={res.evaluations} "
        f"distinct_nontrivial={res.distinct_nontrivial} violations={nviol} "
        f"suppressed={sum(res.suppressed.values())} wall={wall:.1f}s"
    )
    return 1 if nviol else 0


if __name__ == "__main__":
    sys.exit(main())
