"""Hypothesis strategies for preprocessor programs (DESIGN.md 6.1)."""

from hypothesis import strategies as st

NAMES = ["A", "B", "C", "D"]
BODIES = ["", "0", "1", "2", "7"]


def conds(names=NAMES, raw=True):
    nm = st.sampled_from(list(names) + ["E", "F"])
    atoms = [
        st.builds(lambda n, p: ["defined", n, p], nm, st.booleans()),
        st.builds(lambda n, p: ["not", ["defined", n, p]], nm, st.booleans()),
        st.builds(lambda n, op, k: ["cmp", n, op, k], nm, st.sampled_from(["==", ">", "!=", "<"]), st.sampled_from([0, 1, 2, 7])),
        st.sampled_from([["const", 0], ["const", 1]]),
    ]
    if raw:
        atoms.append(st.builds(lambda n: ["raw", n], nm))
    atom = st.one_of(*atoms)
    return st.recursive(
        atom,
        lambda c: st.one_of(
            st.builds(lambda a, b: ["and", a, b], c, c),
            st.builds(lambda a, b: ["or", a, b], c, c),
            st.builds(lambda a: ["not", ["par", a]], c),
        ),
        max_leaves=4,
    )


def bodies(names=NAMES):
    return st.one_of(st.sampled_from(BODIES), st.sampled_from(BODIES), st.sampled_from(names))


def simple_items(names=NAMES):
    nm = st.sampled_from(names)
    return st.one_of(
        st.builds(lambda n: [["code", n]], st.integers(1, 3)),
        st.builds(lambda n: [["code", n]], st.integers(1, 2)),
        st.builds(lambda n, b: [["undef", n], ["define", n, b]], nm, bodies(names)),
        st.builds(lambda n, b: [["undef", n], ["define", n, b]], nm, bodies(names)),
        # lone defines (no preceding #undef) use names that are never given with -D and always the same
        # body, so that gcc cannot diagnose an incompatible redefinition
        st.sampled_from([[["define", "E", "1"]], [["define", "F", ""]], [["undef", "E"]], [["undef", "F"]], [["define", "E", "1"]]]),
        st.builds(lambda n: [["undef", n]], nm),
    )


def item_lists(depth, names=NAMES, extra=None, max_items=4, raw=True):
    """list of items, chains nested up to `depth`"""
    base = [simple_items(names)]
    if extra is not None:
        base.append(extra)
    if depth <= 0:
        one = st.one_of(*base)
    else:
        sub = st.deferred(lambda: item_lists(depth - 1, names, extra, max_items=3, raw=raw))
        nm = st.sampled_from(list(names) + ["E", "F"])
        c = conds(names, raw)
        opener = st.one_of(
            st.tuples(st.just("ifdef"), nm),
            st.tuples(st.just("ifndef"), nm),
            st.tuples(st.just("if"), c),
            st.tuples(st.just("if"), c),
        )
        chain = st.builds(
            lambda op, first, elifs, els: [["chain", [[op[0], op[1], first]] + [["elif", ec, ei] for ec, ei in elifs], els]],
            opener,
            sub,
            st.lists(st.tuples(c, sub), max_size=2),
            st.one_of(st.none(), sub),
        )
        one = st.one_of(*base, chain, chain)
    return st.lists(one, min_size=0, max_size=max_items).map(lambda ls: [x for l in ls for x in l])


def styles():
    return st.lists(st.integers(0, 1000), min_size=1, max_size=12)


def define_sets(names=NAMES):
    """one -D assignment per name: undefined / -DN / -DN= / -DN=0 / -DN=1 / -DN=7"""
    choice = st.sampled_from([None, None, "{n}", "{n}=", "{n}=0", "{n}=1", "{n}=7", "{n}=2"])
    return st.tuples(*[choice for _ in names]).map(lambda cs: [c.format(n=n) for n, c in zip(names, cs) if c is not None])


def single_file_cases(depth=4, names=NAMES):
    @st.composite
    def case(draw):
        items = draw(item_lists(depth, names, max_items=5))
        fname = draw(st.sampled_from(["main.c", "main.cpp", "src/main.c", "main.h"]))
        nplat = draw(st.integers(1, 3))
        plats = {}
        for i in range(nplat):
            ncmd = draw(st.sampled_from([1, 1, 1, 2]))
            plats[f"p{i}"] = [{"file": fname, "defines": draw(define_sets(names))} for _ in range(ncmd)]
        return {"tree": {fname: {"items": items, "style": draw(styles())}}, "platforms": plats, "plain": draw(st.sampled_from([False, False, True]))}

    return case()
