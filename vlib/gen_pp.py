"""Hypothesis strategies for preprocessor programs (DESIGN.md 6.1)."""

from hypothesis import strategies as st

NAMES = ["A", "B", "C", "D"]
BODIES = ["", "0", "1", "2", "7", "0x0", "00", "0L", "0u", "0x1", "1UL", "007", "0b10"]


def conds(names=NAMES, raw=True):
    nm = st.sampled_from(list(names) + ["E", "F"])
    atoms = [
        st.builds(lambda n, p: ["defined", n, p], nm, st.booleans()),
        st.builds(lambda n, p: ["not", ["defined", n, p]], nm, st.booleans()),
        st.builds(lambda n, op, k: ["cmp", n, op, k], nm, st.sampled_from(["==", ">", "!=", "<"]), st.sampled_from([0, 1, 2, 7])),
        st.sampled_from([["const", 0], ["const", 1]]),
    ]
    if raw:
        atoms.append(st.builds(lambda n: ["raw", n], nm))
    atom = st.one_of(*atoms)
    return st.recursive(
        atom,
        lambda c: st.one_of(
            st.builds(lambda a, b: ["and", a, b], c, c),
            st.builds(lambda a, b: ["or", a, b], c, c),
            st.builds(lambda a: ["not", ["par", a]], c),
        ),
        max_leaves=4,
    )


def bodies(names=NAMES):
    return st.one_of(st.sampled_from(BODIES), st.sampled_from(BODIES), st.sampled_from(names))


def simple_items(names=NAMES):
    nm = st.sampled_from(names)
    return st.one_of(
        st.builds(lambda n: [["code", n]], st.integers(1, 3)),
        st.builds(lambda n: [["code", n]], st.integers(1, 2)),
        st.builds(lambda n, b: [["undef", n], ["define", n, b]], nm, bodies(names)),
        st.builds(lambda n, b: [["undef", n], ["define", n, b]], nm, bodies(names)),
        # lone defines (no preceding #undef) use names that are never given with -D and always the same
        # body, so that gcc cannot diagnose an incompatible redefinition
        st.sampled_from([[["define", "E", "1"]], [["define", "F", ""]], [["undef", "E"]], [["undef", "F"]], [["define", "E", "1"]]]),
        st.builds(lambda n: [["undef", n]], nm),
    )


def item_lists(depth, names=NAMES, extra=None, max_items=4, raw=True, cond_strategy=None):
    """list of items, chains nested up to `depth`; `cond_strategy` overrides the
    strategy for #if/#elif conditions (e.g. to repeat spellings within a program)"""
    base = [simple_items(names)]
    if extra is not None:
        base.append(extra)
    if depth <= 0:
        one = st.one_of(*base)
    else:
        sub = st.deferred(lambda: item_lists(depth - 1, names, extra, max_items=3, raw=raw, cond_strategy=cond_strategy))
        nm = st.sampled_from(list(names) + ["E", "F"])
        c = cond_strategy if cond_strategy is not None else conds(names, raw)
        opener = st.one_of(
            st.tuples(st.just("ifdef"), nm),
            st.tuples(st.just("ifndef"), nm),
            st.tuples(st.just("if"), c),
            st.tuples(st.just("if"), c),
        )
        chain = st.builds(
            lambda op, first, elifs, els: [["chain", [[op[0], op[1], first]] + [["elif", ec, ei] for ec, ei in elifs], els]],
            opener,
            sub,
            st.lists(st.tuples(c, sub), max_size=2),
            st.one_of(st.none(), sub),
        )
        one = st.one_of(*base, chain, chain)
    return st.lists(one, min_size=0, max_size=max_items).map(lambda ls: [x for l in ls for x in l])


def revisit_blocks(names=NAMES):
    """The same condition spelled identically before and after a macro state change:
    chain(c) ; #define/#undef of the macro c depends on ; chain(c)."""
    nm = st.sampled_from(list(names) + ["E", "F"])

    def build(n, form, k, change, body, first_kind):
        if form == "raw":
            c = ["raw", n]
        elif form == "defined":
            c = ["defined", n, True]
        elif form == "not":
            c = ["not", ["par", ["cmp", n, "==", k]]]
        else:
            c = ["cmp", n, form, k]
        if n in ("E", "F"):
            chg = [["define", n, "1" if n == "E" else ""]] if change != "undef" else [["undef", n]]
        elif change == "undef":
            chg = [["undef", n]]
        else:
            chg = [["undef", n], ["define", n, body]]
        first = ["chain", [["if", c, [["code", 1]]]], [["code", 1]]]
        second = ["chain", [["if", ["const", 0], [["code", 1]]], ["elif", c, [["code", 1]]]], [["code", 1]]] if first_kind else ["chain", [["if", c, [["code", 1]]]], None]
        return [first] + chg + [second]

    return st.builds(build, nm, st.sampled_from(["raw", "==", ">", "!=", "defined", "not"]), st.sampled_from([0, 1, 2, 7]), st.sampled_from(["define", "define", "undef"]), st.sampled_from(["0", "1", "2", "7"]), st.booleans())


def styles():
    return st.lists(st.integers(0, 1000), min_size=1, max_size=12)


def define_sets(names=NAMES):
    """one -D assignment per name: undefined / -DN / -DN= / -DN=0 / -DN=1 / -DN=7"""
    choice = st.sampled_from([None, None, "{n}", "{n}=", "{n}=0", "{n}=1", "{n}=7", "{n}=2", "{n}=0L", "{n}=0x0", "{n}=1u", "{n}=00"])
    return st.tuples(*[choice for _ in names]).map(lambda cs: [c.format(n=n) for n, c in zip(names, cs) if c is not None])


def single_file_cases(depth=4, names=NAMES):
    @st.composite
    def case(draw):
        # a small pool of conditions per program, so that identical spellings are evaluated
        # several times under different macro states
        pool = draw(st.lists(conds(names), min_size=1, max_size=3))
        cs = st.one_of(st.sampled_from(pool), st.sampled_from(pool), conds(names)) if draw(st.booleans()) else None
        items = draw(item_lists(depth, names, max_items=5, cond_strategy=cs))
        if draw(st.integers(0, 2)) == 0:
            blk = draw(revisit_blocks(names))
            pos = draw(st.integers(0, len(items)))
            if draw(st.booleans()):
                items[pos:pos] = blk
            else:  # nested inside a group that every platform takes
                items[pos:pos] = [["chain", [["if", ["const", 1], blk]], None]]
        if draw(st.integers(0, 3)) == 0:
            # a group that is always skipped may hold conditionals with a malformed operand (compilers
            # only track the directive names there) and stray backslashes
            junk = draw(st.sampled_from([[["unknown", "ifdef", "(X)"], ["code", 1], ["unknown", "endif", ""]],
                                         [["unknown", "ifndef", "0"], ["code", 1], ["unknown", "else", ""], ["code", 1], ["unknown", "endif", ""]],
                                         [["unknown", "ifdef", ""], ["unknown", "endif", ""]]]))
            pos = draw(st.integers(0, len(items)))
            items[pos:pos] = [["chain", [["if", ["const", 0], junk]], draw(st.sampled_from([None, [["code", 1]]]))]]
        fname = draw(st.sampled_from(["main.c", "main.cpp", "src/main.c", "main.h"]))
        nplat = draw(st.integers(1, 3))
        plats = {}
        for i in range(nplat):
            ncmd = draw(st.sampled_from([1, 1, 1, 2]))
            plats[f"p{i}"] = [{"file": fname, "defines": draw(define_sets(names))} for _ in range(ncmd)]
        return {"tree": {fname: {"items": items, "style": draw(styles())}}, "platforms": plats, "plain": draw(st.sampled_from([False, False, True]))}

    return case()


# ---------------------------------------------------------------- multi-directory trees (C04, C18, C08, C10)

HDR_NAMES = ["h.h", "k.h", "u.h"]
CB = "cb"
HDR_DIRS = [f"{CB}/src", f"{CB}/src/sub", f"{CB}/inc1", f"{CB}/inc2", f"{CB}/sys1", "ext", CB]
INC_DIRS = [f"{CB}/inc1", f"{CB}/inc2", f"{CB}/sys1", f"{CB}/src/sub", "ext", f"{CB}/src"]


def include_items(quote_ok=None, angle_ok=None, dangling=None):
    """an include directive (quote / angle / computed through a macro) whose
    spelling is drawn from the names known to resolve in that form"""
    quote_ok = sorted(quote_ok if quote_ok is not None else HDR_NAMES)
    angle_ok = sorted(angle_ok if angle_ok is not None else HDR_NAMES)
    opts = []
    if quote_ok:
        opts += [st.tuples(st.just("quote"), st.sampled_from(quote_ok))] * 2
    if angle_ok:
        opts += [st.tuples(st.just("angle"), st.sampled_from(angle_ok))]
    if dangling:
        opts += [st.tuples(st.sampled_from(["quote", "angle"]), st.sampled_from(dangling))]
    if not opts:
        return None
    fs = st.one_of(*opts)
    plain = fs.map(lambda x: [["include", x[0], x[1]]])
    computed = st.builds(
        lambda x, i: [["undef", f"INC{i}"], ["define", f"INC{i}", f'"{x[1]}"' if x[0] == "quote" else f"<{x[1]}>"], ["include", "macro", f"INC{i}"]],
        fs, st.integers(0, 1),
    )
    return st.one_of(plain, plain, plain, computed)


def header_files(idx, names=NAMES, include_strategy=None, depth=2, selfname=None, unknown=None):
    """A header: unguarded (leaf), #ifndef-guarded, #pragma once, or "two-pass":
    a header that includes itself once and takes its #else branch the second time."""
    @st.composite
    def hdr(draw):
        guard = draw(st.sampled_from(["none", "ifndef", "once", "ifndef"] + (["twopass"] if selfname else [])))
        extra = include_strategy if guard != "none" else None
        if unknown is not None:
            extra = unknown if extra is None else st.one_of(extra, extra, extra, unknown)
        body = draw(item_lists(depth, names, extra=extra, max_items=4, raw=False))
        if not any(it[0] == "code" for it in body):
            body = [["code", 1]] + body
        if guard == "ifndef":
            g = f"GUARD_{idx}"
            items = [["chain", [["ifndef", g, [["define", g, ""]] + body]], None]]
        elif guard == "twopass":
            g = f"PASS2_{idx}"
            second = draw(item_lists(1, names, extra=None, max_items=3, raw=False))
            pre = draw(st.booleans())
            items = ([["code", 1]] if pre else []) + [["chain", [["ifndef", g, [["define", g, ""]] + body + [["include", "quote", selfname]] + [["code", 1]]]], [["code", 1]] + second]]
        elif guard == "once":
            items = [["once"]] + body
        else:
            items = body
        return {"items": items, "style": draw(styles())}

    return hdr()


def include_tree_cases(dangling=None, unknown=None):
    @st.composite
    def case(draw):
        present = set()
        for d in HDR_DIRS:
            for n in HDR_NAMES:
                if draw(st.integers(0, 99)) >= 45:
                    present.add((d, n))
        mains = ["cb/src/main.c"] + (["cb/src/sub/other.cpp"] if draw(st.booleans()) else [])
        plats = {}
        all_dirsets = []
        for i in range(draw(st.integers(1, 2))):
            cmds = []
            for _ in range(draw(st.sampled_from([1, 1, 2]))):
                dirs = draw(st.lists(st.tuples(st.sampled_from(["I", "I", "isystem"]), st.sampled_from(INC_DIRS)), min_size=0, max_size=5))
                all_dirsets.append({d for _, d in dirs})
                cmds.append({"file": draw(st.sampled_from(mains)), "defines": draw(define_sets()), "dirs": [list(x) for x in dirs], "forced": []})
            plats[f"p{i}"] = cmds
        common = set.intersection(*all_dirsets) if all_dirsets else set()
        angle_ok = {n for n in HDR_NAMES if any((d, n) in present for d in common)}
        angle_ok |= {"sub/" + n for n in HDR_NAMES if f"{CB}/src" in common and (f"{CB}/src/sub", n) in present}

        def quote_ok(d):
            ok = set(angle_ok) | {n for n in HDR_NAMES if (d, n) in present}
            if d == f"{CB}/src":
                ok |= {"sub/" + n for n in HDR_NAMES if (f"{CB}/src/sub", n) in present}
            return ok

        tree = {}
        k = 0
        for d in HDR_DIRS:
            for n in HDR_NAMES:
                if (d, n) in present:
                    tree[f"{d}/{n}"] = draw(header_files(k, include_strategy=include_items(quote_ok(d), angle_ok, dangling), selfname=n, unknown=unknown))
                k += 1
        for m in mains:
            mdir = m.rsplit("/", 1)[0]
            extra = include_items(quote_ok(mdir), angle_ok, dangling)
            if unknown is not None:
                extra = unknown if extra is None else st.one_of(extra, extra, unknown)
            items = draw(item_lists(2, NAMES, extra=extra, max_items=6, raw=False))
            inc = include_items(quote_ok(mdir), angle_ok, dangling)
            if inc is not None and not any(it[0] == "include" for it in items):
                items = items + draw(inc)
            tree[m] = {"items": items, "style": draw(styles())}
        # a selector header whose computed #include is reached several times with different expansions:
        # re-included after SEL was redefined, or by commands that pass different -DSEL=...
        qmain = sorted(n for n in quote_ok(f"{CB}/src") if "/" not in n)
        if len(qmain) >= 1 and draw(st.integers(0, 2)) == 0:
            tree[f"{CB}/src/sel.h"] = {"items": [["code", 1], ["include", "macro", "SEL"], ["code", 1]], "style": draw(styles())}
            a = draw(st.sampled_from(qmain))
            b = draw(st.sampled_from(qmain))
            m = tree["cb/src/main.c"]
            if draw(st.booleans()):
                m["items"] = [["undef", "SEL"], ["define", "SEL", f'"{a}"'], ["include", "quote", "sel.h"], ["undef", "SEL"], ["define", "SEL", f'"{b}"'], ["include", "quote", "sel.h"]] + m["items"]
            else:
                m["items"] = [["include", "quote", "sel.h"]] + m["items"]
                for cmds in plats.values():
                    for c in cmds:
                        c["file"] = "cb/src/main.c"
                        c["defines"] = [d for d in c["defines"] if not d.startswith("SEL")] + [f'SEL="{draw(st.sampled_from([a, b]))}"']
        for cmds in plats.values():
            for c in cmds:
                # (found along the include directories; a name that only exists beside the main file is not found)
                fo = sorted(angle_ok) * 3 + sorted(quote_ok(c["file"].rsplit("/", 1)[0]))
                if fo and draw(st.integers(0, 5)) == 0:
                    # one or two forced includes, possibly the same header twice (include-once must hold)
                    c["forced"] = [draw(st.sampled_from(fo)) for _ in range(draw(st.sampled_from([1, 1, 2])))]
        # a system header that silently redefines a macro the program (or -D) already defined
        if draw(st.integers(0, 3)) == 0:
            nm = draw(st.sampled_from(NAMES))
            tree["sysre/redef.h"] = {"items": [["define", nm, draw(st.sampled_from(["5", "0", "1"]))], ["code", 1]], "style": [0]}
            m = tree["cb/src/main.c"]
            m["items"] = m["items"][:1] + [["include", "angle", "redef.h"], ["chain", [["if", ["cmp", nm, "==", 5], [["code", 1]]]], [["code", 1]]]] + m["items"][1:]
            for cmds in plats.values():
                for c in cmds:
                    c["dirs"] = c["dirs"] + [["isystem", "sysre"]]
        return {"tree": tree, "platforms": plats, "cbroot": CB, "via_argparser": True, "plain": draw(st.sampled_from([False, True]))}

    return case()
