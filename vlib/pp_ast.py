"""Generator-level AST of C preprocessor programs, its renderer to text, and
the reference preprocessor model working on the AST (DESIGN.md 6.1 / 6.2).

Items (JSON-able lists):
  ["code", n]                          n marker lines  M_<fid>_<line>;
  ["define", name, body]               object-like; body is text ("" = empty)
  ["fdefine", name, params, body]      function-like (used by C08/C10 generators)
  ["undef", name]
  ["include", form, spelling]          form: "quote" | "angle" | "macro"
  ["once"]
  ["unknown", name, rest]              #name rest   (unrecognised directive)
  ["chain", [[kind, cond, items]...], else_items | None]
        kind: "ifdef" | "ifndef" | "if" | "elif"
        cond: name (ifdef/ifndef) or condition AST (if/elif):
          ["defined", N, paren] ["not", c] ["cmp", N, op, k] ["and", a, b]
          ["or", a, b] ["const", v] ["raw", N] ["par", c] ["call", F, arg, op, k]
A file is {"items": [...], "style": [ints]}; a tree maps relpath -> file.
"""

import os

EXEMPT_UNKNOWN = ("line", "warning", "error")


def parse_c_int(text):
    """value of a (possibly negated) C integer literal in any base / with any suffix, else None"""
    t = text.strip()
    neg = t.startswith("-")
    t = t.lstrip("-").strip()
    digits = t.rstrip("uUlL")
    if not digits or not digits[0].isdigit():
        return None
    try:
        low = digits.lower()
        if low.startswith("0x"):
            v = int(low[2:], 16)
        elif low.startswith("0b"):
            v = int(low[2:], 2)
        elif len(low) > 1 and low[0] == "0":
            v = int(low, 8)
        else:
            v = int(low, 10)
    except ValueError:
        return None
    return -v if neg else v


class Invalid(Exception):
    """The (program, configuration) pair is outside the domain (a conforming
    preprocessor would diagnose it)."""


# ---------------------------------------------------------------- rendering


def render_cond(c):
    k = c[0]
    if k == "defined":
        return f"defined({c[1]})" if c[2] else f"defined {c[1]}"
    if k == "not":
        inner = render_cond(c[1])
        if c[1][0] in ("and", "or", "cmp"):
            inner = "(" + inner + ")"
        return "!" + inner
    if k == "cmp":
        return f"({c[1]}+0) {c[2]} {c[3]}"
    if k == "call":
        return f"{c[1]}({c[2]}) {c[3]} {c[4]}"
    if k == "and":
        return " && ".join(("(" + render_cond(x) + ")") if x[0] == "or" else render_cond(x) for x in c[1:])
    if k == "or":
        return " || ".join(render_cond(x) for x in c[1:])
    if k == "const":
        return str(c[1])
    if k == "raw":
        return c[1]
    if k == "par":
        return "(" + render_cond(c[1]) + ")"
    raise ValueError(c)


class _Style:
    def __init__(self, seq):
        self.seq = list(seq) or [0]
        self.i = 0

    def next(self, n):
        v = self.seq[self.i % len(self.seq)]
        self.i += 1
        return v % n


def render_file(fid, f, plain=False):
    """Returns (text, layout, counted) where counted is the set of physical
    lines that hold code or directives."""
    st = _Style([0] if plain else f.get("style", [0]))
    out = []
    counted = set()

    def emit(text, count=True):
        out.append(text)
        if count:
            counted.add(len(out))
        return len(out)

    def filler():
        # blank / comment-only lines between items: never counted, never attributed
        if plain:
            return
        c = st.next(12)
        if c == 0:
            emit("", False)
        elif c == 1:
            emit("// filler comment", False)
        elif c == 2:
            emit("/* block", False)
            emit("   comment */", False)
        elif c == 3:
            emit("   \t ", False)

    def directive(body):
        """emit one directive with lexical variety; returns its physical lines"""
        if plain:
            return [emit("#" + body)]
        lead = ["", "", "", " ", "\t", "  "][st.next(6)]
        gap = ["", "", "", " ", "  ", "\t"][st.next(6)]
        tail = ["", "", "", "", " // trailing", " /* trailing */", "  "][st.next(7)]
        cont = st.next(9) == 0
        text = f"{lead}#{gap}{body}"
        if cont and " " in body.strip():
            # split at the last blank: a backslash-newline inside the directive
            head, _, last = text.rpartition(" ")
            if head.strip() not in ("#", "") and last and not head.rstrip().endswith(("#",)):
                a = emit(head + " \\")
                b = emit("    " + last + tail)
                return [a, b]
        return [emit(text + tail)]

    def items(its):
        lay = []
        for it in its:
            filler()
            k = it[0]
            if k == "code":
                ls = []
                for _ in range(it[1]):
                    n = len(out) + 1
                    ls.append(emit(f"M_{fid}_{n};"))
                lay.append({"lines": ls})
            elif k == "define":
                lay.append({"lines": directive(f"define {it[1]}" + (f" {it[2]}" if it[2] != "" else ""))})
            elif k == "fdefine":
                lay.append({"lines": directive(f"define {it[1]}({','.join(it[2])}) {it[3]}")})
            elif k == "undef":
                lay.append({"lines": directive(f"undef {it[1]}")})
            elif k == "include":
                sp = {"quote": f'"{it[2]}"', "angle": f"<{it[2]}>", "macro": it[2]}[it[1]]
                lay.append({"lines": directive(f"include {sp}")})
            elif k == "once":
                lay.append({"lines": directive("pragma once")})
            elif k == "unknown":
                lay.append({"lines": directive(f"{it[1]} {it[2]}".rstrip())})
            elif k == "chain":
                groups = []
                for kind, cond, sub in it[1]:
                    body = f"{kind} {cond}" if kind in ("ifdef", "ifndef") else f"{kind} {render_cond(cond)}"
                    ls = directive(body)
                    groups.append({"lines": ls, "items": items(sub)})
                els = None
                if it[2] is not None:
                    ls = directive("else")
                    els = {"lines": ls, "items": items(it[2])}
                filler()
                lay.append({"groups": groups, "else": els, "endif": directive("endif")})
            else:
                raise ValueError(it)
        return lay

    layout = items(f["items"])
    text = "\n".join(out)
    # (gcc warns about a spliced last line without a final newline: keep that out of the domain)
    if plain or not (st.next(10) == 0 and out and out[-1].strip()) or (len(out) >= 2 and out[-2].endswith("\\")):
        text += "\n"
    # some editors put a UTF-8 byte order mark in front of the first line; compilers skip it
    if not plain and st.next(7) == 0:
        text = "\ufeff" + text
    return text, layout, counted


def render_tree(tree, plain=False):
    """tree: relpath -> file.  Returns (texts, layouts, counted) dicts."""
    texts, layouts, counted = {}, {}, {}
    for i, rel in enumerate(sorted(tree)):
        fid = f"f{i}"
        texts[rel], layouts[rel], counted[rel] = render_file(fid, tree[rel], plain)
    return texts, layouts, counted


def marker_file_ids(tree):
    return {f"f{i}": rel for i, rel in enumerate(sorted(tree))}


# ---------------------------------------------------------------- model


def parse_define_arg(d):
    """-D argument -> (name, body)"""
    if "=" in d:
        n, b = d.split("=", 1)
        return n, b
    return d, "1"


class Model:
    """Reference preprocessor over the AST.  Paths are relative to `root`
    (a real directory: existence of files is checked on disk so that the
    model and the tools see the same world) or absolute."""

    def __init__(self, tree, layouts, root, exists=None):
        self.tree = tree
        self.layouts = layouts
        self.root = root
        self.exists = exists or (lambda p: os.path.isfile(p))

    # -- macro evaluation (object-like only; function-like: identity/const bodies)
    def _resolve(self, name, macros, active=()):
        """Returns int value of identifier `name` inside an arithmetic context,
        or None when it expands to nothing."""
        if name not in macros or name in active:
            return 0
        body = macros[name]
        if isinstance(body, tuple):  # function-like without call -> identifier -> 0
            return 0
        body = body.strip()
        if body == "":
            return None
        v = parse_c_int(body)
        if v is not None:
            return v
        if body.replace("_", "a").isalnum() and not body[0].isdigit():
            return self._resolve(body, macros, active + (name,))
        raise Invalid(f"unsupported macro body {body!r}")

    def eval_cond(self, c, macros):
        k = c[0]
        if k == "defined":
            return 1 if c[1] in macros else 0
        if k == "not":
            return 0 if self.eval_cond(c[1], macros) else 1
        if k == "par":
            return self.eval_cond(c[1], macros)
        if k == "const":
            return c[1]
        if k == "cmp":
            v = self._resolve(c[1], macros)
            v = 0 if v is None else v
            return int({"==": v == c[3], "!=": v != c[3], ">": v > c[3], "<": v < c[3], ">=": v >= c[3], "<=": v <= c[3]}[c[2]])
        if k == "call":
            # F(arg) op k : F is function-like (params, body) with body "x", "(x)+n" forms
            m = macros.get(c[1])
            if not isinstance(m, tuple):
                v = 0  # undefined function-like name: `F(arg)` -> gcc error; generator never does that
                raise Invalid("call of undefined function-like macro")
            params, body = m
            arg = c[2]
            av = int(arg) if str(arg).lstrip("-").isdigit() else (self._resolve(arg, macros) or 0)
            env = {params[0]: av} if params else {}
            v = _eval_simple(body, env, lambda n: (self._resolve(n, macros) or 0))
            return int({"==": v == c[4], "!=": v != c[4], ">": v > c[4], "<": v < c[4]}[c[3]])
        if k == "raw":
            v = self._resolve(c[1], macros)
            if v is None:
                raise Invalid("#if with no expression")
            return v
        if k == "and":
            for x in c[1:]:
                if not self.eval_cond(x, macros):
                    return 0
            return 1
        if k == "or":
            for x in c[1:]:
                if self.eval_cond(x, macros):
                    return 1
            return 0
        raise ValueError(c)

    # -- include resolution (documented compiler rules, no memo)
    def resolve_include(self, form, spelling, cur_dir, dirs):
        """dirs: list of (kind, absdir) in command-line order; kind I|isystem."""
        sysd = [d for k, d in dirs if k == "isystem"]
        idirs = [d for k, d in dirs if k == "I" and os.path.normpath(d) not in {os.path.normpath(s) for s in sysd}]
        search = ([cur_dir] if form == "quote" else []) + idirs + sysd
        found = None
        ncand = 0
        seen = set()
        for d in search:
            p = os.path.normpath(os.path.join(d, spelling))
            if self.exists(p):
                if found is None:
                    found = p
                if os.path.realpath(p) not in seen:
                    seen.add(os.path.realpath(p))
                    ncand += 1
        self.last_ncand = ncand
        return found

    def run(self, main, defines=(), dirs=(), forced=(), cwd=None):
        """main: absolute path of the compiled file.  Returns (used, events)
        used: abspath -> set(lines); events: list of tuples."""
        self.used = {}
        self.events = []
        self.macros = {}
        self.once = set()
        self.dirs = list(dirs)
        self.depth = 0
        self.trace = []  # (includer, form, spelling, resolved, n_candidates)
        self.entered = {}  # realpath -> times processed in this translation unit
        for d in defines:
            n, b = parse_define_arg(d)
            if "(" in n:
                nm, ps = n.split("(", 1)
                self.macros.setdefault(nm, (tuple(p.strip() for p in ps.rstrip(")").split(",") if p.strip()), b))
            else:
                self.macros.setdefault(n, b)
        for inc in forced:
            # a forced include is looked up in the compiler's working directory first
            p = None
            if cwd is not None and self.exists(os.path.normpath(os.path.join(cwd, inc))):
                p = os.path.normpath(os.path.join(cwd, inc))
            if p is None:
                # ... then along the include directories; never in the directory of the main file
                p = self.resolve_include("angle", inc, os.path.dirname(main), self.dirs)
            if p is None:
                self.events.append(("missing-forced", inc))
                continue
            if os.path.realpath(p) in self.once:
                continue  # already read and marked include-once
            self.process(p)
        self.process(main)
        return self.used, self.events

    def _file_of(self, path):
        rp = os.path.realpath(path)
        rel = os.path.relpath(rp, os.path.realpath(self.root))
        return rel if rel in self.tree else None

    def process(self, path):
        rel = self._file_of(path)
        if rel is None:
            raise Invalid(f"file outside the generated tree: {path}")
        self.depth += 1
        if self.depth > 40:
            raise Invalid("include depth")
        self.entered[os.path.realpath(path)] = self.entered.get(os.path.realpath(path), 0) + 1
        self._items(path, rel, self.tree[rel]["items"], self.layouts[rel])
        self.depth -= 1

    def _in_system_dir(self, path):
        d = os.path.normpath(os.path.dirname(path))
        return any(k == "isystem" and os.path.normpath(x) == d for k, x in self.dirs)

    def _use(self, path, lines):
        self.used.setdefault(os.path.realpath(path), set()).update(lines)

    def _items(self, path, rel, its, lays):
        for it, lay in zip(its, lays):
            k = it[0]
            if k == "code":
                self._use(path, lay["lines"])
            elif k == "define":
                self._use(path, lay["lines"])
                if it[1] in self.macros and self.macros[it[1]] != it[2] and not self._in_system_dir(path):
                    # (a compiler diagnoses this, except in system headers, where the new definition silently wins)
                    raise Invalid("incompatible redefinition")
                self.macros[it[1]] = it[2]
            elif k == "fdefine":
                self._use(path, lay["lines"])
                new = (tuple(it[2]), it[3])
                if it[1] in self.macros and self.macros[it[1]] != new:
                    raise Invalid("incompatible redefinition")
                self.macros[it[1]] = new
            elif k == "undef":
                self._use(path, lay["lines"])
                self.macros.pop(it[1], None)
            elif k == "once":
                self._use(path, lay["lines"])
                self.once.add(os.path.realpath(path))
            elif k == "unknown":
                self._use(path, lay["lines"])
                if it[1] not in EXEMPT_UNKNOWN:
                    self.events.append(("unknown", os.path.realpath(path), lay["lines"][0], it[1]))
            elif k == "include":
                self._use(path, lay["lines"])
                form, sp = it[1], it[2]
                if form == "macro":
                    body = self.macros.get(sp)
                    if not isinstance(body, str):
                        raise Invalid("computed include through undefined macro")
                    body = body.strip()
                    if body.startswith('"') and body.endswith('"'):
                        form, sp = "quote", body[1:-1]
                    elif body.startswith("<") and body.endswith(">"):
                        form, sp = "angle", body[1:-1]
                    else:
                        raise Invalid("computed include does not expand to a header name")
                p = self.resolve_include(form, sp, os.path.dirname(path), self.dirs)
                self.trace.append((os.path.realpath(path), form, sp, p and os.path.realpath(p), self.last_ncand))
                if p is None:
                    self.events.append(("missing", os.path.realpath(path), lay["lines"][0], sp, form))
                elif os.path.realpath(p) not in self.once:
                    self.process(p)
            elif k == "chain":
                taken = False
                for (kind, cond, sub), g in zip(it[1], lay["groups"]):
                    self._use(path, g["lines"])
                    if taken:
                        continue  # later #elif expressions are never evaluated
                    if kind == "ifdef":
                        v = cond in self.macros
                    elif kind == "ifndef":
                        v = cond not in self.macros
                    else:
                        v = bool(self.eval_cond(cond, self.macros))
                    if v:
                        taken = True
                        self._items(path, rel, sub, g["items"])
                if it[2] is not None:
                    self._use(path, lay["else"]["lines"])
                    if not taken:
                        self._items(path, rel, it[2], lay["else"]["items"])
                self._use(path, lay["endif"])
            else:
                raise ValueError(it)


def _eval_simple(body, env, ident):
    """Evaluate function-like bodies of the shapes the generators use:
    "x", "(x)", "(x)+N", "N", "((x)*N)" -> tiny safe evaluator."""
    import re

    toks = re.findall(r"[A-Za-z_]\w*|\d+|[()+\-*]", body)
    pos = [0]

    def atom():
        t = toks[pos[0]]
        pos[0] += 1
        if t == "(":
            v = expr()
            pos[0] += 1
            return v
        if t == "-":
            return -atom()
        if t.isdigit():
            return int(t)
        return env[t] if t in env else ident(t)

    def term():
        v = atom()
        while pos[0] < len(toks) and toks[pos[0]] == "*":
            pos[0] += 1
            v *= atom()
        return v

    def expr():
        v = term()
        while pos[0] < len(toks) and toks[pos[0]] in "+-":
            op = toks[pos[0]]
            pos[0] += 1
            w = term()
            v = v + w if op == "+" else v - w
        return v

    return expr()


def code_lines(layouts_rel):
    """all marker (code) lines of one file layout"""
    out = set()

    def walk(lays):
        for lay in lays:
            if "groups" in lay:
                for g in lay["groups"]:
                    walk(g["items"])
                if lay["else"]:
                    walk(lay["else"]["items"])
            # plain code items are identified by the caller through markers
    walk(layouts_rel)
    return out
