"""Run a codebasin front end (or an attribution dump) in THIS fresh process
with the directory enumeration order shuffled by a seed.  Used by C14.

    python sched_runner.py <shuffle-seed|none> <mode> [args...]
    mode: codebasin | tree | cov | dump <analysis.toml>
"""
import json
import os
import random
import runpy
import sys


def install_shuffle(seed):
    real_scandir = os.scandir
    real_listdir = os.listdir

    class Shuffled:
        def __init__(self, path):
            with real_scandir(path) as it:
                self.entries = list(it)
            rnd = random.Random(f"{seed}:{os.fspath(path) if isinstance(path, (str, bytes, os.PathLike)) else '.'}")
            self.entries.sort(key=lambda e: e.name)
            rnd.shuffle(self.entries)
            self.i = 0

        def __iter__(self):
            return self

        def __next__(self):
            if self.i >= len(self.entries):
                raise StopIteration
            e = self.entries[self.i]
            self.i += 1
            return e

        def __enter__(self):
            return self

        def __exit__(self, *a):
            return False

        def close(self):
            pass

    def scandir(path="."):
        return Shuffled(path)

    def listdir(path="."):
        names = sorted(real_listdir(path))
        random.Random(f"{seed}:{os.fspath(path)}").shuffle(names)
        return names

    os.scandir = scandir
    os.listdir = listdir


def dump(analysis, covdb=None):
    import tomllib
    import warnings

    warnings.filterwarnings("ignore")
    import logging

    logging.disable(logging.CRITICAL)
    from codebasin import CodeBase, config, finder, report
    from codebasin.preprocessor import CodeNode

    root = os.getcwd()
    with open(analysis, "rb") as f:
        toml = tomllib.load(f)
    cfg = {}
    for name, p in toml.get("platform", {}).items():
        cfg[name] = config.load_database(p["commands"], root)
    cb = CodeBase(root, exclude_patterns=toml.get("codebase", {}).get("exclude", []))
    state = finder.find(root, cb, cfg)
    attr = {}
    for fn in state.get_filenames():
        tree = state.get_tree(fn)
        amap = state.get_map(fn)
        a = {}
        for node in tree.walk():
            if isinstance(node, CodeNode):
                for ln in node.lines:
                    a[str(ln)] = sorted(amap[node])
        attr[os.path.relpath(fn, root)] = a
    setmap = sorted((sorted(k), v) for k, v in state.get_setmap(cb).items())
    dups = sorted(sorted(os.path.relpath(str(p), root) for p in s) for s in report.find_duplicates(cb))
    sm = state.get_setmap(cb)
    metrics = [repr(report.divergence(sm)), repr(report.coverage(sm)), repr(report.average_coverage(sm))]
    out = {"attr": attr, "setmap": setmap, "dups": dups, "metrics": metrics, "members": sorted(os.path.relpath(f, root) for f in cb)}
    if covdb:
        # the coverage export of one platform, produced by the real front end in this same process
        import contextlib
        import io
        import tempfile

        from codebasin.coverage import __main__ as covmain

        with tempfile.TemporaryDirectory() as td:
            covp = os.path.join(td, "cov.json")
            with contextlib.redirect_stdout(io.StringIO()), contextlib.redirect_stderr(io.StringIO()):
                try:
                    covmain.cli(["compute", "-S", root, "-o", covp, covdb])
                except SystemExit as e:  # the front end ends with sys.exit(0)
                    if e.code not in (0, None):
                        raise RuntimeError(f"cbi-cov exit {e.code}")
            with open(covp) as f:
                out["cov"] = {e["file"]: [e["id"], sorted(e["used_lines"]), sorted(e["unused_lines"])] for e in json.load(f)}
    json.dump(out, sys.stdout, sort_keys=True)


def main():
    seed, mode, *rest = sys.argv[1:]
    if seed != "none":
        install_shuffle(seed)
    if mode == "dump":
        dump(*rest[:2])
        return
    mod = {"codebasin": "codebasin", "tree": "codebasin.tree", "cov": "codebasin.coverage"}[mode]
    sys.argv = [mod] + rest
    runpy.run_module(mod, run_name="__main__", alter_sys=True)


if __name__ == "__main__":
    main()
