"""Reference ISO C `#if` evaluator working on the generator's AST
(DESIGN.md 6.3) together with the renderer to C text and Hypothesis strategies.

AST nodes (tuples):
  ("lit", text, value, unsigned)        integer literal; text is its C spelling
  ("chr", text, value)                  character constant (signed int valued)
  ("id", name)                          identifier (macro name or unknown)
  ("defined", name, paren)              defined X / defined(X)
  ("un", op, e)      op in + - ! ~
  ("bin", op, l, r)
  ("tern", c, a, b)
  ("par", e)                            redundant parentheses
Values are (n, unsigned) with n in [-2^63, 2^63) or [0, 2^64).
"""

from __future__ import annotations

I64_MIN, I64_MAX, U64_MAX = -(2**63), 2**63 - 1, 2**64 - 1

PREC = {
    "*": 11, "/": 11, "%": 11, "+": 10, "-": 10, "<<": 9, ">>": 9,
    "<": 8, "<=": 8, ">": 8, ">=": 8, "==": 7, "!=": 7, "&": 6, "^": 5, "|": 4, "&&": 3, "||": 2,
}
BINOPS = list(PREC)
UNOPS = ["+", "-", "!", "~"]
TERN_PREC = 1
UN_PREC = 12


class UB(Exception):
    """Undefined behaviour / gcc-diagnosed construct: outside the domain."""


def lit(n, base="dec", suffix=""):
    """Build a literal node for non-negative n."""
    if base == "dec":
        text = str(n)
    elif base == "hex":
        text = "0x" + format(n, "X" if suffix.isupper() and suffix else "x")
    elif base == "oct":
        text = "0" + format(n, "o")
    elif base == "bin":
        text = "0b" + format(n, "b")
    else:
        raise ValueError(base)
    text += suffix
    uns = "u" in suffix.lower()
    if not uns:
        if n > I64_MAX:
            if base == "dec" or n > U64_MAX:
                uns = None  # gcc: "integer constant is so large that it is unsigned" -> out of domain
            else:
                uns = True
    if n > U64_MAX:
        uns = None
    return ("lit", text, n, uns)


def wrap(n, unsigned):
    return (n & U64_MAX, True) if unsigned else (n, False)


def _conv(a, b):
    """usual arithmetic conversions"""
    (x, xu), (y, yu) = a, b
    if xu or yu:
        return x & U64_MAX, y & U64_MAX, True
    return x, y, False


def _chk(n):
    if not (I64_MIN <= n <= I64_MAX):
        raise UB("signed overflow")
    return (n, False)


def _trunc_div(x, y):
    q = abs(x) // abs(y)
    return q if (x < 0) == (y < 0) else -q


def evaluate(e, macros=None, evaluated=True, _depth=0, _active=()):
    """Return (n, unsigned).  `macros`: name -> AST (object-like) for identifiers.
    With evaluated=False UB is not raised (operand is not evaluated) but the
    type (signedness) is still computed."""
    macros = macros or {}
    k = e[0]
    if k == "lit":
        if e[3] is None:
            raise UB("literal too large")
        return (e[2], e[3])
    if k == "chr":
        return (e[2], e[1][:2] in ("u'", "U'"))  # char16_t / char32_t are unsigned types, char and wchar_t signed
    if k == "id":
        name = e[1]
        if name in macros and name not in _active:
            return evaluate(macros[name], macros, evaluated, _depth + 1, _active + (name,))
        return (0, False)
    if k == "defined":
        return (1 if e[1] in macros else 0, False)
    if k == "par":
        return evaluate(e[1], macros, evaluated, _depth, _active)
    if k == "un":
        op = e[1]
        v, u = evaluate(e[2], macros, evaluated, _depth, _active)
        if op == "+":
            return (v, u)
        if op == "-":
            if u:
                return wrap(-v, True)
            if v == I64_MIN:
                if evaluated:
                    raise UB("negate INT64_MIN")
                return (v, False)
            return (-v, False)
        if op == "!":
            return (0 if v else 1, False)
        if op == "~":
            return wrap(~v, True) if u else (~v, False)
    if k == "bin":
        op = e[1]
        if op in ("&&", "||"):
            lv, _ = evaluate(e[2], macros, evaluated, _depth, _active)
            if op == "&&":
                rv, _ = evaluate(e[3], macros, evaluated and bool(lv), _depth, _active)
                return (1 if (lv and rv) else 0, False)
            rv, _ = evaluate(e[3], macros, evaluated and not lv, _depth, _active)
            return (1 if (lv or rv) else 0, False)
        a = evaluate(e[2], macros, evaluated, _depth, _active)
        b = evaluate(e[3], macros, evaluated, _depth, _active)
        if op in ("<<", ">>"):
            (x, xu), (y, yu) = a, b
            # count: negative signed count or >= 64 is UB
            cnt = y
            if (not yu and cnt < 0) or cnt >= 64:
                if evaluated:
                    raise UB("shift count")
                return (0, xu)
            if op == "<<":
                if xu:
                    return wrap(x << cnt, True)
                if x < 0:
                    if evaluated:
                        raise UB("left shift of negative")
                    return (0, False)
                r = x << cnt
                if r > I64_MAX:
                    if evaluated:
                        raise UB("left shift overflow")
                    return (0, False)
                return (r, False)
            return (x >> cnt, xu)  # arithmetic for negative signed (gcc)
        x, y, u = _conv(a, b)
        if op in ("<", "<=", ">", ">=", "==", "!="):
            r = {"<": x < y, "<=": x <= y, ">": x > y, ">=": x >= y, "==": x == y, "!=": x != y}[op]
            return (1 if r else 0, False)
        if op in ("&", "|", "^"):
            r = {"&": x & y, "|": x | y, "^": x ^ y}[op]
            return wrap(r, True) if u else (r, False)
        if op in ("/", "%"):
            if y == 0:
                # also when the operand is not evaluated: gcc gives an unevaluated x/0 the type of x
                # instead of the common type (implementation artefact), so such expressions are kept
                # out of the domain altogether
                raise UB("division by zero" if evaluated else "division by zero (unevaluated)")
            if u:
                return (x // y, True) if op == "/" else (x % y, True)
            if x == I64_MIN and y == -1:
                if evaluated:
                    raise UB("INT64_MIN / -1")
                return (0, False)
            q = _trunc_div(x, y)
            return (q, False) if op == "/" else (x - q * y, False)
        r = {"+": x + y, "-": x - y, "*": x * y}[op]
        if u:
            return wrap(r, True)
        if not (I64_MIN <= r <= I64_MAX):
            if evaluated:
                raise UB("signed overflow")
            return (0, False)
        return (r, False)
    if k == "tern":
        c, _ = evaluate(e[1], macros, evaluated, _depth, _active)
        a = evaluate(e[2], macros, evaluated and bool(c), _depth, _active)
        b = evaluate(e[3], macros, evaluated and not c, _depth, _active)
        u = a[1] or b[1]
        v = a[0] if c else b[0]
        return wrap(v, True) if u else (v, False)
    raise ValueError(f"bad node {e!r}")


# ---------------------------------------------------------------- rendering


def prec_of(e):
    k = e[0]
    if k == "bin":
        return PREC[e[1]]
    if k == "tern":
        return TERN_PREC
    if k == "un":
        return UN_PREC
    return 99


def render(e):
    """C text with the minimal parentheses that make C's grammar parse the
    text back into exactly this tree."""
    k = e[0]
    if k in ("lit", "chr"):
        return e[1]
    if k == "id":
        return e[1]
    if k == "defined":
        return f"defined({e[1]})" if e[2] else f"defined {e[1]}"
    if k == "par":
        return "(" + render(e[1]) + ")"
    if k == "un":
        inner = render(e[2])
        if prec_of(e[2]) < UN_PREC:
            inner = "(" + inner + ")"
        # avoid forming ++ / -- tokens
        sep = " " if inner[:1] in "+-" and e[1] in "+-" else ""
        return e[1] + sep + inner
    if k == "bin":
        p = PREC[e[1]]
        l, r = render(e[2]), render(e[3])
        if prec_of(e[2]) < p:
            l = "(" + l + ")"
        if prec_of(e[3]) <= p:
            r = "(" + r + ")"
        return f"{l} {e[1]} {r}"
    if k == "tern":
        c, a, b = render(e[1]), render(e[2]), render(e[3])
        if prec_of(e[1]) <= TERN_PREC:
            c = "(" + c + ")"
        # middle operand is parsed as a full expression; the last as a conditional-expression (right assoc)
        return f"{c} ? {a} : {b}"
    raise ValueError(e)


def value_literal(v):
    """C spelling of a model value usable inside #if, preserving signedness."""
    n, u = v
    if u:
        return f"{n}u"
    if n == I64_MIN:
        return "(-9223372036854775807-1)"
    if n < 0:
        return f"(-{-n})"
    return str(n)


def features(e, acc=None):
    acc = set() if acc is None else acc
    k = e[0]
    if k == "lit":
        t = e[1].lower()
        if t.startswith("0x"):
            acc.add("hex")
        elif t.startswith("0b"):
            acc.add("bin")
        elif len(t.rstrip("ul")) > 1 and t.startswith("0"):
            acc.add("oct")
        if t.rstrip("ul") != t:
            acc.add("suffix")
        if e[3]:
            acc.add("unsigned")
        if e[2] > 2**31:
            acc.add("big")
    elif k == "chr":
        acc.add("char")
        if "\\" in e[1]:
            acc.add("char-escape")
    elif k == "id":
        acc.add("ident")
    elif k == "defined":
        acc.add("defined")
    elif k == "par":
        features(e[1], acc)
    elif k == "un":
        acc.add("un" + e[1])
        features(e[2], acc)
        if e[2][0] == "bin" and e[2][1] in ("<", "<=", ">", ">=", "==", "!=", "&&", "||"):
            acc.add("bool-as-operand")
        if e[2][0] == "un" and e[2][1] == "!":
            acc.add("bool-as-operand")
    elif k == "bin":
        acc.add("bin" + e[1])
        for c in (e[2], e[3]):
            features(c, acc)
            cc = c
            while cc[0] == "par":
                cc = cc[1]
            if e[1] not in ("&&", "||") and ((cc[0] == "bin" and cc[1] in ("<", "<=", ">", ">=", "==", "!=", "&&", "||")) or (cc[0] == "un" and cc[1] == "!")):
                acc.add("bool-as-operand")
            if cc[0] == "bin" and PREC[cc[1]] != PREC[e[1]]:
                acc.add("mixed-prec")
    elif k == "tern":
        acc.add("tern")
        for c in e[1:]:
            features(c, acc)
    return acc


def n_ops(e):
    k = e[0]
    if k in ("lit", "chr", "id", "defined"):
        return 0
    if k == "par":
        return n_ops(e[1])
    if k == "un":
        return 1 + n_ops(e[2])
    if k == "bin":
        return 1 + n_ops(e[2]) + n_ops(e[3])
    return 1 + sum(n_ops(c) for c in e[1:])


def shape(e):
    """Abstract spelling used in signatures: literals replaced by their class."""
    k = e[0]
    if k == "lit":
        t = e[1].lower()
        base = "H" if t.startswith("0x") else "B" if t.startswith("0b") else "O" if (len(t.rstrip("ul")) > 1 and t.startswith("0")) else "N"
        suf = t[len(t.rstrip("ul")):]
        big = "big" if e[2] > I64_MAX else ""
        return base + big + suf
    if k == "chr":
        return "Cesc" if "\\" in e[1] else "C"
    if k == "id":
        return "ID"
    if k == "defined":
        return "defined(ID)" if e[2] else "defined ID"
    if k == "par":
        return "(" + shape(e[1]) + ")"
    if k == "un":
        inner = shape(e[2])
        if prec_of(e[2]) < UN_PREC:
            inner = "(" + inner + ")"
        return e[1] + inner
    if k == "bin":
        p = PREC[e[1]]
        l, r = shape(e[2]), shape(e[3])
        if prec_of(e[2]) < p:
            l = "(" + l + ")"
        if prec_of(e[3]) <= p:
            r = "(" + r + ")"
        return f"{l}{e[1]}{r}"
    if k == "tern":
        c = shape(e[1])
        if prec_of(e[1]) <= TERN_PREC:
            c = "(" + c + ")"
        return f"{c}?{shape(e[2])}:{shape(e[3])}"


# ---------------------------------------------------------------- literal pools

BOUNDARY = [0, 1, 2, 3, 7, 8, 63, 64, 255, 2**31 - 1, 2**31, 2**32, 2**63 - 1, 2**63, 2**64 - 1]
SUFFIXES = ["", "u", "U", "l", "L", "ll", "LL", "ul", "UL", "lu", "LU", "ull", "ULL", "llu", "LLU", "uLL", "Ul"]
CHARS = [
    ("'a'", 97), ("'0'", 48), ("' '", 32), ("'A'", 65), ("'~'", 126),
    ("'\\n'", 10), ("'\\t'", 9), ("'\\0'", 0), ("'\\\\'", 92), ("'\\''", 39),
    ("'\\x41'", 65), ("'\\101'", 65), ("'\\a'", 7), ("'\"'", 34),
    # plain char is signed, wide character constants (L u U) keep the value; a raw tab is a valid c-char
    ("'\\xff'", -1), ("'\\377'", -1), ("L'a'", 97), ("u'a'", 97), ("U'0'", 48), ("L'\\0'", 0), ("L'\\xff'", 255), ("u'\\377'", 255), ("'\t'", 9),
    ("','", 44), ("'('", 40), ("')'", 41), ("'#'", 35),
]


def boundary_literals():
    """The literal set of the exhaustive part: boundary values in their natural spellings."""
    out = []
    for n in (0, 1, 2, 3, 7, 63, 64):
        out.append(lit(n))
    out.append(lit(2**31 - 1))
    out.append(lit(2**32))
    out.append(lit(I64_MAX))
    out.append(lit(U64_MAX, "dec", "u"))
    out.append(lit(2**63, "hex"))
    out.append(lit(1, "dec", "u"))
    out.append(lit(8, "oct"))  # 010
    out.append(lit(255, "hex"))
    return out


def strategies(max_depth=5, macro_names=("M0", "M1", "M2"), unknown=("UNK", "foo")):
    from hypothesis import strategies as st

    small = st.integers(0, 12)
    anyval = st.one_of(small, st.sampled_from(BOUNDARY), st.integers(0, U64_MAX))
    literal = st.builds(
        lambda n, base, suf: lit(n, base, suf),
        anyval,
        st.sampled_from(["dec", "dec", "dec", "hex", "oct", "bin"]),
        st.sampled_from(SUFFIXES + [""] * 12),
    ).filter(lambda l: l[3] is not None)
    char = st.sampled_from(CHARS).map(lambda c: ("chr", c[0], c[1]))
    ident = st.sampled_from(list(macro_names) + list(unknown)).map(lambda n: ("id", n))
    defined = st.builds(lambda n, p: ("defined", n, p), st.sampled_from(list(macro_names) + list(unknown)), st.booleans())
    leaf = st.one_of(literal, literal, literal, char, ident, defined)

    def extend(children):
        return st.one_of(
            st.builds(lambda op, e: ("un", op, e), st.sampled_from(UNOPS), children),
            st.builds(lambda op, l, r: ("bin", op, l, r), st.sampled_from(BINOPS), children, children),
            st.builds(lambda op, l, r: ("bin", op, l, r), st.sampled_from(BINOPS), children, children),
            st.builds(lambda c, a, b: ("tern", c, a, b), children, children, children),
            st.builds(lambda e: ("par", e), children),
        )

    expr = st.recursive(leaf, extend, max_leaves=12)
    return expr, literal, leaf
