"""Reference scanner for C/C++ source text: translation phases 2 and 3
written directly from the standard (DESIGN.md C05).

scan(text) -> None if the text is outside the domain (unterminated literal or
comment, stray backslash, backslash-newline at end of file, directive line we
cannot vouch for), else a dict:
   counted:    set of physical lines holding a surviving non-blank character
   directives: list of sets - for each logical line whose first surviving
               non-blank character is '#', its counted physical lines
   code:       counted lines that are not part of a directive
   logical:    list of (is_directive, sorted counted lines) per non-blank logical line
"""


def scan(text, allow_any_directive=False):
    if "\r" in text or "\x00" in text:
        return None
    # ---- phase 2: splice, remembering each character's physical line
    chars = []  # (char, physical line)
    line = 1
    i = 0
    n = len(text)
    while i < n:
        c = text[i]
        if c == "\\" and i + 1 < n and text[i + 1] == "\n":
            i += 2
            line += 1
            if i >= n:
                return None  # backslash-newline at end of file
            continue
        if c == "\\" and i + 1 == n:
            return None  # file ends in a backslash
        chars.append((c, line))
        if c == "\n":
            line += 1
        i += 1
    # ---- phase 3: comments -> one space, literals kept
    out = []  # (char, line) surviving; comments become (' ', line)
    lit_ws_lines = set()  # lines holding white space that is *inside* a literal
    i = 0
    n = len(chars)
    while i < n:
        c, ln = chars[i]
        if c in "\"'":
            q = c
            out.append((c, ln))
            i += 1
            closed = False
            while i < n:
                d, dl = chars[i]
                if d == "\n":
                    return None  # unterminated literal
                out.append((d, dl))
                if d.isspace():
                    lit_ws_lines.add(dl)
                i += 1
                if d == "\\":
                    if i < n and chars[i][0] != "\n":
                        out.append(chars[i])
                        if chars[i][0].isspace():
                            lit_ws_lines.add(chars[i][1])  # an escaped blank is still a blank inside the literal
                        i += 1
                    else:
                        return None
                elif d == q:
                    closed = True
                    break
            if not closed:
                return None
            continue
        if c == "/" and i + 1 < n and chars[i + 1][0] == "/":
            i += 2
            while i < n and chars[i][0] != "\n":
                i += 1
            out.append((" ", ln))
            continue
        if c == "/" and i + 1 < n and chars[i + 1][0] == "*":
            i += 2
            while i + 1 < n and not (chars[i][0] == "*" and chars[i + 1][0] == "/"):
                i += 1
            if i + 1 >= n:
                return None  # unterminated comment
            i += 2
            out.append((" ", ln))
            continue
        if c == "\\":
            return None  # stray backslash outside a literal
        out.append((c, ln))
        i += 1
    # ---- logical lines
    counted = set()
    logical = []
    cur = []
    for c, ln in out + [("\n", None)]:
        if c == "\n":
            nb = [(d, l) for d, l in cur if not d.isspace()]
            if nb:
                lines = sorted({l for _, l in nb})
                # a directive's first *token* is '#': a line starting with the
                # token '##' is ordinary text (gcc -E passes it through)
                k = next(j for j, (d, _) in enumerate(cur) if not d.isspace())
                is_dir = nb[0][0] == "#" and not (k + 1 < len(cur) and cur[k + 1][0] == "#")
                if is_dir and not allow_any_directive:
                    rest = "".join(d for d, _ in cur).strip()[1:].strip()
                    if rest:
                        return None  # only null directives are vouched for here
                logical.append((is_dir, lines))
                counted.update(lines)
            cur = []
        else:
            cur.append((c, ln))
    directives = [set(l) for d, l in logical if d]
    dl = set().union(*directives) if directives else set()
    # a line whose only surviving characters are blanks inside a string/char literal: the statement
    # ("non-whitespace character") does not clearly decide it, so both answers are accepted
    optional = lit_ws_lines - counted
    return {"counted": counted, "directives": directives, "code": counted - dl, "logical": logical, "optional": optional}


def char_literal_slashes(text):
    """indices (in the original text) of '/' characters inside character
    literals '...' - used by the root-cause classifier of C05"""
    idx = []
    i, n = 0, len(text)
    state = None  # None | '"' | "'" | "//" | "/*"
    while i < n:
        c = text[i]
        if c == "\\" and i + 1 < n and text[i + 1] == "\n":
            i += 2
            continue
        if state is None:
            if c in "\"'":
                state = c
            elif c == "/":
                j = i + 1
                while j + 1 < n and text[j] == "\\" and text[j + 1] == "\n":
                    j += 2
                if j < n and text[j] == "/":
                    state, i = "//", j
                elif j < n and text[j] == "*":
                    state, i = "/*", j
        elif state in "\"'" and len(state) == 1:
            if c == "\\":
                i += 1
                while i + 1 < n and text[i] == "\\" and text[i + 1] == "\n":
                    i += 2
            elif c == state:
                state = None
            elif c == "/" and state == "'":
                idx.append(i)
            elif c == "\n":
                state = None
        elif state == "//":
            if c == "\n":
                state = None
        elif state == "/*":
            if c == "*":
                j = i + 1
                while j + 1 < n and text[j] == "\\" and text[j + 1] == "\n":
                    j += 2
                if j < n and text[j] == "/":
                    state, i = None, j
        i += 1
    return idx
