"""Real preprocessors as oracles (gcc 12, clang 14), batched.

A case on which the tool prints any diagnostic is outside the domain; the
caller discards and counts it.
"""

import os
import re
import subprocess

from . import core

DIAG = re.compile(r"^(?:[^:\n]+):(\d+):(?:\d+:)? (?:warning|error|fatal error|note)\b", re.M)
DIAG_NOCOL = re.compile(r"^(?:[^:\n]+):(\d+): (?:warning|error|fatal error)\b", re.M)


def run_cpp(tool, path, extra=(), cwd=None, lang="c"):
    cmd = [tool, "-E", "-P", "-x", lang, *extra, path]
    p = subprocess.run(cmd, stdout=subprocess.PIPE, stderr=subprocess.PIPE, text=True, cwd=cwd, errors="replace")
    return p.returncode, p.stdout, p.stderr


def diag_lines(stderr):
    lines = set()
    for m in DIAG.finditer(stderr):
        lines.add(int(m.group(1)))
    for m in DIAG_NOCOL.finditer(stderr):
        lines.add(int(m.group(1)))
    return lines


def eval_if_batch(cases, tool="gcc", workdir=None):
    """cases: list of dict(defs=[(name, body)], tests={label: expr_text}).
    Returns list of dict(diag=bool, true=set(labels)) in order.
    Every test becomes `#if <expr>` / marker / `#endif`; diagnostics are mapped
    back to the case through line numbers."""
    own = None
    if workdir is None:
        own = core.Scratch("cc")
        workdir = own.__enter__()
    try:
        lines = []
        span = []  # (first_line, last_line) per case, 1-based
        for i, c in enumerate(cases):
            start = len(lines) + 1
            for name, body in c.get("defs", []):
                lines.append(f"#define {name} {body}")
            for label, expr in c["tests"].items():
                lines.append(f"#if {expr}")
                lines.append(f"VM_{i}_{label}")
                lines.append("#endif")
            for name, _ in c.get("defs", []):
                lines.append(f"#undef {name}")
            span.append((start, len(lines)))
        path = os.path.join(workdir, f"batch_{tool}.c")
        with open(path, "w") as f:
            f.write("\n".join(lines) + "\n")
        rc, out, err = run_cpp(tool, path)
        dl = diag_lines(err)
        if err.strip() and not dl:
            raise core.HarnessError(f"{tool}: unparsed diagnostics: {err[:500]}")
        marks = {}
        for j, lab in re.findall(r"VM_(\d+)_(\w+)", out):
            marks.setdefault(int(j), set()).add(lab)
        dls = sorted(dl)
        import bisect

        res = []
        for i, (a, b) in enumerate(span):
            k = bisect.bisect_left(dls, a)
            diag = k < len(dls) and dls[k] <= b
            res.append({"diag": diag, "true": marks.get(i, set())})
        return res
    finally:
        if own:
            own.__exit__(None, None, None)


def cpp_markers(tool, root, relpath, flags, cwd=None, lang=None):
    """Preprocess root/relpath with flags; return (diagnosed?, stdout, stderr)."""
    cmd = [tool, "-E", "-P"] + (["-x", lang] if lang else []) + list(flags) + [relpath]
    p = subprocess.run(cmd, stdout=subprocess.PIPE, stderr=subprocess.PIPE, text=True, cwd=cwd or root, errors="replace")
    return (bool(p.stderr.strip()) or p.returncode != 0), p.stdout, p.stderr
