"""Coverage-guided fuzzing entry point (atheris / libFuzzer), run as a
subprocess by vlib.fuzz.run_campaign:

    python fuzz_entry.py <check module> <outdir> <known-signatures.json> [libFuzzer args]

The check module provides `fuzz_setup(workdir)` and `fuzz_one(data: bytes) ->
None | dict(signature=..., case=..., expected=..., observed=...)`.  The oracle
lives inside the target; a finding is written to <outdir> and fuzzing goes on
(libFuzzer would otherwise stop at the first one).
"""
import hashlib
import json
import os
import sys

HERE = os.path.dirname(os.path.dirname(os.path.abspath(__file__)))
sys.path.insert(0, HERE)
sys.path.insert(0, os.path.join(HERE, ".deps"))


def main():
    modname, outdir, known_path = sys.argv[1:4]
    rest = sys.argv[4:]
    from vlib import core

    core.setup_import_path()
    import atheris

    with atheris.instrument_imports(include=["codebasin"]):
        import codebasin.file_parser  # noqa
        import codebasin.file_source  # noqa
        import codebasin.preprocessor  # noqa
    import importlib

    mod = importlib.import_module(modname)
    with open(known_path) as f:
        known = set(json.load(f))
    os.makedirs(outdir, exist_ok=True)
    mod.fuzz_setup(outdir)
    seen = set()
    stats = {"executions": 0, "in_domain": 0, "suppressed": 0}

    spath = os.path.join(outdir, f"stats-{os.getpid()}.json")

    def one(data):
        stats["executions"] += 1
        if stats["executions"] % 500 == 0:  # libFuzzer ends with _exit: no atexit / finally
            with open(spath + ".tmp", "w") as f:
                json.dump(stats, f)
            os.replace(spath + ".tmp", spath)
        r = mod.fuzz_one(data, stats)
        if not r:
            return
        for v in r if isinstance(r, list) else [r]:
            if v["signature"] in known:
                stats["suppressed"] += 1
                continue
            if v["signature"] in seen or len(seen) >= 20:
                continue
            seen.add(v["signature"])
            h = hashlib.sha256(v["signature"].encode()).hexdigest()[:12]
            with open(os.path.join(outdir, f"finding-{h}.json"), "w") as f:
                json.dump(v, f)

    import atexit

    def dump():
        with open(os.path.join(outdir, f"stats-{os.getpid()}.json"), "w") as f:
            json.dump(stats, f)

    atheris.Setup([sys.argv[0]] + rest, one)
    try:
        atheris.Fuzz()
    finally:
        dump()


if __name__ == "__main__":
    main()
