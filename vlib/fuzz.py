"""Run coverage-guided campaigns (atheris) beside the generated search."""
import glob
import json
import os
import subprocess
import sys

from . import core

ENTRY = os.path.join(os.path.dirname(os.path.abspath(__file__)), "fuzz_entry.py")


def available():
    return os.path.isdir(os.path.join(core.VERIF, ".deps", "atheris"))


def run_campaign(modname, known, seed, nprocs, runs, max_len=64, timeout=3600):
    """-> (findings: list of dict, stats: dict).  Each process gets a fresh corpus
    and its own derived seed; `runs` executions per process."""
    findings, total = [], {"executions": 0, "in_domain": 0, "suppressed": 0, "processes": nprocs}
    if not available():
        return [], {"skipped": "atheris not installed (tools/setup.py)"}
    with core.Scratch("fuzz") as d:
        kp = os.path.join(d, "known.json")
        with open(kp, "w") as f:
            json.dump(sorted(known), f)
        procs = []
        for i in range(nprocs):
            out = os.path.join(d, f"p{i}")
            corpus = os.path.join(out, "corpus")
            os.makedirs(corpus)
            env = dict(os.environ)
            env["PYTHONPATH"] = os.pathsep.join([core.REPO, os.path.join(core.VERIF, ".deps")] + [p for p in env.get("PYTHONPATH", "").split(os.pathsep) if p])
            s = core.derive_seed(seed, modname, "fuzz", i) % (2**31 - 1) + 1
            cmd = [sys.executable, ENTRY, modname, out, kp, f"-runs={runs}", f"-seed={s}", f"-max_len={max_len}", "-print_final_stats=1", f"-artifact_prefix={out}/", corpus]
            procs.append((out, subprocess.Popen(cmd, stdout=subprocess.DEVNULL, stderr=subprocess.PIPE, env=env, cwd=out)))
        for out, p in procs:
            timed_out = False
            try:
                _, err = p.communicate(timeout=timeout)
            except subprocess.TimeoutExpired:
                # a time budget hit is inconclusive, never a verdict: keep what the process recorded so far
                p.kill()
                _, err = p.communicate()
                timed_out = True
                total["processes_stopped_by_time_budget"] = total.get("processes_stopped_by_time_budget", 0) + 1
            if p.returncode not in (0,) and not timed_out:
                tail = err.decode(errors="replace")[-600:]
                raise core.HarnessError(f"fuzz process failed rc={p.returncode}: {tail}")
            for sf in glob.glob(os.path.join(out, "stats-*.json")):
                with open(sf) as f:
                    st = json.load(f)
                for k in ("executions", "in_domain", "suppressed"):
                    total[k] += st.get(k, 0)
            for ff in glob.glob(os.path.join(out, "finding-*.json")):
                with open(ff) as f:
                    findings.append(json.load(f))
    return findings, total
