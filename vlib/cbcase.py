"""Materialise a generated code base with compilation databases and an
analysis file, and observe it in-process / through the CLIs."""

import collections
import json
import os

from . import core, observe, pp_ast

COMPILER_BY_EXT = {".c": "gcc", ".cpp": "g++", ".cc": "g++", ".cu": "nvcc", ".f90": "gfortran", ".S": "gcc", ".h": "gcc", ".hpp": "g++"}


def argv_for(cmd, flags_order=None):
    ext = os.path.splitext(cmd["file"])[1]
    argv = [cmd.get("compiler") or COMPILER_BY_EXT.get(ext, "gcc")]
    for d in cmd.get("defines", ()):
        argv.append("-D" + d)
    for k, d in cmd.get("dirs", ()):
        argv += ["-I" if k == "I" else "-isystem", d]
    for f in cmd.get("forced", ()):
        argv += ["-include", f]
    argv += list(cmd.get("extra_flags", ()))
    argv += ["-c", cmd["file"]]
    return argv


def db_entry(cmd, root):
    """One compilation-database entry for a generated command.  cmd["dbdir"]
    chooses how the entry is spelled: absent/None - directory is the root (paths
    relative to it); "absent" - no `directory` key at all (the root is the
    documented default); any other value - that sub-directory of the root, with
    `file`, -I/-isystem and -include values re-spelled relative to it."""
    how = cmd.get("dbdir")
    if how is None:
        return {"directory": root, "file": cmd["file"], "arguments": argv_for(cmd)}
    if how == "absent":
        return {"file": cmd["file"], "arguments": argv_for(cmd)}
    d = os.path.join(root, how)
    os.makedirs(d, exist_ok=True)

    def rel(p):
        return p if os.path.isabs(p) else os.path.relpath(os.path.join(root, p), d)

    c2 = dict(cmd, file=rel(cmd["file"]), dirs=[[k, rel(x)] for k, x in cmd.get("dirs", ())], forced=[rel(f) for f in cmd.get("forced", ())])
    return {"directory": d if cmd.get("dbdir_abs", True) else how, "file": c2["file"], "arguments": argv_for(c2)}


def materialise(case, root, db_dir=None):
    """Write sources, links, db-<platform>.json and analysis.toml. Returns
    dict(texts, layouts, counted, dbs {platform: path}, analysis path)."""
    texts, layouts, counted = pp_ast.render_tree(case["tree"], plain=case.get("plain", False))
    files = dict(texts)
    files.update(case.get("extra", {}))
    core.write_tree(root, files, case.get("symlinks"))
    db_dir = db_dir or root
    dbs = {}
    for pname, cmds in case["platforms"].items():
        db = [db_entry(cmd, root) for cmd in cmds]
        p = os.path.join(db_dir, f"db-{pname}.json")
        with open(p, "w") as f:
            json.dump(db, f, indent=1)
        dbs[pname] = p
    lines = []
    if case.get("excludes") is not None and case.get("excludes_in_file", True):
        lines += ["[codebase]", "exclude = [" + ", ".join(json.dumps(e) for e in case["excludes"]) + "]", ""]
    for pname in case.get("platform_order") or list(case["platforms"]):
        lines += [f"[platform.{json.dumps(pname)}]", f"commands = {json.dumps(dbs[pname])}", ""]
    analysis = os.path.join(db_dir, "analysis.toml")
    with open(analysis, "w") as f:
        f.write("\n".join(lines))
    return {"texts": texts, "layouts": layouts, "counted": counted, "dbs": dbs, "analysis": analysis}


class chdir:
    def __init__(self, d):
        self.d = d

    def __enter__(self):
        self.old = os.getcwd()
        os.chdir(self.d)

    def __exit__(self, *a):
        os.chdir(self.old)


def analyse(root, dbs, excludes=(), platforms=None):
    """In-process equivalent of what the front ends do: load every database,
    run finder.find.  Returns (state, codebase, configuration)."""
    from codebasin import CodeBase, config, finder

    config._compilers = None
    cfg = {}
    with chdir(root):
        for pname, p in dbs.items():
            if platforms is not None and pname not in platforms:
                continue
            cfg[pname] = config.load_database(p, root)
        cb = CodeBase(root, exclude_patterns=list(excludes))
        state = finder.find(root, cb, cfg)
    return state, cb, cfg


def file_histograms(state, cb):
    """codebase file (as yielded) -> (is_symlink, {frozenset: nlines}, {line: frozenset})"""
    out = {}
    problems = []
    for f in cb:
        a, p = observe.attribution_of(state, f)
        if p:
            problems.append((f, p))
        h = collections.Counter()
        for ln, ps in a.items():
            h[ps] += 1
        out[f] = (os.path.islink(f), dict(h), a)
    return out, problems
