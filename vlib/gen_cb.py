"""Hypothesis strategies for whole code bases (C06, C08, C10, C14, C15, C16)."""

import os

from hypothesis import strategies as st

from . import gen_pp

DIRS = ["", "src", "src/core", "src/core/deep", "include", "lib", "lib/util", "lib/src", "src/lib", "include/core"]
C_EXT = [".c", ".cpp", ".h", ".hpp", ".cu", ".cc"]
PLATFORM_NAMES = ["cpu", "gpu", "fpga", "arm", "cuda-12.1"]  # a name with a dot: it ends up in file names (dendrogram, databases)

FORTRAN_SNIPPETS = [
    "program p\n  implicit none\n  integer :: i\n#ifdef A\n  i = 1\n#else\n  i = 2\n#endif\n  ! comment only\n  print *, i\nend program p\n",
    "subroutine s(x)\n  real :: x\n!$omp parallel\n  x = x + &\n      1.0\n!$omp end parallel\n#if defined(B)\n  x = 2.0 * x\n#endif\nend subroutine s\n",
    "module m\n\n  ! nothing\n  integer, parameter :: n = 3\nend module m\n",
]
ASM_SNIPPETS = [
    ".text\n.globl f\nf:\n  mov %eax, %ebx ; comment\n  ret\n",
    "// asm comment\n  nop\n\n  nop\n",
]
NONSOURCE = {"README.md": "# readme\ntext\n", "data.txt": "1 2 3\n", "build.log": "ok\n", "Makefile": "all:\n\tcc x.c\n"}


def join(d, n):
    return f"{d}/{n}" if d else n


@st.composite
def codebases(draw, max_files=12, min_platforms=0, max_platforms=4, symlinks=True, want_counted=True, ext_headers=False, header_bias=False):
    """`ext_headers`: some headers live in ../ext (outside the code base root).
    `header_bias`: more headers that define macros, more includes (C08/C10)."""
    dirs = draw(st.lists(st.sampled_from(DIRS), min_size=1, max_size=5, unique=True))
    nfiles = draw(st.integers(2 if header_bias else 1, max_files))
    names = []
    exts = C_EXT + C_EXT + [".f90", ".S"] + ([".h", ".h", ".hpp", ".c", ".cpp"] * 2 if header_bias else [])
    for i in range(nfiles):
        d = draw(st.sampled_from(dirs))
        ext = draw(st.sampled_from(exts))
        if ext_headers and ext in (".h", ".hpp") and draw(st.integers(0, 2)) == 0:
            d = "../ext"
        names.append(join(d, f"f{i}{ext}"))
    headers = [n for n in names if n.endswith((".h", ".hpp"))]
    tree, extra = {}, {}
    for n in names:
        if n.endswith(".f90"):
            extra[n] = draw(st.sampled_from(FORTRAN_SNIPPETS))
        elif n.endswith(".S"):
            extra[n] = draw(st.sampled_from(ASM_SNIPPETS))
        else:
            inc = None
            # acyclic by construction: a file only includes headers that come later in the list
            others = [h for h in headers if names.index(h) > names.index(n)]
            if others:
                here = os.path.dirname(n)
                inc = st.sampled_from(others).flatmap(
                    lambda h: st.sampled_from(
                        [[["include", "quote", os.path.relpath(h, here or ".")]], [["include", "angle", os.path.basename(h)]], [["include", "quote", os.path.basename(h)]]]
                    )
                )
            items = draw(gen_pp.item_lists(2, gen_pp.NAMES, extra=inc, max_items=5, raw=False))
            if want_counted and not items:
                items = [["code", 1]]
            tree[n] = {"items": items, "style": draw(gen_pp.styles())}
    for nm in draw(st.lists(st.sampled_from(sorted(NONSOURCE)), max_size=2, unique=True)):
        extra[join(draw(st.sampled_from(dirs)), nm)] = NONSOURCE[nm]
    links = {}
    if symlinks:
        for j in range(draw(st.integers(0, 2))):
            tgt = draw(st.sampled_from(names))
            d = draw(st.sampled_from(dirs))
            ln = join(d, f"link{j}{os.path.splitext(tgt)[1]}")
            links[ln] = os.path.relpath(tgt, d or ".")
    compilable = [n for n in names if not n.endswith((".h", ".hpp"))] or names
    hdr_dirs = sorted({os.path.dirname(h) or "." for h in headers})
    plats = {}
    for pn in draw(st.lists(st.sampled_from(PLATFORM_NAMES), min_size=min_platforms, max_size=max_platforms, unique=True)):
        cmds = []
        for _ in range(draw(st.integers(0 if min_platforms == 0 else 1, 4))):
            f = draw(st.sampled_from(compilable + (sorted(links) if links else [])))
            dirs_ = [["I", d] for d in draw(st.lists(st.sampled_from(hdr_dirs), max_size=2, unique=True))] if hdr_dirs else []
            cmds.append({"file": f, "defines": draw(gen_pp.define_sets()), "dirs": dirs_, "forced": []})
        plats[pn] = cmds
    return {"tree": tree, "extra": extra, "symlinks": links, "platforms": plats, "plain": draw(st.booleans())}
