"""Shared machinery: seeds, results, evidence, known findings, replay files,
worker pool, scratch directories and the Hypothesis driver.

Everything a check does is a pure function of the tree under test and
VERIF_SEED (see DESIGN.md 1.2).
"""

from __future__ import annotations

import collections
import hashlib
import json
import multiprocessing
import os
import shutil
import sys
import tempfile
import time
import traceback

VERIF = os.path.dirname(os.path.dirname(os.path.abspath(__file__)))
REPO = os.environ.get("CBI_REPO", "/repo")
NPROC = int(os.environ.get("VERIF_NPROC", "16"))


def setup_import_path():
    """Make `import codebasin` resolve to the tree under test."""
    if REPO not in sys.path:
        sys.path.insert(0, REPO)
    pp = os.environ.get("PYTHONPATH", "")
    parts = [p for p in pp.split(os.pathsep) if p]
    if REPO not in parts:
        os.environ["PYTHONPATH"] = os.pathsep.join([REPO] + parts)
    import warnings

    warnings.filterwarnings("ignore", category=DeprecationWarning)
    warnings.filterwarnings("ignore", category=RuntimeWarning)
    import logging

    logging.getLogger("codebasin").setLevel(logging.CRITICAL + 1)


class HarnessError(Exception):
    """Oracle/model/adapter problem: exit 2, never a VIOLATION."""


def derive_seed(seed: int, *parts) -> int:
    h = hashlib.sha256(repr((seed,) + parts).encode()).digest()
    return int.from_bytes(h[:8], "big") >> 1


def case_hash(obj) -> int:
    s = json.dumps(obj, sort_keys=True, default=_jsonable, separators=(",", ":"))
    return int.from_bytes(hashlib.blake2b(s.encode(), digest_size=8).digest(), "big")


def _jsonable(o):
    if isinstance(o, (set, frozenset)):
        return sorted(_jsonable(x) for x in o)
    if isinstance(o, tuple):
        return list(o)
    if isinstance(o, bytes):
        return {"__bytes__": o.hex()}
    if hasattr(o, "to_json"):
        return o.to_json()
    if hasattr(o, "__dict__"):
        return {"__cls__": type(o).__name__, **o.__dict__}
    return repr(o)


def to_jsonable(o):
    return json.loads(json.dumps(o, default=_jsonable, sort_keys=True))


class Result:
    """What one run (or one shard of it) explored."""

    MAX_SAMPLES = 12
    MAX_VIOL = 40

    def __init__(self):
        self.evaluations = 0
        self.nontrivial = set()
        self.nontrivial_extra = 0  # distinct-by-construction (enumerations)
        self.samples = []
        self.violations = []
        self.labels = collections.Counter()
        self.discarded = collections.Counter()
        self.suppressed = collections.Counter()
        self.extra = {}
        self.exhaustive = None

    def case(self, key=None, nontrivial=False, sample=None, labels=()):
        self.evaluations += 1
        if nontrivial:
            if key is None:
                self.nontrivial_extra += 1
            else:
                self.nontrivial.add(key if isinstance(key, int) else case_hash(key))
        for lab in labels:
            self.labels[lab] += 1
        if sample is not None and len(self.samples) < self.MAX_SAMPLES:
            if nontrivial or len(self.samples) < 2:
                self.samples.append(to_jsonable(sample))

    def violation(self, signature, case, expected=None, observed=None, note="", extra=None):
        v = {
            "signature": signature,
            "case": to_jsonable(case),
            "expected": to_jsonable(expected),
            "observed": to_jsonable(observed),
            "note": note,
        }
        if extra:
            v.update(to_jsonable(extra))
        if len(self.violations) < self.MAX_VIOL or not any(
            x["signature"] == signature for x in self.violations
        ):
            self.violations.append(v)
        return v

    def oracle_disagreement(self, description):
        """The reference model and the real tool disagree on a case the tool accepts
        silently: the case decides nothing (it is dropped, counted and shown in the
        evidence).  run_check turns a *large* number of them into exit 2."""
        self.extra["oracle_disagreements"] = self.extra.get("oracle_disagreements", 0) + 1
        self.discarded["model-and-tool-disagree (case dropped)"] += 1
        lst = self.extra.setdefault("oracle_disagreement_samples", [])
        if len(lst) < 5:
            lst.append(str(description)[:600])

    def merge(self, other: "Result"):
        self.evaluations += other.evaluations
        self.nontrivial |= other.nontrivial
        self.nontrivial_extra += other.nontrivial_extra
        for s in other.samples:
            if len(self.samples) < self.MAX_SAMPLES:
                self.samples.append(s)
        for v in other.violations:
            if len(self.violations) < self.MAX_VIOL or not any(
                x["signature"] == v["signature"] for x in self.violations
            ):
                self.violations.append(v)
        self.labels.update(other.labels)
        self.discarded.update(other.discarded)
        self.suppressed.update(other.suppressed)
        for k, v in other.extra.items():
            if isinstance(v, (int, float)) and isinstance(self.extra.get(k, 0), (int, float)):
                self.extra[k] = self.extra.get(k, 0) + v
            elif isinstance(v, list) and isinstance(self.extra.get(k, []), list) and k.endswith("_samples"):
                self.extra[k] = (self.extra.get(k, []) + v)[:5]
            else:
                self.extra.setdefault(k, v)
        if other.exhaustive is not None:
            self.exhaustive = other.exhaustive if self.exhaustive is None else (self.exhaustive and other.exhaustive)
        return self

    @property
    def distinct_nontrivial(self):
        return len(self.nontrivial) + self.nontrivial_extra


class Ctx:
    def __init__(self, prop, tier, seed):
        self.prop = prop
        self.tier = tier
        self.seed = seed
        self.known = {}  # signature -> finding entry (active known findings)
        self.t0 = time.time()

    @property
    def quick(self):
        return self.tier == "quick"

    def pick(self, quick, thorough):
        return quick if self.tier == "quick" else thorough

    def shard_seed(self, *parts):
        return derive_seed(self.seed, self.prop, *parts)

    @property
    def known_sigs(self):
        return frozenset(self.known)


# --------------------------------------------------------------------------
# scratch space
# --------------------------------------------------------------------------


def scratch_base():
    for d in ("/dev/shm", os.environ.get("TMPDIR", ""), "/tmp"):
        if d and os.path.isdir(d) and os.access(d, os.W_OK):
            return d
    return tempfile.gettempdir()


class Scratch:
    """A throw-away directory outside /repo and /verif, removed on exit."""

    def __init__(self, tag="case"):
        self.tag = tag
        self.path = None

    def __enter__(self):
        self.path = os.path.realpath(tempfile.mkdtemp(prefix=f"cbiv-{self.tag}-", dir=scratch_base()))
        return self.path

    def __exit__(self, *exc):
        shutil.rmtree(self.path, ignore_errors=True)
        return False


def write_tree(root, files, symlinks=None):
    """files: relpath -> str|bytes ; symlinks: relpath -> target (as given)."""
    for rel, content in files.items():
        p = os.path.join(root, rel)
        os.makedirs(os.path.dirname(p), exist_ok=True)
        if isinstance(content, bytes):
            with open(p, "wb") as f:
                f.write(content)
        else:
            with open(p, "w", newline="") as f:
                f.write(content)
    for rel, target in (symlinks or {}).items():
        p = os.path.join(root, rel)
        os.makedirs(os.path.dirname(p), exist_ok=True)
        if os.path.lexists(p):
            os.unlink(p)
        os.symlink(target, p)


# --------------------------------------------------------------------------
# worker pool
# --------------------------------------------------------------------------


def _worker(args):
    fn, a = args
    try:
        return ("ok", fn(*a))
    except HarnessError as e:
        return ("harness", f"{e}\n{traceback.format_exc()}")
    except BaseException as e:  # noqa
        return ("harness", f"{type(e).__name__}: {e}\n{traceback.format_exc()}")


SHARD_ERRORS = []


def pool_map(fn, arglist, nproc=None):
    """Run fn(*args) for every args in arglist on the worker pool; results in
    order.  A worker exception is a harness error (deferred, see SHARD_ERRORS)."""
    arglist = list(arglist)
    nproc = min(nproc or NPROC, max(1, len(arglist)))
    if nproc == 1 or os.environ.get("VERIF_SERIAL"):
        outs = [_worker((fn, a)) for a in arglist]
    else:
        ctx = multiprocessing.get_context("fork")
        with ctx.Pool(nproc) as pool:
            outs = pool.map(_worker, [(fn, a) for a in arglist], chunksize=1)
    res = []
    for kind, val in outs:
        if kind != "ok":
            # deferred: run_check exits 2 for these unless other shards found
            # (oracle-confirmed) violations, which are then still reported
            SHARD_ERRORS.append(val)
            continue
        res.append(val)
    return res


def merge_results(results):
    out = Result()
    for r in results:
        out.merge(r)
    return out


# --------------------------------------------------------------------------
# Hypothesis driver
# --------------------------------------------------------------------------


class _Fail(Exception):
    pass


class _ShrinkBudget(KeyboardInterrupt):
    """Raised inside the property to stop Hypothesis once the shrinking budget
    is used up; the smallest failing case seen so far is reported."""


def hyp_search(strategy, check_fn, n_examples, seed, res: Result, known_sigs=frozenset(), shrink=True, stateful=False, shrink_budget_s=None):
    """Drive check_fn(case, res) -> list[violation dict] over `strategy`.

    Violations whose signature is a listed known finding are counted in
    res.suppressed and the search continues behind them; any other violation
    fails the Hypothesis test, is shrunk, and the minimal failing case's
    violations are recorded in res.violations.
    """
    import hypothesis
    from hypothesis import HealthCheck, Phase, given, settings

    last = {}
    state = {"shrinking": False, "t_fail": None}
    if shrink_budget_s is None:
        shrink_budget_s = float(os.environ.get("VERIF_SHRINK_BUDGET", "40" if os.environ.get("VERIF_TIER", "quick") == "quick" else "200"))

    phases = [Phase.explicit, Phase.generate, Phase.target]
    if shrink:
        phases.append(Phase.shrink)

    @hypothesis.seed(seed)
    @settings(
        max_examples=n_examples,
        database=None,
        deadline=None,
        derandomize=False,
        report_multiple_bugs=False,
        phases=phases,
        suppress_health_check=[HealthCheck.too_slow, HealthCheck.data_too_large, HealthCheck.large_base_example],
        print_blob=False,
    )
    @given(strategy)
    def test(case):
        if state["shrinking"] and time.time() - state["t_fail"] > shrink_budget_s:
            raise _ShrinkBudget()
        probe = Result() if state["shrinking"] else res
        vs = check_fn(case, probe)
        unknown = []
        for v in vs:
            if v["signature"] in known_sigs:
                if not state["shrinking"]:
                    res.suppressed[v["signature"]] += 1
            else:
                unknown.append(v)
        if unknown:
            if not state["shrinking"]:
                state["t_fail"] = time.time()
            state["shrinking"] = True
            last["v"] = unknown
            raise _Fail(unknown[0]["signature"])

    try:
        test()
    except (_Fail, _ShrinkBudget):
        for v in last["v"]:
            res.violation(**{k: v.get(k) for k in ("signature", "case", "expected", "observed", "note")})
    except hypothesis.errors.HypothesisException as e:
        if last.get("v"):
            # e.g. Flaky: the case failed once and passed when Hypothesis repeated it - the failure that
            # was observed is reported (for schedule-dependent behaviour that *is* the finding)
            for v in last["v"]:
                res.violation(**{**{k: v.get(k) for k in ("signature", "case", "expected", "observed")}, "note": (v.get("note") or "") + f" [{type(e).__name__}: not reproduced when repeated]"})
        else:
            raise HarnessError(f"hypothesis: {type(e).__name__}: {e}")
    return res


def make_violation(signature, case, expected=None, observed=None, note=""):
    return {
        "signature": signature,
        "case": to_jsonable(case),
        "expected": to_jsonable(expected),
        "observed": to_jsonable(observed),
        "note": note,
    }


# --------------------------------------------------------------------------
# known findings, replay files, evidence
# --------------------------------------------------------------------------


def load_findings(prop):
    path = os.path.join(VERIF, "known_findings.json")
    if not os.path.exists(path):
        return []
    with open(path) as f:
        data = json.load(f)
    return [e for e in data.get("findings", []) if e["property"] == prop]


def write_replay(prop, violation, tier, seed):
    d = os.path.join(VERIF, "out", prop)
    os.makedirs(d, exist_ok=True)
    body = {"property": prop, "tier": tier, "seed": seed, **violation}
    h = hashlib.sha256(json.dumps(body["case"], sort_keys=True).encode() + violation["signature"].encode()).hexdigest()[:16]
    path = os.path.join(d, f"{h}.json")
    with open(path, "w") as f:
        json.dump(body, f, indent=1, sort_keys=True)
    return path


def write_evidence(prop, tier, seed, res: Result, rule, assumptions, wall_s, nviol, extra_cov=None):
    evdir = os.path.join(VERIF, "evidence") if os.path.realpath(REPO) == "/repo" else os.path.join(VERIF, "out", "evidence-alt")
    os.makedirs(evdir, exist_ok=True)
    cov = {
        "evaluations": int(res.evaluations),
        "distinct_nontrivial": int(res.distinct_nontrivial),
        "rule": rule,
        "samples": res.samples[: Result.MAX_SAMPLES] or ["<none>"],
        "labels": dict(sorted(res.labels.items())),
        "discarded": dict(sorted(res.discarded.items())),
        "suppressed_known_findings": dict(sorted(res.suppressed.items())),
    }
    if res.exhaustive is not None:
        cov["exhaustive"] = bool(res.exhaustive)
    cov.update(to_jsonable(res.extra))
    if extra_cov:
        cov.update(to_jsonable(extra_cov))
    ev = {
        "property_id": prop,
        "tier": tier,
        "seed": int(seed),
        "level": "exploration",
        "coverage": cov,
        "assumptions": assumptions,
        "wall_s": round(wall_s, 3),
        "violations": int(nviol),
    }
    path = os.path.join(evdir, f"{prop}.json")
    tmp = path + ".tmp"
    with open(tmp, "w") as f:
        json.dump(ev, f, indent=1, sort_keys=True)
    os.replace(tmp, path)
    return path
