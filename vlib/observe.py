"""Adapters that observe the code under test (in-process API and CLIs)."""

import json
import os
import re
import subprocess
import sys

from . import core


def entry(path, defines=(), include_paths=(), include_files=()):
    return {"file": path, "defines": list(defines), "include_paths": list(include_paths), "include_files": list(include_files)}


def find(root, configuration, excludes=None, codebase_dirs=None):
    from codebasin import CodeBase, finder

    cb = CodeBase(*(codebase_dirs or [root]), exclude_patterns=list(excludes or []))
    state = finder.find(root, cb, configuration)
    return state, cb


def attribution_of(state, path):
    """{physical line -> frozenset(platforms)} for every counted line of `path`
    (code and directive nodes).  Also returns structural problems (a line in
    two nodes, a line outside the file)."""
    from codebasin.preprocessor import CodeNode

    tree = state.get_tree(path)
    amap = state.get_map(path)
    out, problems = {}, []
    if tree is None:
        return None, ["file was never parsed"]
    for node in tree.walk():
        if isinstance(node, CodeNode):
            ps = frozenset(amap[node])
            if node.num_lines != len(node.lines):
                problems.append(f"node num_lines={node.num_lines} but lines={node.lines}")
            for ln in node.lines:
                if ln in out:
                    problems.append(f"line {ln} in two nodes")
                out[ln] = ps
    return out, problems


def attribution(state):
    """realpath -> {line -> frozenset(platforms)} for every parsed file"""
    res, problems = {}, {}
    for fn in list(state.get_filenames()):
        a, p = attribution_of(state, fn)
        res[fn] = a
        if p:
            problems[fn] = p
    return res, problems


def used_lines(attr, platform):
    return {ln for ln, ps in attr.items() if platform in ps}


# ---------------------------------------------------------------- CLI runners


def run_cli(module, args, cwd, env_extra=None, timeout=300):
    env = dict(os.environ)
    env["PYTHONPATH"] = os.pathsep.join([core.REPO] + [p for p in env.get("PYTHONPATH", "").split(os.pathsep) if p and p != core.REPO])
    env.setdefault("PYTHONHASHSEED", "0")
    env["PYTHONWARNINGS"] = "ignore"
    env["MPLBACKEND"] = "Agg"
    env["MPLCONFIGDIR"] = os.path.join(core.scratch_base(), "cbiv-mpl")
    if env_extra:
        env.update(env_extra)
    p = subprocess.run([sys.executable, "-m", module, *args], cwd=cwd, env=env, stdout=subprocess.PIPE, stderr=subprocess.PIPE, text=True, timeout=timeout)
    return p.returncode, p.stdout, p.stderr


def toml_str(s):
    return json.dumps(s)


def write_analysis(root, platforms, excludes=None, name="analysis.toml", order=None):
    """platforms: name -> list of compile-db entries (dicts with file, arguments|command, directory?).
    Writes <name>.json databases next to the analysis file (outside `root/src`)."""
    lines = []
    if excludes is not None:
        lines += ["[codebase]", "exclude = [" + ", ".join(toml_str(e) for e in excludes) + "]", ""]
    for pname in order or list(platforms):
        db = f"db-{pname}.json"
        with open(os.path.join(root, db), "w") as f:
            json.dump(platforms[pname], f, indent=1)
        lines += [f"[platform.{toml_str(pname)}]", f"commands = {toml_str(db)}", ""]
    path = os.path.join(root, name)
    with open(path, "w") as f:
        f.write("\n".join(lines))
    return path


def parse_summary(stdout):
    """-> dict(rows={frozenset: (loc, pct_str)}, divergence, coverage, avg_coverage, total) from `codebasin -R summary`"""
    rows = {}
    for m in re.finditer(r"^│\s*\{(.*?)\}\s*│\s*(\d+)\s*│\s*([\d.naninf-]+)\s*│\s*$", stdout, re.M):
        names = frozenset(x.strip() for x in m.group(1).split(",") if x.strip())
        rows[names] = (int(m.group(2)), m.group(3))
    out = {"rows": rows}
    for key, lab in (("divergence", "Code Divergence"), ("coverage", "Coverage (%)"), ("avg_coverage", "Avg. Coverage (%)"), ("total", "Total SLOC")):
        m = re.search(re.escape(lab) + r": (\S+)", stdout)
        out[key] = m.group(1) if m else None
    return out


TREE_ROW = re.compile(r"^\[([A-Z-]*) \| +(\S+) \| +(\S+) \| +(\S+)\] (.*)$")


def parse_tree(stdout):
    """-> (legend {letter: platform}, rows [(depth, name, letters, sloc, cov, avg, is_dir, link_target)])"""
    legend = {}
    rows = []
    for ln in stdout.splitlines():
        m = re.match(r"^([A-Z]): (.*)$", ln)
        if m and not rows:
            legend[m.group(1)] = m.group(2)
            continue
        m = TREE_ROW.match(ln)
        if not m:
            continue
        letters, sloc, cov, avg, rest = m.groups()
        # rest: prefix of "| ", "  ", then connector ("|" or "\\") then "-o name/" or "-- name"
        mm = re.match(r"^((?:[|] |  )*)([|\\]?)(-?o|--) (.*)$", rest)
        if not mm:
            rows.append((None, rest, letters, sloc, cov, avg, None, None))
            continue
        prefix, conn, stub, name = mm.groups()
        depth = 0 if conn == "" else len(prefix) // 2 + 1
        is_dir = stub.endswith("o")
        target = None
        if " -> " in name:
            name, target = name.split(" -> ", 1)
        if is_dir and name.endswith("/"):
            name = name[:-1]
        rows.append((depth, name, letters, sloc, cov, avg, is_dir, target))
    return legend, rows
