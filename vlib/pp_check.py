"""Evaluate one generated preprocessor case three ways: reference model (on
the AST), code under test (finder.find on the rendered files) and gcc -E (on
the same files), as described in DESIGN.md 1.3.

case = {
  "tree":   {relpath: {"items": [...], "style": [...]}},     files of the code base (under root/)
  "extra":  {relpath: text}                                   optional raw files
  "platforms": {name: [ {"file": rel, "defines": [...], "dirs": [[kind, rel]...], "forced": [rel...]} ... ]},
  "plain": bool                                               render without lexical variety
}
"""

import os
import re
import subprocess

from . import core, observe, pp_ast
from .core import make_violation


def materialise(case, root):
    texts, layouts, counted = pp_ast.render_tree(case["tree"], plain=case.get("plain", False))
    files = dict(texts)
    files.update(case.get("extra", {}))
    core.write_tree(root, files, case.get("symlinks"))
    return texts, layouts, counted


def abs_dirs(root, cmd):
    return [(k, os.path.normpath(os.path.join(root, d))) for k, d in cmd.get("dirs", [])]


def model_expect(case, root, layouts, counted):
    """-> (expected: abspath -> {line -> frozenset(platforms)}, events per (platform, idx), used per command)"""
    model = pp_ast.Model(case["tree"], layouts, root)
    per_cmd = {}
    events = {}
    traces = {}
    for pname, cmds in case["platforms"].items():
        for i, cmd in enumerate(cmds):
            used, ev = model.run(os.path.join(root, cmd["file"]), cmd.get("defines", ()), abs_dirs(root, cmd), cmd.get("forced", ()),
                                 cwd=os.path.join(root, cmd["cwd"]) if cmd.get("cwd") else None)
            per_cmd[(pname, i)] = {p: set(s) for p, s in used.items()}
            events[(pname, i)] = list(ev)
            traces[(pname, i)] = (list(model.trace), dict(model.entered))
    expected = {}
    for rel in case["tree"]:
        ap = os.path.realpath(os.path.join(root, rel))
        exp = {ln: set() for ln in counted[rel]}
        for (pname, i), used in per_cmd.items():
            for ln in used.get(ap, ()):
                exp[ln].add(pname)
        expected[ap] = {ln: frozenset(s) for ln, s in exp.items()}
    model_expect.traces = traces
    return expected, events, per_cmd


def cbi_config(case, root):
    cfg = {}
    for pname, cmds in case["platforms"].items():
        cfg[pname] = []
        for cmd in cmds:
            if case.get("via_argparser"):
                # the way load_database builds entries: compiler flags -> config.ArgumentParser
                from dataclasses import asdict

                from codebasin import config

                for pc in config.ArgumentParser("gcc").parse_args(gcc_flags(root, cmd)):
                    e = asdict(pc)
                    e["file"] = os.path.join(root, cmd["file"])
                    cfg[pname].append(e)
                continue
            cfg[pname].append(
                observe.entry(
                    os.path.join(root, cmd["file"]),
                    cmd.get("defines", ()),
                    [d for _, d in abs_dirs(root, cmd)],
                    cmd.get("forced", ()),
                )
            )
    return cfg


def gcc_flags(root, cmd):
    fl = []
    for d in cmd.get("defines", ()):
        fl.append("-D" + d)
    for k, d in abs_dirs(root, cmd):
        fl += ["-I" if k == "I" else "-isystem", d]
    for f in cmd.get("forced", ()):
        fl += ["-include", f]
    return fl


MARK = re.compile(r"\bM_(f\d+)_(\d+)\b")


def gcc_used_code(case, root, cmd, tool="gcc"):
    """-> (diagnosed, {abspath -> set(marker lines)})"""
    lang = "c++" if cmd["file"].endswith((".cpp", ".cc", ".cxx", ".hpp")) else "c"
    p = subprocess.run(
        [tool, "-E", "-P", "-x", lang, "-nostdinc", *gcc_flags(root, cmd), os.path.join(root, cmd["file"])],
        # the working directory matters for -include only: the command's own directory if it has one, else a neutral place
        cwd=os.path.join(root, cmd["cwd"]) if cmd.get("cwd") else root, stdout=subprocess.PIPE, stderr=subprocess.PIPE, text=True, errors="replace",
    )
    diag = bool(p.stderr.strip()) or p.returncode != 0
    ids = pp_ast.marker_file_ids(case["tree"])
    used = {}
    for fid, ln in MARK.findall(p.stdout):
        if fid in ids:
            used.setdefault(os.path.realpath(os.path.join(root, ids[fid])), set()).add(int(ln))
    return diag, used, p.stderr


def marker_lines(texts, rel):
    return {i for i, l in enumerate(texts[rel].split("\n"), 1) if MARK.search(l)}


def gcc_agrees_with_model(case, root, texts, per_cmd, res, tool="gcc"):
    """True: gcc silent on every command and equal to the model on marker
    lines.  False: some command diagnosed (case outside the domain).
    Raises HarnessError when gcc is silent but differs from the model."""
    for (pname, i), used in per_cmd.items():
        cmd = case["platforms"][pname][i]
        diag, gused, err = gcc_used_code(case, root, cmd, tool)
        if diag:
            m = re.search(r"(?:warning|error): (.*)", err)
            why = re.sub(r"[\"'‘’<][^\"'‘’>]*[\"'‘’>]", "X", m.group(1))[:50] if m else "?"
            res.discarded[f"{tool}-diagnosed: {why}"] += 1
            return False
        for rel in case["tree"]:
            ap = os.path.realpath(os.path.join(root, rel))
            m = used.get(ap, set()) & marker_lines(texts, rel)
            g = gused.get(ap, set())
            if m != g:
                res.oracle_disagreement(
                    f"model disagrees with {tool} on a silent case: file={rel} model_only={sorted(m-g)} {tool}_only={sorted(g-m)} cmd={cmd}\n--- text\n{texts[rel]}"
                )
                return False
    res.extra[f"{tool}_confirmed_model"] = res.extra.get(f"{tool}_confirmed_model", 0) + 1
    return True


def features(case):
    f = set()

    def cond(c):
        f.add("cond:" + c[0])
        for x in c[1:]:
            if isinstance(x, list):
                cond(x)

    def walk(items, depth):
        for it in items:
            k = it[0]
            if k == "chain":
                f.add(f"depth{min(depth+1,4)}")
                for kind, c, sub in it[1]:
                    f.add(kind)
                    if kind in ("if", "elif"):
                        cond(c)
                    walk(sub, depth + 1)
                if it[2] is not None:
                    f.add("else")
                    walk(it[2], depth + 1)
            elif k == "define":
                f.add("define" + ("-empty" if it[2] == "" else ""))
            elif k == "include":
                f.add("include-" + it[1])
            else:
                f.add(k)

    for file in case["tree"].values():
        walk(file["items"], 0)
    return f


def evaluate(case, res, sig_prefix="", confirm="on-failure", want_events=False):
    """Run the three-way comparison.  Returns (violations, info).  `confirm`:
    "always" | "on-failure" | "never" - when gcc is consulted."""
    info = {}
    with core.Scratch("pp") as root:
        texts, layouts, counted = materialise(case, root)
        info["texts"] = texts
        try:
            expected, events, per_cmd = model_expect(case, root, layouts, counted)
        except pp_ast.Invalid as e:
            res.discarded[f"model-invalid:{e}"[:60]] += 1
            return None, info
        info["events"] = events
        info["traces"] = model_expect.traces
        info["expected"] = expected
        info["root"] = root
        confirmed = None
        if confirm == "always":
            confirmed = gcc_agrees_with_model(case, root, texts, per_cmd, res)
            if not confirmed:
                return None, info
        vs = []
        feat = ",".join(sorted(features(case)))
        try:
            cbroot = os.path.join(root, case["cbroot"]) if case.get("cbroot") else root
            state, cb = observe.find(cbroot, cbi_config(case, root))
            observed, problems = observe.attribution(state)
            info["state"] = state
            info["codebase"] = cb
        except Exception as e:
            if confirmed is None and confirm != "never":
                confirmed = gcc_agrees_with_model(case, root, texts, per_cmd, res)
                if not confirmed:
                    return None, info
            return [make_violation(f"{sig_prefix}exception:{type(e).__name__}|{feat}", _case_json(case, texts), "analysis succeeds", f"{type(e).__name__}: {e}")], info
        info["observed"] = observed
        for ap, exp in expected.items():
            obs = observed.get(ap)
            rel = os.path.relpath(ap, root)
            if case.get("cbroot") and not rel.startswith(case["cbroot"] + os.sep):
                continue  # outside the code base: not reported anywhere
            if obs is None:
                obs = {}
            if ap in problems:
                vs.append(make_violation(f"{sig_prefix}structure|{feat}", _case_json(case, texts), "each counted line in exactly one node", problems[ap]))
            if obs != exp:
                diff = {
                    str(ln): [sorted(exp.get(ln, ["<uncounted>"])) if ln in exp else "<uncounted>", sorted(obs[ln]) if ln in obs else "<uncounted>"]
                    for ln in sorted(set(exp) | set(obs))
                    if exp.get(ln, "<u>") != obs.get(ln, "<u>")
                }
                kinds = set()
                for ln in diff:
                    ln = int(ln)
                    if ln not in exp:
                        kinds.add("extra-line")
                    elif ln not in obs:
                        kinds.add("missing-line")
                    elif exp[ln] - obs[ln]:
                        kinds.add("platform-missing")
                    else:
                        kinds.add("platform-extra")
                vs.append(make_violation(f"{sig_prefix}attribution:{'+'.join(sorted(kinds))}|{feat}", _case_json(case, texts), {"file": rel, "line -> [expected, observed]": diff}, "see expected", note=f"file {rel}"))
        if vs and confirmed is None and confirm != "never":
            confirmed = gcc_agrees_with_model(case, root, texts, per_cmd, res)
            if not confirmed:
                return None, info
        return vs, info


def _case_json(case, texts):
    return {"case": case, "texts": texts}
