#!/venv/bin/python
"""MANIFEST.setup_cmd: make sure the offline dependencies of the checks exist.
Only Hypothesis is needed by every check (already in /venv on this image);
atheris is optional (coverage-guided tier) and is installed from the offline
wheelhouse into /verif/.deps, never into /venv."""
import importlib.util
import os
import subprocess
import sys

HERE = os.path.dirname(os.path.dirname(os.path.abspath(__file__)))
WH = "/opt/veriftools/wheels"


def pip(*args):
    return subprocess.call([sys.executable, "-m", "pip", "install", "--no-index", "--find-links", WH, *args])


if importlib.util.find_spec("hypothesis") is None:
    if pip("hypothesis") != 0:
        print("setup: could not install hypothesis")
        sys.exit(1)
deps = os.path.join(HERE, ".deps")
if not os.path.isdir(os.path.join(deps, "atheris")):
    pip("--no-deps", "--target", deps, "atheris")  # optional; failure tolerated
for tool in ("gcc", "clang", "gfortran", "git"):
    if subprocess.call(["which", tool], stdout=subprocess.DEVNULL) != 0:
        print(f"setup: warning: {tool} not found (oracle unavailable)")
print("setup ok")
