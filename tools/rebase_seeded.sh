#!/bin/bash
# tools/rebase_seeded.sh <seeded-name>...: re-create a seeded patch that no longer applies to /repo HEAD
# (finds the newest /repo commit it applies to, commits it there in a scratch worktree, cherry-picks onto HEAD)
cd /verif
for n in "$@"; do
  P=$(readlink -f seeded/$n/patch.diff)
  W=/tmp/rebase-$$
  base=""
  for c in $(git -C /repo log --format=%H | head -80); do
    git -C /repo worktree add -q --detach $W $c 2>/dev/null || continue
    if (cd $W && git apply --check "$P" 2>/dev/null); then base=$c; break; fi
    git -C /repo worktree remove --force $W
  done
  if [ -z "$base" ]; then echo "NOBASE   $n"; continue; fi
  (cd $W && git apply "$P" && git -c user.name=x -c user.email=x@x commit -qam seeded) || { echo "FAILED   $n"; git -C /repo worktree remove --force $W; continue; }
  tmp=$(git -C $W rev-parse HEAD)
  head=$(git -C /repo rev-parse HEAD)
  (cd $W && git checkout -q --detach $head && git -c user.name=x -c user.email=x@x cherry-pick $tmp >/dev/null 2>&1)
  if [ $? -eq 0 ]; then
    (cd $W && git diff HEAD~1 HEAD) > "$P"
    echo "REBASED  $n (was based on $(echo $base | cut -c1-7))"
  else
    echo "CONFLICT $n (based on $(echo $base | cut -c1-7)): $(cd $W && git diff --name-only --diff-filter=U | tr '\n' ' ')"
    (cd $W && git cherry-pick --abort 2>/dev/null)
  fi
  git -C /repo worktree remove --force $W
done
