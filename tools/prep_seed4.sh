#!/bin/bash
# fourth round: like prep_seed3.sh; the list of ideas already taken is derived from the names in /verif/seeded; output dir <ID>r4
mkdir -p /tmp/seed/out
for p in "$@"; do
  git -C /repo worktree remove --force /tmp/seed/${p}r4 2>/dev/null
  git -C /repo worktree add -q --detach /tmp/seed/${p}r4 HEAD && mkdir -p /tmp/seed/out/${p}r4
  /venv/bin/python - "$p" <<'PY'
import sys, json, os
p=sys.argv[1]
for l in open('/verif/properties.jsonl'):
    d=json.loads(l)
    if d['id']==p:
        prop=f"{d['id']}: {d['title']}\n\n{d['statement']}\n\nQuantified over: {d['quantifier']['text']}\n"
taken="; ".join(n[4:].replace('-',' ') for n in sorted(os.listdir('/verif/seeded')) if n.startswith(p+'-'))
t=open('/verif/tools/seed_prompt.tmpl').read().replace('@ID@',p+"r4").replace('@PROPERTY@',prop).replace('@k@','K')
t=t.replace("Task: produce TWO independent", "Other people have already produced mutants based on these ideas, so do NOT reuse them or close variants; pick different code regions / different clauses of the property, and prefer subtle changes that need a rare input shape or a sequence of steps: " + taken + ".\n\nTask: produce TWO independent")
open(f'/tmp/seed/out/{p}r4.prompt','w').write(t)
PY
done
