#!/bin/bash
# tools/prep_hunt.sh Cxx...: scratch worktree + prompt for a defect-hunting sub-agent (works on the unchanged tree)
mkdir -p /tmp/hunt/out
for p in "$@"; do
  git -C /repo worktree remove --force /tmp/hunt/$p 2>/dev/null
  git -C /repo worktree add -q --detach /tmp/hunt/$p HEAD && mkdir -p /tmp/hunt/out/$p
  /venv/bin/python - "$p" <<'PY'
import sys, json
p=sys.argv[1]
for l in open('/verif/properties.jsonl'):
    d=json.loads(l)
    if d['id']==p:
        prop=f"{d['id']}: {d['title']}\n\n{d['statement']}\n\nQuantified over: {d['quantifier']['text']}\n"
k=json.load(open('/verif/known_findings.json'))['findings']
known="; ".join(e['what_fails'].replace('KNOWN-FINDING: ','') for e in k if e['property']==p and e['status']=='known') or "nothing for this property"
t=open('/verif/tools/hunt_prompt.tmpl').read().replace('@ID@',p).replace('@PROPERTY@',prop).replace('@KNOWN@',known)
open(f'/tmp/hunt/out/{p}.prompt','w').write(t)
PY
done
