#!/usr/bin/env python3
"""keep_seed.py <prop> <k> <name> <needs> <caught_by> <ran>: copy a confirmed seeded change into /verif/seeded/<name>/"""
import json, os, shutil, sys
prop, k, name, needs, caught, ran = sys.argv[1:7]
src = f"/tmp/seed/out/{prop}"
dst = f"/verif/seeded/{name}"
os.makedirs(dst, exist_ok=True)
shutil.copy(f"{src}/patch{k}.diff", f"{dst}/patch.diff")
shutil.copy(f"{src}/demo{k}.py", f"{dst}/demo.py")
if os.path.exists(f"{src}/notes{k}.md"):
    shutil.copy(f"{src}/notes{k}.md", f"{dst}/notes.md")
json.dump({"property": prop, "breaks": prop, "needs_to_manifest": needs, "detected_by": caught, "what_was_run": ran,
           "confirmed": "existing 145 tests pass with the patch; demo exits 0 on the clean tree and non-zero with the patch (tools/try_seed.sh)"},
          open(f"{dst}/meta.json", "w"), indent=1)
print("kept", dst)
