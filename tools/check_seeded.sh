#!/bin/bash
# tools/check_seeded.sh [names...]: run every kept seeded change against the quick tier of its property
cd /verif
names=${@:-$(ls seeded)}
for n in $names; do
  prop=$(/venv/bin/python -c "import json;print(json.load(open('seeded/$n/meta.json'))['property'])")
  obs=$(/venv/bin/python -c "import json;print(json.load(open('seeded/$n/meta.json')).get('obsolete',''))")
  if [ -n "$obs" ]; then echo "OBSOLETE $n :: $obs"; continue; fi
  r=$(tools/try_seed.sh seeded/$n/patch.diff - $prop 2>&1 | grep -e "^$prop: exit" -e "patch does not apply")
  case "$r" in
    *"does not apply"*) echo "STALE    $n :: patch no longer applies to /repo HEAD (rebase it)";;
    *"exit 1"*) echo "DETECTED $n :: $(echo $r | cut -c1-160)";;
    *) echo "MISSED   $n :: $r";;
  esac
done
