#!/bin/bash
# third round: same as prep_seed.sh but tells the agent which ideas are already taken; output dir <ID>r3
for p in "$@"; do
  git -C /repo worktree remove --force /tmp/seed/${p}r3 2>/dev/null
  git -C /repo worktree add -q --detach /tmp/seed/${p}r3 HEAD && mkdir -p /tmp/seed/out/${p}r3
  /venv/bin/python - "$p" <<'PY'
import sys, json
p=sys.argv[1]
for l in open('/verif/properties.jsonl'):
    d=json.loads(l)
    if d['id']==p:
        prop=f"{d['id']}: {d['title']}\n\n{d['statement']}\n\nQuantified over: {d['quantifier']['text']}\n"
taken=json.load(open('/tmp/seed/taken.json')).get(p,"")
t=open('/verif/tools/seed_prompt.tmpl').read().replace('@ID@',p+"r3").replace('@PROPERTY@',prop).replace('@k@','K')
t=t.replace("Task: produce TWO independent", "Other people have already produced mutants based on these ideas, so do NOT reuse them or close variants; pick different code regions / different clauses of the property: " + taken + ".\n\nTask: produce TWO independent")
open(f'/tmp/seed/out/{p}r3.prompt','w').write(t)
PY
done
