#!/usr/bin/env python3
"""Regenerates /verif/MANIFEST.json from the table below (edit here, not the JSON)."""
import json
import os

HERE = os.path.dirname(os.path.dirname(os.path.abspath(__file__)))

PY = "/venv/bin/python"

CHECKS = {
    "C01": dict(
        technique="property-based testing: exhaustive chain-shape enumeration + Hypothesis program ASTs vs reference preprocessor model, differential against gcc -E",
        text="Generated-input search over programs x -D configurations: every conditional-chain shape up to a size bound under all 2^k assignments, plus Hypothesis programs (nesting 4, #define/#undef, lexical variety). Each counted line's platform set is compared with a reference model on the AST; gcc -E marker survival validates the model and every reported disagreement. Bounded exploration, no proof.",
        note="Trusts gcc 12 as the conforming preprocessor and the ~300-line AST model/renderer in vlib/pp_ast.py (cross-checked against gcc each run).",
        ref="2 C01",
    ),
    "C02": dict(
        technique="property-based testing and fuzzing: exhaustive small-expression enumeration + Hypothesis expression trees + atheris coverage-guided campaign (bytes -> AST) vs exact-integer ISO C model, differential against gcc -E",
        text="Generated-input search over #if expressions: all operator pairs/compositions, all <=2-operator expressions over boundary literals (sampled in quick, complete in thorough) and random trees, observed through value-revealing wrappers (E, (E)==V, (E)!=V, signedness probe); the model is confirmed by gcc on a sample and on every unlisted disagreement; unevaluated-#elif programs with garbage expressions. Bounded exploration.",
        note="Trusts gcc 12 for implementation-defined behaviour and the model in vlib/model_expr.py (gcc-validated each run); UB and gcc-diagnosed expressions are excluded.",
        ref="2 C02",
    ),
    "C03": dict(
        technique="property-based testing: Hypothesis macro tables x invocation lines; differential against gcc -E and clang -E (both must accept silently and agree); watchdog for termination",
        text="Generated-input search over macro tables (object-/function-like, variadic, #, ## chains, nested/mutual/self reference) and invocation lines (empty and nested arguments, names without parentheses, results applied to following tokens). CBI's token stream from MacroExpander.expand is compared token by token with gcc's (re-tokenised by a reference pp-tokeniser); the truth of `#if (INV)`, computed #include and the -D form of the same table are compared as well; each expansion runs under a watchdog. Failures are minimised by batched delta debugging through the compilers. Bounded exploration; termination is checked with a time bound, not proved.",
        note="Trusts gcc 12 and clang 14 agreeing silently as the definition of the conforming expansion; cases either of them diagnoses are excluded.",
        ref="2 C03",
    ),
    "C04": dict(
        technique="property-based testing: Hypothesis multi-directory include trees vs reference search-rule model, differential against gcc -E",
        text="Generated-input search over multi-directory trees with same-named headers, quote/angle/computed includes, guards and #pragma once, crossed with random -I/-isystem orders, -D sets and -include, fed through codebasin's own argument parser. Expected per-line platform sets of every code-base file come from a memo-free model of the documented search rules; gcc -E with the same flags validates the model on marker lines. Bounded exploration.",
        note="Trusts gcc 12 for the search order and the model in vlib/pp_ast.py (gcc-validated each run); cases with a reached missing header or any gcc diagnostic are excluded.",
        ref="2 C04",
    ),
    "C05": dict(
        technique="property-based testing and fuzzing: exhaustive short-text enumeration + Hypothesis token-level texts + atheris coverage-guided campaign on FileParser, all vs reference phase-2/3 scanner; gcc -E as domain filter and scanner validation",
        text="Generated-input search over C source texts: every text up to a length bound over the 10-character lexical alphabet and Hypothesis token-level texts (literals containing comment markers, multi-line and continued comments, continuations between any two characters, directive lines). The set of counted physical lines, the directive/code classification per logical line, duplicates and total_sloc from FileParser are compared with a reference scanner written from translation phases 2-3; gcc -E validates the scanner and filters the domain. Bounded exploration.",
        note="Trusts the 100-line scanner in vlib/model_lines_c.py (validated against gcc -E line structure on continuation-free texts each run); enumerated '#' lines are limited to null directives.",
        ref="2 C05",
    ),
    "C06": dict(
        technique="property-based testing: Hypothesis code bases; cross-front-end agreement and invariants against the in-process per-line attribution",
        text="Generated-input search over multi-file, multi-directory code bases (C/C++/CUDA/Fortran/asm, unused files, file symlinks, 0-4 platforms through real compilation databases). From the in-process per-line attribution the check derives what get_setmap, the summary table (rows, percentages, total), every cbi-tree row (files, directory sums, root, --prune, -L) and the cbi-cov export (content hash, used/unused partition, platform analysed alone) must be; the in-process report functions are checked on every case and the three real CLIs on a subset. Bounded exploration.",
        note="The reference is the tool's own per-line attribution (its correctness is C01/C04/C05); printed numbers are compared at printed precision; code bases with no counted line are discarded.",
        ref="2 C06",
    ),
    "C08": dict(
        technique="property-based testing: Hypothesis code bases with generated command histories (incl. a stateful rule-based machine that grows the history step by step); metamorphic relations (union of fresh single-command analyses, projection, permutation)",
        text="Generated-input search over code bases with macro-carrying shared headers and 1-4 platforms x 1-4 commands: the full analysis must equal the union of fresh single-command analyses, any platform subset must give the projection (also through codebasin -p / cbi-tree -p), and permuting commands/platforms must not change any line's platform set. Bounded exploration of histories (command sequences up to 16).",
        note="Relations over the implementation itself; the harness resets the process-wide compiler cache before each analysis.",
        ref="2 C08",
    ),
    "C09": dict(
        technique="property-based testing: Hypothesis directory trees x gitignore pattern lists; differential against `git check-ignore --no-index` plus a direct os model; all path spellings must agree",
        text="Generated-input search over trees with awkward names, symlinks (file, directory, dangling, to and from outside) and pattern lists derived from the tree's own names (anchors, trailing slash, *, ?, classes, **, escapes, negation, comments, trailing blanks). Membership of every path under every spelling and the enumeration of the code base are compared with git's verdict on the resolved root-relative path combined with an os-level model (existing regular file, recognised extension, under the root). Bounded exploration.",
        note="Trusts git 2.39 for .gitignore semantics; ASCII names (git matches bytes, pathspec characters). Two known pathspec/git divergences are classified by root cause and reported as KNOWN-FINDING.",
        ref="2 C09",
    ),
    "C10": dict(
        technique="property-based testing: Hypothesis code bases x generated exclude-pattern lists; metamorphic relations with/without exclusion, relocation of out-of-root headers, -x vs analysis file",
        text="Generated-input search over code bases whose excluded or out-of-root headers define macros that survivors test. Surviving files must keep their per-line attribution, the setmap difference must be exactly the removed files' lines, moving ../ext headers inside the root must change nothing else, and -x on codebasin / cbi-tree / cbi-cov must equal the analysis-file exclude / the in-process result. Bounded exploration.",
        note="Which files a pattern removes is taken from CodeBase membership (C09 checks its git semantics).",
        ref="2 C10",
    ),
    "C07": dict(
        technique="property-based testing: exhaustive table enumeration + Hypothesis tables vs exact-rational reference model and metamorphic relations",
        text="Generated-input search: every table over 3 platforms with counts from a small set (complete enumeration) and Hypothesis tables over <=8 platforms are compared with exact rational formulas, plus symmetry/renaming/order/scaling relations and the printed metric lines. Finds formula deviations on any explored table; says nothing beyond the explored sizes.",
        note="Trusts the 40-line Fraction model in checks/c07.py and a 1e-9 relative tolerance; 0/0 pairs accept NaN or 0.",
        ref="2 C07",
    ),
    "C11": dict(
        technique="property-based testing: exhaustive short argument vectors + Hypothesis long vectors built from atoms with a by-construction oracle; /bin/sh as word-splitting oracle for command strings",
        text="Generated-input search over compiler command lines: all vectors of <=3 atoms over a reduced catalogue and random vectors of up to 40 atoms mixing recognised options (-D/-I/-isystem/-include, attached and separate, awkward values) with ~75 real unmodelled flags, for known and unknown compilers. The ordered lists returned by ArgumentParser.parse_args must equal what the atoms say; any exception is a violation. The same vectors rendered as command strings (three quoting styles, split checked with /bin/sh) must load to the same entries as the arguments array. Bounded exploration.",
        note="Expected values follow from the generator's atoms (no parsing shared with the code under test); a leading-dash value attached to -isystem/-include is outside the generated domain (spelling collides with other real options).",
        ref="2 C11",
    ),
    "C12": dict(
        technique="property-based testing: Hypothesis-generated .cbi/config files x command lines vs an independent interpreter of the documented rules; metamorphic relations (implicit==explicit, purity); exhaustive built-in flag combinations",
        text="Generated-input search over compiler configuration files (new compilers, alias chains incl. loops and dangling targets, options, append_const/store_split/extend_match rules, modes, passes, redefinitions of built-ins) crossed with command lines enabling subsets of their flags in both spellings. Per pass, the ordered command-line part and the multiset contributed by passes/modes are compared with a model interpreter that reads the built-in TOML files itself; implicit options must equal explicit ones, parsing must be pure across commands, alias problems must be reported; every documented flag combination of the four built-in files is enumerated; guarded lines are attributed through finder.find iff some pass defines the macro. Bounded exploration.",
        note="Trusts the ~120-line model interpreter in checks/c12.py; contributions of several active modes are compared as multisets; generated configurations are validated against the repository's schema.",
        ref="2 C12",
    ),
    "C13": dict(
        technique="property-based testing: Hypothesis databases with generated path spellings vs independent path model + reference preprocessor model, differential against gcc -E run from the entry's directory",
        text="Generated-input search over compilation databases whose entries spell directory/file/-I absolutely, relative to the root or to a build directory (inside and outside the root) with ./ and .. segments, as command strings or argument arrays, mixed with entries that must be skipped. entry['file'] and entry['include_paths'] are compared with a path model, per-line attribution with the preprocessor model on canonical paths; gcc -E with the entry's own arguments run from the entry's directory validates both. Every skipped entry must be named by a WARNING, nothing may raise, unnamed files get no platform. Bounded exploration.",
        note="Trusts gcc 12 for how a compiler running in `directory` interprets relative paths; cases with reached missing headers or gcc diagnostics are excluded.",
        ref="2 C13",
    ),
    "C14": dict(
        technique="property-based testing with harness-owned schedules: Hypothesis code bases re-analysed in fresh processes under generated (hash seed, directory-order shuffle, platform/entry permutation) triples; all schedules must agree",
        text="Generated-input search over order-sensitive code bases (same-named headers in several -I directories, byte-identical twins, >=3 platforms). Each input is analysed in fresh interpreter processes under several generated schedules - PYTHONHASHSEED in {0..3, random}, os.scandir/os.listdir shuffled by a seed through a wrapper, [platform.*] tables and database entries permuted - and the platform-set table, printed metrics and distance matrix, per-line attribution, coverage export, duplicate groups and tree rows must be equal after parsing. Bounded sample of schedules, no exhaustive interleaving.",
        note="The harness owns the schedule (hash seed, enumeration order, input order); outputs are compared semantically, raw float metrics with 1e-9 tolerance.",
        ref="2 C14",
    ),
    "C15": dict(
        technique="property-based testing: Hypothesis code bases with alias decorations (file/dir symlinks, ./ and d/../d segments); metamorphic comparison with the canonical twin",
        text="Generated-input search over code bases in which compile commands, -I options and include directives reach files through symlinks and redundant path segments, and observer headers (#pragma once + seen-before macro) are included through two spellings. Per-line attribution keyed by real file, get_setmap and membership must equal those of the canonical twin (aliases replaced, links removed); links to outside are not members; cbi-tree link rows and cbi-cov entries are checked on a CLI subset. Bounded exploration.",
        note="The canonical twin (same tool, canonical paths) is the oracle, as the statement says; compilers are not consulted.",
        ref="2 C15",
    ),
    "C16": dict(
        technique="property-based testing: Hypothesis code bases with contents from a small byte-string pool; oracle = direct byte-wise partition",
        text="Generated-input search over code bases whose files draw their contents from 9 byte strings (empty, last-byte and length near-duplicates, non-UTF-8), with excluded, outside-root, non-source and symlinked twins. The groups of size >= 2 of a direct byte-wise partition of the non-symlink members must equal report.find_duplicates and the Duplicates section of the codebasin CLI exactly (set of sets). Bounded exploration.",
        note="Membership is taken from CodeBase itself.",
        ref="2 C16",
    ),
    "C17": dict(
        technique="property-based testing: Hypothesis grammar-generated free-form Fortran with by-construction line roles, independent reference scanner, gfortran -cpp as domain filter and conditional-selection oracle",
        text="Generated-input search over free-form Fortran program units (character literals with doubled quotes and embedded ! & //, trailing and full-line comments, directive sentinels, continuations with/without leading &, inside literals and with interleaved comments, nested cpp conditionals, an included .inc file). The set of counted lines, directive classification and total_sloc from FileParser must equal the generator's line roles (cross-checked by a reference scanner); marker statements must be attributed through finder.find exactly to the define sets under which `gfortran -cpp -E` keeps them. Bounded exploration.",
        note="Trusts gfortran 12 -cpp for well-formedness and conditional selection; the generator's line roles are cross-checked by the scanner in checks/c17.py (a disagreement is a harness error).",
        ref="2 C17",
    ),
    "C18": dict(
        technique="property-based testing: Hypothesis trees with known dangling includes / unknown directives / bad database entries; oracle = event multiset of the reference preprocessor model vs captured log records and CLI totals",
        text="Generated-input search over code bases with a known set of unhonourable inputs. The reference model computes the expected multiset of warning events (per evaluation of a dangling include with file, line, name, form; reached unknown directives; missing-file entries; unknown compilers; unknown flags) which is compared with the WARNING records captured from config.load_database + finder.find; nothing else may be warned. A CLI layer compares the closing totals of `codebasin` with the warnings in cbi.log. Bounded exploration.",
        note="Trusts the preprocessor model validated against gcc in C04 (gcc itself rejects these inputs); forced includes are generated resolvable; every platform keeps one valid entry.",
        ref="2 C18",
    ),
}

NOT_YET = {}


def main():
    props = [json.loads(l) for l in open(os.path.join(HERE, "properties.jsonl"))]
    checks = []
    for pid, c in CHECKS.items():
        checks.append(
            {
                "property_id": pid,
                "quick_cmd": f"{PY} run_check.py {pid} --tier quick",
                "thorough_cmd": f"{PY} run_check.py {pid} --tier thorough",
                "evidence_file": f"evidence/{pid}.json",
                "replay_cmd_template": f"{PY} run_check.py {pid} --replay {{path}}",
                "engine": "run_check",
                "level_claimed": {"category": "exploration", "text": c["text"], "design_ref": c["ref"]},
                "level_note": c["note"],
                "technique": c["technique"],
            }
        )
    na = []
    for p in props:
        if p["id"] not in CHECKS:
            na.append({"property_id": p["id"], "reason": NOT_YET.get(p["id"], "applicable to property-based testing (see DESIGN.md section 2), but its check is not built yet in this round; nothing is claimed")})
    man = {
        "version": 1,
        "setup_cmd": f"{PY} tools/setup.py",
        "hooks": {
            "guard": "CBI_VERIF",
            "enable": "no source hooks are needed: checks import /repo's working tree directly (CBI_REPO overrides the path) and observe public return values, log records and CLI output",
            "baseline_off_cmd": "cd /repo && /venv/bin/python -m pytest -ra -q -p no:cacheprovider --timeout=900 --continue-on-collection-errors",
            "source_commits": [],
            "add_only": True,
        },
        "engines": [
            {
                "name": "run_check",
                "path": "run_check.py",
                "serves_properties": sorted(CHECKS),
                "kind_free_text": "Python runner: Hypothesis (seeded, database=None) and exhaustive enumerations sharded over 16 processes; oracles are reference models, real tools (gcc/clang/gfortran/git) and metamorphic relations; known-findings bookkeeping; evidence writer",
            }
        ],
        "checks": checks,
        "not_applicable": na,
        "notes": "fix: commits in /repo are listed in known_findings.json (status=fixed). See DESIGN.md.",
    }
    with open(os.path.join(HERE, "MANIFEST.json"), "w") as f:
        json.dump(man, f, indent=1)
        f.write("\n")


if __name__ == "__main__":
    main()
