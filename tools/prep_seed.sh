#!/bin/bash
# tools/prep_seed.sh <Cxx>...: scratch worktree + prompt file for a seeding sub-agent (nothing from /verif is given to it)
for p in "$@"; do
  git -C /repo worktree remove --force /tmp/seed/$p 2>/dev/null
  git -C /repo worktree add -q --detach /tmp/seed/$p HEAD && mkdir -p /tmp/seed/out/$p
  /venv/bin/python - "$p" <<'PY'
import sys, json
p=sys.argv[1]
for l in open('/verif/properties.jsonl'):
    d=json.loads(l)
    if d['id']==p:
        prop=f"{d['id']}: {d['title']}\n\n{d['statement']}\n\nQuantified over: {d['quantifier']['text']}\n"
t=open('/verif/tools/seed_prompt.tmpl').read().replace('@ID@',p).replace('@PROPERTY@',prop).replace('@k@','K')
open(f'/tmp/seed/out/{p}.prompt','w').write(t)
PY
done
