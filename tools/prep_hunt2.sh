#!/bin/bash
# tools/prep_hunt2.sh Cxx...: second defect-hunting round; tells the agent what round one reported (titles) and what is out of scope
mkdir -p /tmp/hunt/out
for p in "$@"; do
  git -C /repo worktree remove --force /tmp/hunt/${p}b 2>/dev/null
  git -C /repo worktree add -q --detach /tmp/hunt/${p}b HEAD && mkdir -p /tmp/hunt/out/${p}b
  /venv/bin/python - "$p" <<'PY'
import sys, json, glob
p=sys.argv[1]
for l in open('/verif/properties.jsonl'):
    d=json.loads(l)
    if d['id']==p:
        prop=f"{d['id']}: {d['title']}\n\n{d['statement']}\n\nQuantified over: {d['quantifier']['text']}\n"
titles=[open(f).readline().strip().lstrip('# ').split(' ',3)[-1] if False else open(f).readline().strip().lstrip('# ') for f in sorted(glob.glob(f'/verif/hunt/{p}/finding*.md'))]
k=json.load(open('/verif/known_findings.json'))['findings']
known=[e['what_fails'] for e in k if e['property']==p and e['status']=='known']
txt = ("an earlier search already reported the following (most are repaired in this tree, the others were judged outside the property's domain - "
       "do not report them or close variants again): " + "; ".join(titles) + ". Also out of scope everywhere: C++-only tokens (true/false, and/or/not), raw strings, digit separators, "
       "C23 directives (#elifdef, #embed), __has_include, predefined macros (__cplusplus, __LINE__ ...), universal character names and $ in identifiers, digraphs/trigraphs, GNU extensions "
       "(, ## __VA_ARGS__, #include_next, #import), -iquote/-idirafter, nesting deeper than about 150 levels, and the order of rows in printed reports. "
       + ("Still open and known: " + "; ".join(known) if known else ""))
t=open('/verif/tools/hunt_prompt.tmpl').read().replace('@ID@',p+"b").replace('@PROPERTY@',prop).replace('@KNOWN@',txt)
t=t.replace("(this tree already contains a number of repairs; you are looking for what is STILL wrong)","(this tree already contains some sixty repairs, among them everything an earlier search round found; you are looking for what is STILL wrong, in places that round did not look: read code paths it did not mention, combine features, and prefer realistic inputs)")
open(f'/tmp/hunt/out/{p}b.prompt','w').write(t)
PY
done
