#!/bin/bash
# usage: tools/try_seed.sh <patch.diff> <demo.py|-> <check ids...>
# Applies the patch in a scratch worktree of /repo HEAD, confirms that the existing
# tests still pass and that the demo fails only with the patch, then runs the given
# checks (quick tier) against the patched tree.  Nothing is changed in /repo.
set -u
PATCH=$(readlink -f "$1"); DEMO="$2"; shift 2
W=/tmp/mut-$$
git -C /repo worktree add -q --detach $W HEAD || exit 2
trap 'git -C /repo worktree remove --force $W >/dev/null 2>&1' EXIT
if [ "$DEMO" != "-" ]; then
  DEMO=$(readlink -f "$DEMO")
  (cd $W && PYTHONPATH=$W PYTHONWARNINGS=ignore /venv/bin/python "$DEMO" >/dev/null 2>&1); echo "demo on clean tree: exit $?"
fi
(cd $W && git apply "$PATCH") || { echo "patch does not apply"; exit 2; }
(cd $W && PYTHONPATH=$W /venv/bin/python -m pytest -q -p no:cacheprovider tests 2>&1 | tail -1)
if [ "$DEMO" != "-" ]; then
  (cd $W && PYTHONPATH=$W PYTHONWARNINGS=ignore /venv/bin/python "$DEMO" >/dev/null 2>&1); echo "demo with patch: exit $?"
fi
for c in "$@"; do
  out=$(cd /verif && CBI_REPO=$W VERIF_SHRINK_BUDGET=${VERIF_SHRINK_BUDGET:-15} /venv/bin/python run_check.py $c --tier ${TIER:-quick} 2>&1)
  echo "$c: exit $? :: $(echo "$out" | grep -c VIOLATION) violation line(s) :: $(echo "$out" | grep '^violation' | head -2 | cut -c1-220)"
  echo "$out" | tail -1
done
