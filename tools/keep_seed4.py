#!/usr/bin/env python3
"""keep_seed4.py <prop> <k> <name> <needs> <caught_by>: copy a confirmed fourth-round seeded change (/tmp/seed/out/<prop>r4) into /verif/seeded/<name>/"""
import json, os, shutil, sys
prop, k, name, needs, caught = sys.argv[1:6]
src = f"/tmp/seed/out/{prop}r4"
dst = f"/verif/seeded/{name}"
os.makedirs(dst, exist_ok=True)
shutil.copy(f"{src}/patch{k}.diff", f"{dst}/patch.diff")
shutil.copy(f"{src}/demo{k}.py", f"{dst}/demo.py")
if os.path.exists(f"{src}/notes{k}.md"):
    shutil.copy(f"{src}/notes{k}.md", f"{dst}/notes.md")
res = open(f"{src}/result{k}.txt").read() if os.path.exists(f"{src}/result{k}.txt") else ""
assert "demo on clean tree: exit 0" in res and "145 passed" in res and "demo with patch: exit 0" not in res, res[:300]
json.dump({"property": prop, "breaks": prop, "round": 4, "needs_to_manifest": needs, "detected_by": caught,
           "what_was_run": f"tools/try_seed.sh patch.diff demo.py {prop} (scratch worktree of /repo HEAD; quick tier, seed 1)",
           "confirmed": "existing 145 tests pass with the patch; demo exits 0 on the clean tree and non-zero with the patch (tools/try_seed.sh)"},
          open(f"{dst}/meta.json", "w"), indent=1)
print("kept", dst)
