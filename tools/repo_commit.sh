#!/bin/bash
# tools/repo_commit.sh "<message>": commit the working-tree change of /repo only if the pinned suite still passes
cd /repo || exit 2
out=$(/venv/bin/python -m pytest -q -p no:cacheprovider tests 2>&1 | tail -1)
rm -f /repo/cbi.log
echo "$out"
case "$out" in
  "145 passed"*) git commit -qam "$1" && git log --oneline | head -1 ;;
  *) echo "NOT COMMITTED: tests do not pass"; exit 1 ;;
esac
