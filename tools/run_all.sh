#!/bin/bash
# tools/run_all.sh <tier> [ids...]: run checks one after another, print one summary line each
tier=${1:-quick}; shift
ids=${@:-C01 C02 C03 C04 C05 C06 C07 C08 C09 C10 C11 C12 C13 C14 C15 C16 C17 C18}
for c in $ids; do
  s=$(date +%s)
  out=$(/venv/bin/python run_check.py $c --tier $tier 2>&1)
  rc=$?
  echo "[$c rc=$rc $(( $(date +%s) - s ))s] $(echo "$out" | grep -c '^VIOLATION') violation(s) :: $(echo "$out" | tail -1)"
  echo "$out" | grep -E '^(violation|VIOLATION|HARNESS)' | head -6 | cut -c1-400
done
