"""C16 demo 2: report.duplicates(codebase, stream=...) writes the member paths of
every match to sys.stdout instead of to `stream`.

The report received by the caller therefore contains only the headings
("Match 0:", "Match 1:") and no file at all, i.e. it does not list the groups
of byte-identical files.
"""
import contextlib
import io
import tempfile
from pathlib import Path

import codebasin
from codebasin import CodeBase, report


def parse_report(text):
    groups, cur = [], None
    for ln in text.split("\n"):
        if ln.startswith("Match ") and ln.endswith(":") and ln[6:-1].isdigit():
            cur = set()
            groups.append(cur)
        elif ln.startswith("- ") and cur is not None:
            cur.add(ln[2:])
    return {frozenset(g) for g in groups}


if __name__ == "__main__":
    print("using", codebasin.__file__)
    with tempfile.TemporaryDirectory(prefix="c16demo_") as d:
        root = Path(d).resolve()
        files = {
            "a.c": b"int x;\n",
            "sub/b.c": b"int x;\n",
            "e1.h": b"",
            "e2.h": b"",
            "e3.h": b"",
            "unique.c": b"int x;",
        }
        for name, content in files.items():
            p = root / name
            p.parent.mkdir(parents=True, exist_ok=True)
            p.write_bytes(content)

        by = {}
        for name in files:
            by.setdefault((root / name).read_bytes(), set()).add(str(root / name))
        expected = {frozenset(s) for s in by.values() if len(s) > 1}

        codebase = CodeBase(root)
        stream = io.StringIO()
        leaked = io.StringIO()
        with contextlib.redirect_stdout(leaked):
            report.duplicates(codebase, stream=stream)

        print("--- written to `stream` ---")
        print(stream.getvalue())
        print("--- leaked to sys.stdout ---")
        print(leaked.getvalue())

        got = parse_report(stream.getvalue())
        assert got == expected, (
            "the report written to `stream` does not list the byte-identical "
            f"groups: got {got}, expected {expected}"
        )
        assert leaked.getvalue() == "", "report text leaked to sys.stdout"
