"""C16 demo 4: a symbolic link that cannot be resolved (it points to itself)
anywhere below a code-base directory makes the duplicates report raise
RuntimeError("Symlink loop from ...") instead of listing the byte-identical
regular files.  Symbolic links are supposed to be left out of the report, not
to abort it; a dangling link (also unresolvable) is skipped correctly.
"""
import os
import tempfile
from pathlib import Path

import codebasin
from codebasin import CodeBase, report

if __name__ == "__main__":
    print("using", codebasin.__file__)
    with tempfile.TemporaryDirectory(prefix="c16demo_") as d:
        root = Path(d).resolve()
        (root / "a.c").write_bytes(b"int x;\n")
        (root / "b.c").write_bytes(b"int x;\n")
        (root / "c.c").write_bytes(b"int x;")
        os.symlink("nowhere.c", root / "dangling.c")  # handled fine
        os.symlink("loop", root / "loop")  # not even a source file name

        expected = [{root / "a.c", root / "b.c"}]

        codebase = CodeBase(root)
        try:
            got = report.find_duplicates(codebase)
        except Exception as e:  # noqa: BLE001
            raise AssertionError(
                f"find_duplicates raised {type(e).__name__}: {e}",
            ) from e
        print("reported:", got)
        assert sorted(map(sorted, got)) == sorted(map(sorted, expected))
