"""C16 demo 1: a code base containing fixed-form Fortran files (.f/.F/.ftn/.fpp/.FOR/.FTN/.FPP).

The files are code-base files (CodeBase.__contains__/is_source_file accept them and
report.find_duplicates lists them), gfortran compiles them without diagnostics, yet
`codebasin -R duplicates` aborts with 'Could not determine language of ...' and
prints no duplicates report at all.
"""
import os
import subprocess
import sys
import tempfile
from pathlib import Path


def parse_report(text):
    groups, cur = [], None
    for ln in text.split("\n"):
        if ln.startswith("Match ") and ln.endswith(":") and ln[6:-1].isdigit():
            cur = set()
            groups.append(cur)
        elif ln.startswith("- ") and cur is not None:
            cur.add(ln[2:])
    return {frozenset(g) for g in groups}


def byte_partition(root: Path, names):
    by = {}
    for n in names:
        by.setdefault((root / n).read_bytes(), set()).add(str(root / n))
    return {frozenset(s) for s in by.values() if len(s) > 1}


def run_duplicates_cli(files: dict):
    """Create `files` (relative name -> bytes) in a fresh directory, run the
    CLI there and return (returncode, reported groups, expected groups, stdout)"""
    with tempfile.TemporaryDirectory(prefix="c16demo_") as d:
        root = Path(d).resolve()
        for name, content in files.items():
            p = root / name
            p.parent.mkdir(parents=True, exist_ok=True)
            p.write_bytes(content)
        (root / "compile_commands.json").write_text("[]")
        (root / "analysis.toml").write_text(
            '[platform.cpu]\ncommands = "compile_commands.json"\n',
        )
        r = subprocess.run(
            [sys.executable, "-m", "codebasin", "-R", "duplicates", "analysis.toml"],
            cwd=root,
            capture_output=True,
            text=True,
            env=dict(os.environ),
        )
        expected = byte_partition(root, files.keys())
        return r.returncode, parse_report(r.stdout), expected, r.stdout


FILES = {
    "solver/legacy.f": b"      program p\n      end\n",
    "backup/legacy.f": b"      program p\n      end\n",
    "main.c": b"int main(void) { return 0; }\n",
    "copy_of_main.c": b"int main(void) { return 0; }\n",
    "unique.c": b"int unique;\n",
}

if __name__ == "__main__":
    import codebasin

    print("using", codebasin.__file__)
    import shutil, tempfile
    if shutil.which("gfortran"):
        with tempfile.TemporaryDirectory() as t:
            src = Path(t) / "legacy.f"
            src.write_bytes(b"      program p\n      end\n")
            g = subprocess.run(["gfortran", "-Wall", "-c", str(src), "-o", str(Path(t) / "o.o")], capture_output=True, text=True)
            assert g.returncode == 0 and not g.stderr, "reference rejects the input"
    rc, got, expected, out = run_duplicates_cli(FILES)
    print(out)
    print("exit status:", rc)
    print("reported:", sorted(map(sorted, got)))
    print("expected:", sorted(map(sorted, expected)))
    assert expected, "test is vacuous"
    assert rc == 0, "codebasin -R duplicates failed"
    assert got == expected, "duplicates report differs from the byte-wise partition"
