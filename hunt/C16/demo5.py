"""C16 demo 5: two byte-identical C files whose last byte is a backslash (no final
newline) -- the 'files differing only in the final byte' corner of the property's
domain.  The byte-wise partition is trivial, but `codebasin -R duplicates` aborts
with 'file seems to end in \\ with no newline!' and prints no report.
(gcc -E accepts the file, exit status 0, with a warning only.)
"""
import os
import subprocess
import sys
import tempfile
from pathlib import Path


def parse_report(text):
    groups, cur = [], None
    for ln in text.split("\n"):
        if ln.startswith("Match ") and ln.endswith(":") and ln[6:-1].isdigit():
            cur = set()
            groups.append(cur)
        elif ln.startswith("- ") and cur is not None:
            cur.add(ln[2:])
    return {frozenset(g) for g in groups}


def byte_partition(root: Path, names):
    by = {}
    for n in names:
        by.setdefault((root / n).read_bytes(), set()).add(str(root / n))
    return {frozenset(s) for s in by.values() if len(s) > 1}


def run_duplicates_cli(files: dict):
    """Create `files` (relative name -> bytes) in a fresh directory, run the
    CLI there and return (returncode, reported groups, expected groups, stdout)"""
    with tempfile.TemporaryDirectory(prefix="c16demo_") as d:
        root = Path(d).resolve()
        for name, content in files.items():
            p = root / name
            p.parent.mkdir(parents=True, exist_ok=True)
            p.write_bytes(content)
        (root / "compile_commands.json").write_text("[]")
        (root / "analysis.toml").write_text(
            '[platform.cpu]\ncommands = "compile_commands.json"\n',
        )
        r = subprocess.run(
            [sys.executable, "-m", "codebasin", "-R", "duplicates", "analysis.toml"],
            cwd=root,
            capture_output=True,
            text=True,
            env=dict(os.environ),
        )
        expected = byte_partition(root, files.keys())
        return r.returncode, parse_report(r.stdout), expected, r.stdout


FILES = {
    "a.c": b"#define LAST 1 \\",
    "old/a.c": b"#define LAST 1 \\",
    "b.c": b"#define LAST 1 \\\n",
}

if __name__ == "__main__":
    import codebasin

    print("using", codebasin.__file__)
    rc, got, expected, out = run_duplicates_cli(FILES)
    print(out)
    print("exit status:", rc)
    print("reported:", sorted(map(sorted, got)))
    print("expected:", sorted(map(sorted, expected)))
    assert expected, "test is vacuous"
    assert rc == 0, "codebasin -R duplicates failed"
    assert got == expected, "duplicates report differs from the byte-wise partition"
