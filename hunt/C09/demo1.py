#!/usr/bin/env python
"""C09 demo 1: a cyclic symbolic link (a link that can never be resolved, i.e. a
kind of dangling link) anywhere below the code-base directory makes both the
membership test and the enumeration raise RuntimeError instead of treating the
link as "not a member".

Reference: the OS.  stat() on the link fails with ELOOP, so the path does not
name an existing regular file -> it is not a member; every other file is
unaffected.  Exit status 0 iff the tree behaves like that.
"""
import errno
import os
import shutil
import tempfile
import warnings

warnings.simplefilter("ignore")
from codebasin import CodeBase  # noqa: E402

base = tempfile.mkdtemp(prefix="c09demo1_")
try:
    root = os.path.join(base, "root")
    os.makedirs(os.path.join(root, "src"))
    with open(os.path.join(root, "src", "a.c"), "w") as f:
        f.write("int x;\n")
    # A self-referential link with a non-source name (e.g. a botched
    # "ln -s latest latest") and a two-link cycle with source names.
    os.symlink("latest", os.path.join(root, "latest"))
    os.symlink("q.c", os.path.join(root, "src", "p.c"))
    os.symlink("p.c", os.path.join(root, "src", "q.c"))

    # Reference: none of the links names an existing file.
    for link in ("latest", "src/p.c", "src/q.c"):
        try:
            os.stat(os.path.join(root, link))
            raise SystemExit("harness error: link resolves")
        except OSError as e:
            assert e.errno == errno.ELOOP

    cb = CodeBase(root)

    problems = []
    for link in ("latest", "src/p.c", "src/q.c"):
        try:
            got = os.path.join(root, link) in cb
        except Exception as e:  # noqa: BLE001
            problems.append(f"{link!r} in codebase raised {type(e).__name__}: {e}")
        else:
            if got is not False:
                problems.append(f"{link!r} reported as member")

    try:
        listing = sorted(os.path.relpath(p, root) for p in cb)
    except Exception as e:  # noqa: BLE001
        problems.append(f"enumeration raised {type(e).__name__}: {e}")
    else:
        if listing != ["src/a.c"]:
            problems.append(f"enumeration yielded {listing}")

    for p in problems:
        print("VIOLATION:", p)
    assert not problems
    print("ok")
finally:
    shutil.rmtree(base)
