#!/usr/bin/env python
"""C09 demo 6: a directory entry that is not a regular file (here: a named pipe
called trace.c, as left behind by tracing/IPC tooling) is reported as a member
and is yielded by the enumeration.

Reference: the property text ("an existing *regular* file") and the OS
(stat.S_ISREG).  Exit status 0 iff the pipe is neither a member nor enumerated.
(The consumer of the enumeration, finder.find(), opens every yielded path for
reading; opening a FIFO without a writer blocks forever.)
"""
import os
import shutil
import stat
import tempfile
import warnings

warnings.simplefilter("ignore")
from codebasin import CodeBase  # noqa: E402

base = tempfile.mkdtemp(prefix="c09demo6_")
try:
    root = os.path.join(base, "root")
    os.makedirs(root)
    with open(os.path.join(root, "a.c"), "w") as f:
        f.write("int x;\n")
    fifo = os.path.join(root, "trace.c")
    os.mkfifo(fifo)
    assert not stat.S_ISREG(os.stat(fifo).st_mode)

    cb = CodeBase(root)
    problems = []
    if fifo in cb:
        problems.append("named pipe trace.c reported as member")
    listing = sorted(os.path.relpath(p, root) for p in cb)
    if listing != ["a.c"]:
        problems.append(f"enumeration yielded {listing}, expected ['a.c']")

    for p in problems:
        print("VIOLATION:", p)
    assert not problems
    print("ok")
finally:
    shutil.rmtree(base)
