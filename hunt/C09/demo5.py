#!/usr/bin/env python
"""C09 demo 5: spellings that the operating system (and every compiler) rejects
are reported as members.

  root/src/a.c/            trailing slash on a regular file      -> ENOTDIR
  root/src/a.c/.           "."  below a regular file             -> ENOTDIR
  root/src/a.c/../a.c      ".." below a regular file             -> ENOTDIR
  root/missing/../src/a.c  ".." below a directory that is absent -> ENOENT

Reference: the OS (os.stat) and `gcc -fsyntax-only`; none of these paths names
an existing regular file, so none of them is a member.  The canonical spelling
root/src/a.c is a member.  Exit status 0 iff the tree agrees.
"""
import os
import shutil
import stat
import subprocess
import tempfile
import warnings

warnings.simplefilter("ignore")
from codebasin import CodeBase  # noqa: E402

base = tempfile.mkdtemp(prefix="c09demo5_")
try:
    root = os.path.join(base, "root")
    os.makedirs(os.path.join(root, "src"))
    with open(os.path.join(root, "src", "a.c"), "w") as f:
        f.write("int x;\n")
    cb = CodeBase(root)

    good = os.path.join(root, "src", "a.c")
    assert stat.S_ISREG(os.stat(good).st_mode)
    assert good in cb, "canonical spelling must be a member"

    problems = []
    for spelling in (
        root + "/src/a.c/",
        root + "/src/a.c/.",
        root + "/src/a.c/../a.c",
        root + "/missing/../src/a.c",
    ):
        # Reference 1: the OS.
        try:
            os.stat(spelling)
            raise SystemExit(f"harness error: {spelling} exists")
        except OSError:
            pass
        # Reference 2: gcc cannot open it either.
        r = subprocess.run(["gcc", "-x", "c", "-fsyntax-only", spelling],
                           capture_output=True)
        assert r.returncode != 0, f"harness error: gcc accepted {spelling}"
        if spelling in cb:
            problems.append(f"{spelling[len(base) + 1:]!r} does not "
                            "name an existing file but is reported as member")

    for p in problems:
        print("VIOLATION:", p)
    assert not problems
    print("ok")
finally:
    shutil.rmtree(base)
