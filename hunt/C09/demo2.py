#!/usr/bin/env python
"""C09 demo 2: exclude patterns that git accepts silently make every membership
test / the enumeration raise.

  'build\\'    trailing backslash (e.g. a Windows-style directory spelling);
               matches nothing in git
  'src\\/gen'  backslash directly in front of a slash; git reads it as src/gen
  '!'          a lone exclamation mark; matches nothing in git
  '[z-a].c'    a reversed range inside a bracket expression; git matches z.c

Reference: `git check-ignore --no-index` with the pattern list as the
repository's exclude file; it prints no diagnostics and reports the files as
not ignored.  Exit status 0 iff the tree agrees with git.
"""
import os
import shutil
import subprocess
import tempfile
import warnings

warnings.simplefilter("ignore")
from codebasin import CodeBase  # noqa: E402


def git_ignored(root, gitdir, patterns, relpaths):
    excl = os.path.join(gitdir, "info", "exclude")
    os.makedirs(os.path.dirname(excl), exist_ok=True)
    with open(excl, "w") as f:
        f.write("".join(p + "\n" for p in patterns))
    env = dict(os.environ, GIT_DIR=gitdir, GIT_WORK_TREE=root,
               GIT_CONFIG_NOSYSTEM="1", HOME=gitdir)
    r = subprocess.run(
        ["git", "check-ignore", "--no-index", "-v", "-n", "-z", "--stdin"],
        input=b"".join(os.fsencode(p) + b"\0" for p in relpaths),
        cwd=root, env=env, capture_output=True)
    assert r.stderr == b"", f"git complained: {r.stderr!r}"
    parts = r.stdout.split(b"\0")[:-1]
    res = {}
    for i in range(0, len(parts), 4):
        src, _line, pat, path = parts[i:i + 4]
        res[os.fsdecode(path)] = bool(src) and not pat.startswith(b"!")
    return res


base = tempfile.mkdtemp(prefix="c09demo2_")
try:
    root = os.path.join(base, "root")
    gitdir = os.path.join(base, "gitdir")
    subprocess.run(["git", "init", "-q", "--bare", gitdir], check=True)
    files = ["a.c", "build/b.c", "src/gen/g.c", "z.c"]
    for rel in files:
        os.makedirs(os.path.dirname(os.path.join(root, rel)), exist_ok=True)
        with open(os.path.join(root, rel), "w") as f:
            f.write("int x;\n")

    problems = []
    for patterns in (["build\\"], ["src\\/gen"], ["!"], ["[z-a].c"],
                     ["*.h", "build\\"]):
        ignored = git_ignored(root, gitdir, patterns, files)
        expect_members = sorted(f for f in files if not ignored[f])
        cb = CodeBase(root, exclude_patterns=list(patterns))
        try:
            got = sorted(f for f in files if os.path.join(root, f) in cb)
            listing = sorted(os.path.relpath(p, root) for p in cb)
        except Exception as e:  # noqa: BLE001
            problems.append(
                f"{patterns}: raised {type(e).__name__}: {e}; "
                f"git says members = {expect_members}")
            continue
        if got != expect_members or listing != expect_members:
            problems.append(f"{patterns}: git {expect_members}, "
                            f"contains {got}, enumeration {listing}")

    for p in problems:
        print("VIOLATION:", p)
    assert not problems
    print("ok")
finally:
    shutil.rmtree(base)
