#!/usr/bin/env python
"""C09 demo 3: bracket expressions [..] in exclude patterns are not read the way
git reads them: POSIX character classes and backslash escapes inside the
brackets.

Reference: `git check-ignore --no-index` with the pattern list as the
repository's exclude file (no diagnostics).  Exit status 0 iff membership and
enumeration agree with git for every pattern list below.
"""
import os
import shutil
import subprocess
import tempfile
import warnings

warnings.simplefilter("ignore")
from codebasin import CodeBase  # noqa: E402


def git_ignored(root, gitdir, patterns, relpaths):
    excl = os.path.join(gitdir, "info", "exclude")
    os.makedirs(os.path.dirname(excl), exist_ok=True)
    with open(excl, "w") as f:
        f.write("".join(p + "\n" for p in patterns))
    env = dict(os.environ, GIT_DIR=gitdir, GIT_WORK_TREE=root,
               GIT_CONFIG_NOSYSTEM="1", HOME=gitdir)
    r = subprocess.run(
        ["git", "check-ignore", "--no-index", "-v", "-n", "-z", "--stdin"],
        input=b"".join(os.fsencode(p) + b"\0" for p in relpaths),
        cwd=root, env=env, capture_output=True)
    assert r.stderr == b"", f"git complained: {r.stderr!r}"
    parts = r.stdout.split(b"\0")[:-1]
    res = {}
    for i in range(0, len(parts), 4):
        src, _line, pat, path = parts[i:i + 4]
        res[os.fsdecode(path)] = bool(src) and not pat.startswith(b"!")
    return res


base = tempfile.mkdtemp(prefix="c09demo3_")
try:
    root = os.path.join(base, "root")
    gitdir = os.path.join(base, "gitdir")
    subprocess.run(["git", "init", "-q", "--bare", gitdir], check=True)
    files = ["test1.c", "test2.c", "testx.c", "a.c", "b.c", "c.c", "-.c",
             "gen/k.c", "v1/k.c", "vX/k.c", "].c"]
    for rel in files:
        os.makedirs(os.path.dirname(os.path.join(root, rel)) or root,
                    exist_ok=True)
        with open(os.path.join(root, rel), "w") as f:
            f.write("int x;\n")

    problems = []
    for patterns in (
        ["test[[:digit:]].c"],      # POSIX class: git excludes test1.c, test2.c
        ["v[[:upper:]]/"],          # POSIX class in a directory pattern
        ["[![:alpha:]].c"],         # negated POSIX class: git excludes -.c and ].c
        ["[a\\-c].c"],              # escaped '-': git excludes a.c, c.c, -.c; not b.c
        ["[\\]].c"],                # escaped ']': git excludes ].c
    ):
        ignored = git_ignored(root, gitdir, patterns, files)
        expect = sorted(f for f in files if not ignored[f])
        cb = CodeBase(root, exclude_patterns=list(patterns))
        got = sorted(f for f in files if os.path.join(root, f) in cb)
        listing = sorted(os.path.relpath(p, root) for p in cb)
        if got != expect or listing != expect:
            problems.append(
                f"{patterns}: git excludes {sorted(set(files) - set(expect))}, "
                f"tree excludes {sorted(set(files) - set(got))}")

    for p in problems:
        print("VIOLATION:", p)
    assert not problems
    print("ok")
finally:
    shutil.rmtree(base)
