"""C13 demo 4: relative include directories given with -iquote, -idirafter or
--include-directory are dropped (reported as "Unrecognized arguments"), so the
headers found through them are not attributed to the platform.
"""
import json, logging, os, re, shutil, subprocess, sys, tempfile, warnings

warnings.simplefilter("ignore")
import codebasin  # noqa: E402  (taken from PYTHONPATH)
from codebasin import CodeBase, config, finder  # noqa: E402


def make_tree(top, files):
    for rel, text in files.items():
        path = os.path.join(top, rel)
        os.makedirs(os.path.dirname(path), exist_ok=True)
        if text is None:
            os.makedirs(path, exist_ok=True)
        else:
            with open(path, "w") as f:
                f.write(text)


def reference_files(directory, argv):
    """Files entered by `<compiler> -E` run in `directory` (real paths)."""
    cmd = [argv[0], "-E"] + [a for a in argv[1:] if a != "-c"]
    r = subprocess.run(cmd, cwd=directory, capture_output=True, text=True)
    assert r.returncode == 0 and not r.stderr.strip(), (
        "reference rejected the input: " + r.stderr
    )
    files = set()
    for line in r.stdout.splitlines():
        m = re.match(r'^# \d+ "([^"]+)"', line)
        if m and not m.group(1).startswith("<"):
            p = os.path.realpath(os.path.join(directory, m.group(1)))
            if not p.startswith("/usr/"):
                files.add(p)
    return files


def cbi_files(root, entries, top):
    """Files with at least one node attributed to the platform (real paths),
    plus the log records emitted during the analysis."""
    db = os.path.join(top, "compile_commands.json")
    with open(db, "w") as f:
        json.dump(entries, f)
    records = []

    class Collect(logging.Handler):
        def emit(self, record):
            records.append((record.levelname, record.getMessage()))

    logger = logging.getLogger("codebasin")
    logger.setLevel(logging.DEBUG)
    handler = Collect()
    logger.addHandler(handler)
    cwd = os.getcwd()
    os.chdir(root)
    try:
        configuration = {"P": config.load_database(db, root)}
        codebase = CodeBase(root)
        state = finder.find(root, codebase, configuration)
        state.get_setmap(codebase)
    finally:
        os.chdir(cwd)
        logger.removeHandler(handler)
    got = set()
    for fn, assoc in state.maps.items():
        if any("P" in plats for plats in assoc.values()):
            got.add(os.path.realpath(fn))
    return got, records

FILES = {
    "root/src/a.c": '#include "q.h"\n#include <d.h>\n#include <l.h>\nint a;\n',
    "root/quote/q.h": "int q;\n",
    "root/after/d.h": "int d;\n",
    "root/long/l.h": "int l;\n",
    "root/build/.keep": "",
}
DIRECTORY = "build"
FILE = "../src/a.c"
ARGS = ["-iquote", "../quote", "-idirafter", "../after",
        "--include-directory=../long", "-c", "../src/a.c"]
COMPILERS = ["gcc", "clang"]

def main():
    top = os.path.realpath(tempfile.mkdtemp(prefix="c13_demo_"))
    try:
        make_tree(top, FILES)
        root = os.path.join(top, "root")
        for compiler in COMPILERS:
            argv = [compiler] + ARGS
            expected = reference_files(os.path.join(root, DIRECTORY), argv)
            entry = {"directory": DIRECTORY, "file": FILE, "arguments": argv}
            got, records = cbi_files(root, [entry], top)
            rel = lambda s: sorted(os.path.relpath(p, top) for p in s)
            print(compiler, "reference:", rel(expected))
            print(compiler, "codebasin:", rel(got))
            assert got == expected, (
                f"{compiler}: attributed files differ: expected {rel(expected)}, got {rel(got)}"
            )
    finally:
        shutil.rmtree(top)


if __name__ == "__main__":
    main()
    print("OK")
