"""C13 demo 3: "-I dir is ignored when dir is also given with -isystem" is decided
by comparing the spellings, not the directories.

Entry: directory "build", file "../src/a.c", command
    gcc -I ../inc1 -I ../inc2 -isystem ../inc1/ -c ../src/a.c
../inc1 and ../inc1/ are the same directory, so gcc and clang drop the -I and
search inc2 before inc1; h.h comes from inc2.  codebasin keeps "-I ../inc1" at
the front and attributes inc1/h.h.  (Same with ./../inc1, an absolute
spelling, etc.)
"""
import json, logging, os, re, shutil, subprocess, sys, tempfile, warnings

warnings.simplefilter("ignore")
import codebasin  # noqa: E402  (taken from PYTHONPATH)
from codebasin import CodeBase, config, finder  # noqa: E402


def make_tree(top, files):
    for rel, text in files.items():
        path = os.path.join(top, rel)
        os.makedirs(os.path.dirname(path), exist_ok=True)
        if text is None:
            os.makedirs(path, exist_ok=True)
        else:
            with open(path, "w") as f:
                f.write(text)


def reference_files(directory, argv):
    """Files entered by `<compiler> -E` run in `directory` (real paths)."""
    cmd = [argv[0], "-E"] + [a for a in argv[1:] if a != "-c"]
    r = subprocess.run(cmd, cwd=directory, capture_output=True, text=True)
    assert r.returncode == 0 and not r.stderr.strip(), (
        "reference rejected the input: " + r.stderr
    )
    files = set()
    for line in r.stdout.splitlines():
        m = re.match(r'^# \d+ "([^"]+)"', line)
        if m and not m.group(1).startswith("<"):
            p = os.path.realpath(os.path.join(directory, m.group(1)))
            if not p.startswith("/usr/"):
                files.add(p)
    return files


def cbi_files(root, entries, top):
    """Files with at least one node attributed to the platform (real paths),
    plus the log records emitted during the analysis."""
    db = os.path.join(top, "compile_commands.json")
    with open(db, "w") as f:
        json.dump(entries, f)
    records = []

    class Collect(logging.Handler):
        def emit(self, record):
            records.append((record.levelname, record.getMessage()))

    logger = logging.getLogger("codebasin")
    logger.setLevel(logging.DEBUG)
    handler = Collect()
    logger.addHandler(handler)
    cwd = os.getcwd()
    os.chdir(root)
    try:
        configuration = {"P": config.load_database(db, root)}
        codebase = CodeBase(root)
        state = finder.find(root, codebase, configuration)
        state.get_setmap(codebase)
    finally:
        os.chdir(cwd)
        logger.removeHandler(handler)
    got = set()
    for fn, assoc in state.maps.items():
        if any("P" in plats for plats in assoc.values()):
            got.add(os.path.realpath(fn))
    return got, records

FILES = {
    "root/src/a.c": '#include <h.h>\nint a;\n',
    "root/inc1/h.h": "int from_inc1;\n",
    "root/inc2/h.h": "int from_inc2;\n",
    "root/build/.keep": "",
}
DIRECTORY = "build"
FILE = "../src/a.c"
ARGS = ["-I", "../inc1", "-I", "../inc2", "-isystem", "../inc1/", "-c", "../src/a.c"]
COMPILERS = ["gcc", "clang"]

def main():
    top = os.path.realpath(tempfile.mkdtemp(prefix="c13_demo_"))
    try:
        make_tree(top, FILES)
        root = os.path.join(top, "root")
        for compiler in COMPILERS:
            argv = [compiler] + ARGS
            expected = reference_files(os.path.join(root, DIRECTORY), argv)
            entry = {"directory": DIRECTORY, "file": FILE, "arguments": argv}
            got, records = cbi_files(root, [entry], top)
            rel = lambda s: sorted(os.path.relpath(p, top) for p in s)
            print(compiler, "reference:", rel(expected))
            print(compiler, "codebasin:", rel(got))
            assert got == expected, (
                f"{compiler}: attributed files differ: expected {rel(expected)}, got {rel(got)}"
            )
    finally:
        shutil.rmtree(top)


if __name__ == "__main__":
    main()
    print("OK")
