"""C13 demo 5: an entry whose `file` is a directory with a source-like name
(here a directory called "gen.c") is not a source file; it must be skipped
with a warning.  Instead the whole analysis aborts with IsADirectoryError and
the other (valid) entry is never analysed.
"""
import json, logging, os, re, shutil, subprocess, sys, tempfile, warnings

warnings.simplefilter("ignore")
import codebasin  # noqa: E402  (taken from PYTHONPATH)
from codebasin import CodeBase, config, finder  # noqa: E402


def make_tree(top, files):
    for rel, text in files.items():
        path = os.path.join(top, rel)
        os.makedirs(os.path.dirname(path), exist_ok=True)
        if text is None:
            os.makedirs(path, exist_ok=True)
        else:
            with open(path, "w") as f:
                f.write(text)


def reference_files(directory, argv):
    """Files entered by `<compiler> -E` run in `directory` (real paths)."""
    cmd = [argv[0], "-E"] + [a for a in argv[1:] if a != "-c"]
    r = subprocess.run(cmd, cwd=directory, capture_output=True, text=True)
    assert r.returncode == 0 and not r.stderr.strip(), (
        "reference rejected the input: " + r.stderr
    )
    files = set()
    for line in r.stdout.splitlines():
        m = re.match(r'^# \d+ "([^"]+)"', line)
        if m and not m.group(1).startswith("<"):
            p = os.path.realpath(os.path.join(directory, m.group(1)))
            if not p.startswith("/usr/"):
                files.add(p)
    return files


def cbi_files(root, entries, top):
    """Files with at least one node attributed to the platform (real paths),
    plus the log records emitted during the analysis."""
    db = os.path.join(top, "compile_commands.json")
    with open(db, "w") as f:
        json.dump(entries, f)
    records = []

    class Collect(logging.Handler):
        def emit(self, record):
            records.append((record.levelname, record.getMessage()))

    logger = logging.getLogger("codebasin")
    logger.setLevel(logging.DEBUG)
    handler = Collect()
    logger.addHandler(handler)
    cwd = os.getcwd()
    os.chdir(root)
    try:
        configuration = {"P": config.load_database(db, root)}
        codebase = CodeBase(root)
        state = finder.find(root, codebase, configuration)
        state.get_setmap(codebase)
    finally:
        os.chdir(cwd)
        logger.removeHandler(handler)
    got = set()
    for fn, assoc in state.maps.items():
        if any("P" in plats for plats in assoc.values()):
            got.add(os.path.realpath(fn))
    return got, records

def main():
    top = os.path.realpath(tempfile.mkdtemp(prefix="c13_demo_"))
    try:
        make_tree(top, {
            "root/src/a.c": '#include "h.h"\nint a;\n',
            "root/src/h.h": "int h;\n",
            "root/gen.c": None,          # a directory
        })
        root = os.path.join(top, "root")
        good = {"directory": ".", "file": "src/a.c",
                "arguments": ["gcc", "-c", "src/a.c"]}
        bad = {"directory": ".", "file": "gen.c",
               "arguments": ["gcc", "-c", "gen.c"]}
        expected = reference_files(root, good["arguments"])
        # the valid entry alone works
        alone, _ = cbi_files(root, [good], top)
        assert alone == expected, (alone, expected)
        try:
            got, records = cbi_files(root, [bad, good], top)
        except Exception as e:  # noqa: BLE001
            raise AssertionError(
                f"entry for directory 'gen.c' aborted the analysis: {e!r}"
            )
        assert got == expected, (got, expected)
        assert any(
            lvl == "WARNING" and "gen.c" in msg for lvl, msg in records
        ), "no warning for the skipped entry"
    finally:
        shutil.rmtree(top)


if __name__ == "__main__":
    main()
    print("OK")
