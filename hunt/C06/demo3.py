#!/usr/bin/env python3
"""C06 demo 3: a single fixed-form Fortran file (.f, .F, .ftn, .fpp, .FOR,
.FTN, .FPP - all *recognised* source extensions, see codebasin/source.py)
anywhere below the root makes every front end abort, even if no platform
compiles it.  No line of the code base is attributed, no report is produced.

    src/main.c          compiled by platform cpu
    legacy/solver.f     valid fixed-form Fortran (gfortran accepts it), unused
"""
import json
import os
import re
import shutil
import subprocess
import sys
import tempfile

PREFIX = "c06demo3_"
PY = sys.executable
ENV = dict(os.environ, PYTHONWARNINGS="ignore")


def run(mod, args, cwd):
    p = subprocess.run([PY, "-m", mod] + args, cwd=cwd, env=ENV, capture_output=True, text=True)
    return p.returncode, p.stdout, p.stderr


def write(path, text):
    os.makedirs(os.path.dirname(path), exist_ok=True)
    with open(path, "w") as f:
        f.write(text)


def main():
    root = os.path.realpath(tempfile.mkdtemp(prefix=PREFIX))
    write(f"{root}/src/main.c", "int a;\n#ifdef X\nint x;\n#endif\n")
    write(
        f"{root}/legacy/solver.f",
        "      subroutine solve(n)\n"
        "      integer n\n"
        "c     a classic comment line\n"
        "      n = n + 1\n"
        "      end\n",
    )
    db = [{"directory": root, "file": "src/main.c", "arguments": ["gcc", "-DX", "-c", "src/main.c"]}]
    write(f"{root}/db.json", json.dumps(db))
    write(f"{root}/an.toml", '[platform.cpu]\ncommands = "db.json"\n')

    # reference: both files are valid for their compilers
    g = subprocess.run(["gfortran", "-Wall", "-fsyntax-only", "legacy/solver.f"], cwd=root, capture_output=True, text=True)
    assert g.returncode == 0 and not g.stderr.strip(), g.stderr
    g = subprocess.run(["gcc", "-Wall", "-DX", "-fsyntax-only", "src/main.c"], cwd=root, capture_output=True, text=True)
    assert g.returncode == 0 and not g.stderr.strip(), g.stderr

    from codebasin.source import is_source_file

    # '.f' is documented as a recognised extension today; should a repair
    # withdraw that, the file must simply not be listed.
    recognised = is_source_file("legacy/solver.f")
    print("is_source_file('legacy/solver.f') =", recognised)

    failures = []
    rc, out, err = run("codebasin", ["-R", "summary", "an.toml"], root)
    msg = " ".join(l for l in (out + err).splitlines() if "error" in l)
    if rc != 0:
        failures.append(f"codebasin rc={rc}: {msg}")
    else:
        rows = [int(x) for x in re.findall(r"^│\s*\{.*?\}\s*│\s*(\d+)\s*│", out, re.M)]
        total = int(re.search(r"Total SLOC: (\d+)", out).group(1))
        if sum(rows) != total or total < 4:
            failures.append(f"summary rows {rows} total {total}")
    rc, out, err = run("codebasin.tree", ["an.toml"], root)
    msg = " ".join(l for l in (out + err).splitlines() if "error" in l)
    if rc != 0:
        failures.append(f"cbi-tree rc={rc}: {msg}")
    elif ("solver.f" in out) != recognised:
        failures.append(f"cbi-tree lists legacy/solver.f: {'solver.f' in out}; recognised: {recognised}")
    rc, out, err = run("codebasin.coverage", ["compute", "-S", root, "-o", f"{root}/cov.json", "db.json"], root)
    msg = " ".join(l for l in (out + err).splitlines() if "error" in l)
    if rc != 0:
        failures.append(f"cbi-cov rc={rc}: {msg}")
    else:
        cov = {e["file"]: e for e in json.load(open(f"{root}/cov.json"))}
        if ("legacy/solver.f" in cov) != recognised:
            failures.append(f"coverage export lists legacy/solver.f: {'legacy/solver.f' in cov}; recognised: {recognised}")
        elif recognised and cov["legacy/solver.f"]["used_lines"]:
            failures.append("unused file has used lines")
    for f in failures:
        print("VIOLATION:", f)
    assert not failures, f"{len(failures)} violation(s)"
    print("OK")


def _cleanup():
    import glob

    for d in glob.glob(os.path.join(tempfile.gettempdir(), PREFIX + "*")):
        shutil.rmtree(d, ignore_errors=True)


if __name__ == "__main__":
    try:
        main()
    finally:
        _cleanup()
