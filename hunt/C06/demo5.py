#!/usr/bin/env python3
"""C06 demo 5: util.ensure_ext() compares the concatenation of *all* suffixes
of the file name ("".join(Path.suffixes)) with the wanted extension.

  (a) cbi-cov refuses a compilation database called
      'compile_commands.cpu.json' (".cpu.json" != ".json") although codebasin
      and cbi-tree analyse the very same database without complaint, so the
      three front ends cannot be run on the same input;
  (b) codebasin (default reports) exits with status 1 as soon as a platform
      name or the analysis file name contains a dot (e.g. platform
      "cuda-12.1"): the dendrogram name "...-cuda-12.1-cpu-dendrogram.png"
      is rejected with "does not have a valid extension".
"""
import json
import os
import re
import shutil
import subprocess
import sys
import tempfile

PREFIX = "c06demo5_"
PY = sys.executable
ENV = dict(os.environ, PYTHONWARNINGS="ignore")


def run(mod, args, cwd):
    p = subprocess.run([PY, "-m", mod] + args, cwd=cwd, env=ENV, capture_output=True, text=True)
    return p.returncode, p.stdout, p.stderr


def write(path, text):
    os.makedirs(os.path.dirname(path), exist_ok=True)
    with open(path, "w") as f:
        f.write(text)


def errors(out, err):
    return " ".join(l for l in (out + err).splitlines() if "error" in l)


def main():
    root = os.path.realpath(tempfile.mkdtemp(prefix=PREFIX))
    write(f"{root}/src/main.c", "int a;\n#ifdef GPU\nint g;\n#else\nint c;\n#endif\n")
    write(f"{root}/src/unused.c", "int u;\n")
    cpu = [{"directory": root, "file": "src/main.c", "arguments": ["gcc", "-c", "src/main.c"]}]
    gpu = [{"directory": root, "file": "src/main.c", "arguments": ["gcc", "-DGPU", "-c", "src/main.c"]}]
    write(f"{root}/compile_commands.cpu.json", json.dumps(cpu))
    write(f"{root}/compile_commands.gpu.json", json.dumps(gpu))
    write(
        f"{root}/an.toml",
        '[platform.cpu]\ncommands = "compile_commands.cpu.json"\n'
        '[platform."cuda-12.1"]\ncommands = "compile_commands.gpu.json"\n',
    )
    failures = []

    # the reports that work
    rc, out, err = run("codebasin", ["-R", "summary", "an.toml"], root)
    assert rc == 0, out + err
    rows = {m.group(1): int(m.group(2)) for m in re.finditer(r"^│\s*(\{.*?\})\s*│\s*(\d+)\s*│", out, re.M)}
    print("summary rows:", rows)
    assert rows == {"{}": 1, "{cpu}": 1, "{cuda-12.1}": 1, "{cpu, cuda-12.1}": 4}, rows
    rc, out, err = run("codebasin.tree", ["an.toml"], root)
    assert rc == 0, out + err

    # (a) cbi-cov on the same database as platform cpu
    rc, out, err = run(
        "codebasin.coverage",
        ["compute", "-S", root, "-o", f"{root}/coverage.json", "compile_commands.cpu.json"],
        root,
    )
    if rc != 0:
        failures.append(f"cbi-cov rc={rc} on compile_commands.cpu.json: {errors(out, err)}")
    else:
        cov = {e["file"]: e for e in json.load(open(f"{root}/coverage.json"))}
        if sorted(cov["src/main.c"]["used_lines"]) != [1, 2, 4, 5, 6]:
            failures.append(f"coverage of main.c: {cov['src/main.c']}")
    # ... and the output name may carry the platform as well
    rc, out, err = run(
        "codebasin.coverage",
        ["compute", "-S", root, "-o", f"{root}/coverage.cpu.json", "compile_commands.cpu.json"],
        root,
    )
    if rc != 0:
        failures.append(f"cbi-cov rc={rc} for -o coverage.cpu.json: {errors(out, err)}")

    # (b) default invocation of codebasin (all reports)
    rc, out, err = run("codebasin", ["an.toml"], root)
    if rc != 0:
        failures.append(f"codebasin (all reports) rc={rc}: {errors(out, err)}")

    for f in failures:
        print("VIOLATION:", f)
    assert not failures, f"{len(failures)} violation(s)"
    print("OK")


def _cleanup():
    import glob

    for d in glob.glob(os.path.join(tempfile.gettempdir(), PREFIX + "*")):
        shutil.rmtree(d, ignore_errors=True)


if __name__ == "__main__":
    try:
        main()
    finally:
        _cleanup()
