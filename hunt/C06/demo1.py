#!/usr/bin/env python3
"""C06 demo 1: code-base membership (and the parser's language) is decided by
the *target* name of a symbolic link instead of by the file's own name.

Layout (the classic "per-platform config header selected by a link"):

    src/main.c                 #include "config.h" ...
    src/config.h -> config.h.linux      (symlink, recognised extension .h)
    src/config.h.linux         real file (extension ".linux")
    LATEST -> src/main.c       (symlink without any source extension)
    src/gen.c -> gen.tmpl      (symlink, compiled by the platform)

gcc compiles src/main.c and src/gen.c without diagnostics and reads
src/config.h.  Property C06: every counted line of every code-base file
(= file below the root with a recognised source extension) is attributed,
shows up in the summary total, in the tree and in the coverage export.
"""
import json
import os
import re
import subprocess
import sys
import shutil
import tempfile

PREFIX = "c06demo1_"
PY = sys.executable
ENV = dict(os.environ, PYTHONWARNINGS="ignore", TQDM_DISABLE="1")


def run(mod, args, cwd):
    p = subprocess.run([PY, "-m", mod] + args, cwd=cwd, env=ENV, capture_output=True, text=True)
    return p.returncode, p.stdout + p.stderr


def write(path, text):
    os.makedirs(os.path.dirname(path), exist_ok=True)
    with open(path, "w") as f:
        f.write(text)


def main():
    root = os.path.realpath(tempfile.mkdtemp(prefix="c06demo1_"))
    write(f"{root}/src/main.c", '#include "config.h"\nint m;\n#ifdef HAVE_X\nint x;\n#endif\n')
    write(f"{root}/src/config.h.linux", "#define HAVE_X 1\nint cfg_linux;\n")
    write(f"{root}/src/config.h.win", "int cfg_win;\n")
    os.symlink("config.h.linux", f"{root}/src/config.h")
    os.symlink("src/main.c", f"{root}/LATEST")
    db = [{"directory": root, "file": "src/main.c", "arguments": ["gcc", "-c", "src/main.c"]}]
    write(f"{root}/db.json", json.dumps(db))
    write(f"{root}/an.toml", '[platform.cpu]\ncommands = "db.json"\n')

    # reference: gcc accepts the input and really reads src/config.h
    g = subprocess.run(["gcc", "-E", "src/main.c"], cwd=root, capture_output=True, text=True)
    assert g.returncode == 0 and not g.stderr.strip(), g.stderr
    assert '"src/config.h"' in g.stdout and "int cfg_linux;" in g.stdout and "int x;" in g.stdout

    rc, out = run("codebasin", ["-R", "summary", "an.toml"], root)
    assert rc == 0, out
    total = int(re.search(r"Total SLOC: (\d+)", out).group(1))
    rc, tree = run("codebasin.tree", ["an.toml"], root)
    assert rc == 0, tree
    rc, o = run("codebasin.coverage", ["compute", "-S", root, "-o", f"{root}/cov.json", "db.json"], root)
    assert rc == 0, o
    cov = {e["file"]: e for e in json.load(open(f"{root}/cov.json"))}
    print(out[out.find("Summary"):])
    print(tree[tree.find("["):])
    print("coverage files:", sorted(cov))

    failures = []
    # src/config.h is a code-base file: 2 counted lines, both used by cpu
    if "src/config.h" not in cov:
        failures.append("coverage export has no entry for code-base file src/config.h")
    elif sorted(cov["src/config.h"]["used_lines"]) != [1, 2]:
        failures.append(f"src/config.h used_lines = {cov['src/config.h']['used_lines']}")
    if not re.search(r"-- config\.h( ->|$)", tree, re.M):
        failures.append("tree has no row for src/config.h")
    if total != 7:
        failures.append(f"Total SLOC is {total}; main.c has 5 counted lines and config.h has 2 => 7")
    # 'LATEST' has no recognised source extension
    if "LATEST" in cov or re.search(r"-- LATEST", tree):
        failures.append("'LATEST' (no source extension) is listed as a code-base file")

    # compiling a link whose target has another extension must not abort
    write(f"{root}/src/gen.tmpl", "int g;\n")
    os.symlink("gen.tmpl", f"{root}/src/gen.c")
    g = subprocess.run(["gcc", "-Wall", "-c", "src/gen.c", "-o", os.devnull], cwd=root, capture_output=True, text=True)
    assert g.returncode == 0 and not g.stderr.strip(), g.stderr
    db.append({"directory": root, "file": "src/gen.c", "arguments": ["gcc", "-c", "src/gen.c"]})
    write(f"{root}/db.json", json.dumps(db))
    rc, out2 = run("codebasin", ["-R", "summary", "an.toml"], root)
    if rc != 0:
        failures.append("codebasin aborts when src/gen.c -> gen.tmpl is compiled: " + " ".join(l for l in out2.splitlines() if "error" in l))

    for f in failures:
        print("VIOLATION:", f)
    assert not failures, f"{len(failures)} violation(s)"
    print("OK")


def _cleanup():
    import glob

    for d in glob.glob(os.path.join(tempfile.gettempdir(), PREFIX + "*")):
        shutil.rmtree(d, ignore_errors=True)


if __name__ == "__main__":
    try:
        main()
    finally:
        _cleanup()
