#!/usr/bin/env python3
"""C06 demo 4: in assembly sources that the compiler driver preprocesses
(.S) every line starting with '#' is treated as a comment.  Conditional
blocks are therefore never evaluated and #include is never followed: lines the
platform does NOT use are reported as used by it, and a header it DOES use is
reported as unused.  Reference: gcc -E.

    src/k.S           #include "asm_defs.h" / #ifdef USE_AVX / ... / #else / ... / #endif / ret
    src/asm_defs.h    #define FOO 1
"""
import json
import os
import re
import shutil
import subprocess
import sys
import tempfile

PREFIX = "c06demo4_"
PY = sys.executable
ENV = dict(os.environ, PYTHONWARNINGS="ignore")


def run(mod, args, cwd):
    p = subprocess.run([PY, "-m", mod] + args, cwd=cwd, env=ENV, capture_output=True, text=True)
    return p.returncode, p.stdout, p.stderr


def write(path, text):
    os.makedirs(os.path.dirname(path), exist_ok=True)
    with open(path, "w") as f:
        f.write(text)


KS = """#include "asm_defs.h"
\t.text
#ifdef USE_AVX
\tvmovaps %ymm0, %ymm1
#else
\tmovaps %xmm0, %xmm1
#endif
\tret
"""


def main():
    root = os.path.realpath(tempfile.mkdtemp(prefix=PREFIX))
    write(f"{root}/src/k.S", KS)
    write(f"{root}/src/asm_defs.h", "#define FOO 1\n")
    db = [{"directory": root, "file": "src/k.S", "arguments": ["gcc", "-DUSE_AVX", "-c", "src/k.S"]}]
    write(f"{root}/db.json", json.dumps(db))
    write(f"{root}/an.toml", '[platform.cpu]\ncommands = "db.json"\n')

    # reference: which instruction lines survive preprocessing, which files are read
    g = subprocess.run(["gcc", "-DUSE_AVX", "-E", "src/k.S"], cwd=root, capture_output=True, text=True)
    assert g.returncode == 0 and not g.stderr.strip(), g.stderr
    g2 = subprocess.run(["gcc", "-DUSE_AVX", "-c", "src/k.S", "-o", os.devnull], cwd=root, capture_output=True, text=True)
    assert g2.returncode == 0 and not g2.stderr.strip(), g2.stderr
    surviving = {i for i, l in enumerate(KS.splitlines(), 1) if l.startswith("\t") and l.strip() in [x.strip() for x in g.stdout.splitlines()]}
    dropped = {i for i, l in enumerate(KS.splitlines(), 1) if l.startswith("\t")} - surviving
    header_read = '"src/asm_defs.h"' in g.stdout
    print("gcc keeps instruction lines", sorted(surviving), "drops", sorted(dropped), "reads asm_defs.h:", header_read)
    assert surviving == {2, 4, 8} and dropped == {6} and header_read

    rc, out, err = run("codebasin.coverage", ["compute", "-S", root, "-o", f"{root}/cov.json", "db.json"], root)
    assert rc == 0, out + err
    cov = {e["file"]: e for e in json.load(open(f"{root}/cov.json"))}
    print({k: (v["used_lines"], v["unused_lines"]) for k, v in cov.items()})
    rc, out, err = run("codebasin", ["-R", "summary", "an.toml"], root)
    assert rc == 0, out + err
    print(out[out.find("Summary"):])

    failures = []
    k = cov["src/k.S"]
    for n in sorted(dropped):
        if n in k["used_lines"]:
            failures.append(f"src/k.S line {n} is dropped by the preprocessor for this platform but reported as used")
        elif n not in k["unused_lines"]:
            failures.append(f"src/k.S line {n} is in neither list")
    for n in sorted(surviving):
        if n not in k["used_lines"]:
            failures.append(f"src/k.S line {n} survives preprocessing but is not reported as used")
    h = cov["src/asm_defs.h"]
    if h["used_lines"] != [1]:
        failures.append(f"src/asm_defs.h is read by the platform but reported used={h['used_lines']} unused={h['unused_lines']}")
    for f in failures:
        print("VIOLATION:", f)
    assert not failures, f"{len(failures)} violation(s)"
    print("OK")


def _cleanup():
    import glob

    for d in glob.glob(os.path.join(tempfile.gettempdir(), PREFIX + "*")):
        shutil.rmtree(d, ignore_errors=True)


if __name__ == "__main__":
    try:
        main()
    finally:
        _cleanup()
