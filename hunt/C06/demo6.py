#!/usr/bin/env python3
"""C06 demo 6: an analysis for ZERO platforms (explicitly inside the domain
"0..4 platforms").  The analysis schema does not require a [platform] table.

  (a) analysis file without any [platform] table: codebasin and cbi-tree die
      with "error: 'platform'" (KeyError) instead of attributing every counted
      line to the empty platform set {};
  (b) analysis file with an empty [platform] table: the summary is right, but
      the default invocation of codebasin then crashes in the clustering
      report (SciPy: "The number of observations cannot be determined on an
      empty distance matrix.") and exits with status 1.
"""
import json
import os
import re
import shutil
import subprocess
import sys
import tempfile

PREFIX = "c06demo6_"
PY = sys.executable
ENV = dict(os.environ, PYTHONWARNINGS="ignore")


def run(mod, args, cwd):
    p = subprocess.run([PY, "-m", mod] + args, cwd=cwd, env=ENV, capture_output=True, text=True)
    return p.returncode, p.stdout, p.stderr


def write(path, text):
    os.makedirs(os.path.dirname(path), exist_ok=True)
    with open(path, "w") as f:
        f.write(text)


def errors(out, err):
    return " ".join(l for l in (out + err).splitlines() if "error" in l)


def check_summary(out, failures, tag):
    rows = {m.group(1): int(m.group(2)) for m in re.finditer(r"^│\s*(\{.*?\})\s*│\s*(\d+)\s*│", out, re.M)}
    m = re.search(r"Total SLOC: (\d+)", out)
    total = int(m.group(1)) if m else None
    if rows != {"{}": 4} or total != 4:
        failures.append(f"{tag}: summary rows {rows}, total {total}; expected {{}} = 4 = total")


def check_tree(out, failures, tag):
    m = re.search(r"^\[ *\| *(\d+) \|", out, re.M)
    if not m or int(m.group(1)) != 4:
        failures.append(f"{tag}: tree root does not show 4 SLOC")


def main():
    root = os.path.realpath(tempfile.mkdtemp(prefix=PREFIX))
    write(f"{root}/src/main.c", "int a;\n#ifdef X\nint x;\n#endif\n")
    write(f"{root}/none.toml", "[codebase]\nexclude = []\n")
    write(f"{root}/empty.toml", "[platform]\n")
    # both files are valid analysis files
    import tomllib

    from codebasin import util

    for name in ["none.toml", "empty.toml"]:
        with open(f"{root}/{name}", "rb") as f:
            util._load_toml(f, "analysis")

    failures = []
    for name in ["none.toml", "empty.toml"]:
        rc, out, err = run("codebasin", ["-R", "summary", name], root)
        if rc != 0:
            failures.append(f"codebasin -R summary {name}: rc={rc} {errors(out, err)}")
        else:
            check_summary(out, failures, f"codebasin {name}")
        rc, out, err = run("codebasin.tree", [name], root)
        if rc != 0:
            failures.append(f"cbi-tree {name}: rc={rc} {errors(out, err)}")
        else:
            check_tree(out, failures, f"cbi-tree {name}")
        rc, out, err = run("codebasin", [name], root)
        if rc != 0:
            failures.append(f"codebasin {name} (all reports): rc={rc} {errors(out, err)}")
    for f in failures:
        print("VIOLATION:", f)
    assert not failures, f"{len(failures)} violation(s)"
    print("OK")


def _cleanup():
    import glob

    for d in glob.glob(os.path.join(tempfile.gettempdir(), PREFIX + "*")):
        shutil.rmtree(d, ignore_errors=True)


if __name__ == "__main__":
    try:
        main()
    finally:
        _cleanup()
