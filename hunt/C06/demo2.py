#!/usr/bin/env python3
"""C06 demo 2: a source (or header) reached through a symbolic link searches
its quoted includes next to the link *target*, whereas the compiler searches
next to the name by which the file was opened.  The lines of the two
same-named headers therefore land in the wrong platform sets in every report.

    real/r.c          #include "cfg.h"
    real/cfg.h        int cfg_real;
    src/cfg.h         int cfg_src; (3 lines)
    src/rl.c -> ../real/r.c        <- this is what the platform compiles
"""
import json
import os
import re
import subprocess
import sys
import shutil
import tempfile

PREFIX = "c06demo2_"
PY = sys.executable
ENV = dict(os.environ, PYTHONWARNINGS="ignore", TQDM_DISABLE="1")


def run(mod, args, cwd):
    p = subprocess.run([PY, "-m", mod] + args, cwd=cwd, env=ENV, capture_output=True, text=True)
    return p.returncode, p.stdout + p.stderr


def write(path, text):
    os.makedirs(os.path.dirname(path), exist_ok=True)
    with open(path, "w") as f:
        f.write(text)


def main():
    root = os.path.realpath(tempfile.mkdtemp(prefix="c06demo2_"))
    write(f"{root}/real/r.c", '#include "cfg.h"\nint r;\n')
    write(f"{root}/real/cfg.h", "int cfg_real;\n")
    write(f"{root}/src/cfg.h", "int cfg_src;\nint cfg_src2;\nint cfg_src3;\n")
    os.symlink("../real/r.c", f"{root}/src/rl.c")
    db = [{"directory": root, "file": "src/rl.c", "arguments": ["gcc", "-c", "src/rl.c"]}]
    write(f"{root}/db.json", json.dumps(db))
    write(f"{root}/an.toml", '[platform.cpu]\ncommands = "db.json"\n')

    # reference
    g = subprocess.run(["gcc", "-Wall", "-E", "-P", "src/rl.c"], cwd=root, capture_output=True, text=True)
    assert g.returncode == 0 and not g.stderr.strip(), g.stderr
    used_by_gcc = {"src/cfg.h": "cfg_src" in g.stdout, "real/cfg.h": "cfg_real" in g.stdout}
    print("gcc reads:", used_by_gcc)
    assert used_by_gcc == {"src/cfg.h": True, "real/cfg.h": False}

    rc, o = run("codebasin.coverage", ["compute", "-S", root, "-o", f"{root}/cov.json", "db.json"], root)
    assert rc == 0, o
    cov = {e["file"]: e for e in json.load(open(f"{root}/cov.json"))}
    rc, tree = run("codebasin.tree", ["an.toml"], root)
    assert rc == 0, tree
    print(tree[tree.find("["):])
    rc, out = run("codebasin", ["-R", "summary", "an.toml"], root)
    assert rc == 0, out

    failures = []
    for rel, used in used_by_gcc.items():
        e = cov[rel]
        n = {"src/cfg.h": [1, 2, 3], "real/cfg.h": [1]}[rel]
        want_used, want_unused = (n, []) if used else ([], n)
        if e["used_lines"] != want_used or e["unused_lines"] != want_unused:
            failures.append(f"coverage {rel}: used={e['used_lines']} unused={e['unused_lines']}, compiler says used={used}")
    # tree rows: "[A | 1 | ...] ... cfg.h" below src/ must be used, below real/ unused
    rows = re.findall(r"^\[([A-Z-]*) \| *(\d+) \|.*?\] (.*)$", tree, re.M)
    cur = None
    seen = {}
    for plat, sloc, rest in rows:
        m = re.search(r"-o (\w+)/$", rest)
        if m:
            cur = m.group(1)
        if rest.endswith("-- cfg.h"):
            seen[f"{cur}/cfg.h"] = plat
    print("tree platforms:", seen)
    if seen.get("src/cfg.h") != "A":
        failures.append(f"tree: src/cfg.h shown with platforms {seen.get('src/cfg.h')!r}, expected 'A'")
    if seen.get("real/cfg.h") != "-":
        failures.append(f"tree: real/cfg.h shown with platforms {seen.get('real/cfg.h')!r}, expected '-'")
    # summary: 6 counted lines (r.c 2, src/cfg.h 3, real/cfg.h 1); only real/cfg.h is unused
    m = re.search(r"\{\}\s*│\s*(\d+)", out)
    unused = int(m.group(1)) if m else 0
    m = re.search(r"\{cpu\}\s*│\s*(\d+)", out)
    used = int(m.group(1)) if m else 0
    if (used, unused) != (5, 1):
        failures.append(f"summary rows {{cpu}}={used} {{}}={unused}, expected 5/1")
    for f in failures:
        print("VIOLATION:", f)
    assert not failures, f"{len(failures)} violation(s)"
    print("OK")


def _cleanup():
    import glob

    for d in glob.glob(os.path.join(tempfile.gettempdir(), PREFIX + "*")):
        shutil.rmtree(d, ignore_errors=True)


if __name__ == "__main__":
    try:
        main()
    finally:
        _cleanup()
