"""
C01 demo 5: C++ raw string literals (e.g. embedded OpenCL/GLSL kernels).
Lines inside R"(...)" that look like directives are string content for a real
preprocessor; codebasin treats them as directives: lines are reported unused
although g++ keeps them, macros get defined that do not exist, and an
unbalanced '#else'/'#endif' inside the string makes the analysis crash.
Exits 0 iff codebasin agrees with g++.
"""
import json
import logging
import os
import re
import shutil
import subprocess
import sys
import tempfile
import warnings

warnings.simplefilter("ignore")
from codebasin import CodeBase, config, finder  # noqa: E402
from codebasin.preprocessor import CodeNode  # noqa: E402

logging.disable(logging.CRITICAL)


def reference(root, tu, argv):
    """Run the real preprocessor; it must accept the input silently."""
    r = subprocess.run(
        [argv[0], "-E", "-P", *argv[1:], tu],
        cwd=root,
        capture_output=True,
        text=True,
    )
    assert r.returncode == 0 and not r.stderr.strip(), (
        "reference preprocessor rejects the input:\n" + r.stderr
    )
    return r.stdout


def codebasin_used_lines(root, tu, argv):
    """Physical lines of `tu` that codebasin attributes to the platform."""
    db = os.path.join(root, "compile_commands.json")
    with open(db, "w") as f:
        json.dump(
            [{"directory": root, "file": tu, "arguments": [*argv, "-c", tu]}],
            f,
        )
    try:
        conf = {"p": config.load_database(db, root)}
        state = finder.find(root, CodeBase(root), conf, summarize_only=False)
    except Exception as e:  # the analysis must never fail on valid input
        raise AssertionError(
            f"analysis failed with {type(e).__name__}: {e}",
        ) from e
    path = os.path.join(root, tu)
    tree, assoc = state.get_tree(path), state.get_map(path)
    used = set()
    for node in tree.walk():
        if isinstance(node, CodeNode) and "p" in assoc[node]:
            used.update(node.lines)
    return used


def check(name, tu, content, argv, expect_directives):
    """
    Every line `int mark_<n>;` sits on physical line <n>.  It must be
    reported as used iff the reference preprocessor keeps it.  Directive
    lines listed in expect_directives (line -> bool) must be (un)used as the
    property text demands (directives of reached chains are attributed).
    """
    root = tempfile.mkdtemp(prefix="c01demo_")
    try:
        mode = "wb" if isinstance(content, bytes) else "w"
        with open(os.path.join(root, tu), mode) as f:
            f.write(content)
        out = reference(root, tu, argv)
        used = codebasin_used_lines(root, tu, argv)
    finally:
        shutil.rmtree(root)
    text = content.decode("utf-8") if isinstance(content, bytes) else content
    kept = {int(n) for n in re.findall(r"mark_(\d+)", out)}
    marks = {int(n) for n in re.findall(r"mark_(\d+)", text)}
    problems = []
    for n in sorted(marks):
        if (n in used) != (n in kept):
            problems.append(
                f"line {n} kept by {argv[0]} -E: {n in kept}, "
                f"reported as used by codebasin: {n in used}",
            )
    for n, want in sorted(expect_directives.items()):
        if (n in used) != want:
            problems.append(
                f"directive line {n} should be "
                f"{'used' if want else 'unused'}, codebasin says {n in used}",
            )
    assert not problems, f"{name}: " + "; ".join(problems)
    print(f"{name}: ok")


KERNEL = '''\
static const char *kernel_src = R"CLC(
#ifdef USE_DOUBLE
typedef double mark_3;
#else
typedef float mark_5;
#endif
#define IN_STRING 1
)CLC";
#ifdef IN_STRING
int mark_10;
#endif
int mark_12;
'''

UNBALANCED = '''\
static const char *tail = R"(
#endif
)";
int mark_4;
'''

if __name__ == "__main__":
    failures = []
    for name, src in [
        ("conditional chain inside a raw string", KERNEL),
        ("lone #endif inside a raw string", UNBALANCED),
    ]:
        try:
            check(name, "t.cpp", src, ["g++"], {})
        except AssertionError as e:
            print("VIOLATION:", e)
            failures.append(name)
    assert not failures, failures
