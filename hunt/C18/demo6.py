#!/usr/bin/env python3
"""C18 demo 6: directives introduced with the digraph '%:' (ISO C95/C++ spelling
of '#') are not seen at all: a missing include and an unknown directive written
that way are dropped without a warning.

Exits 0 iff '%:include "missing.h"' and '%:frobnicate' are reported like their
'#' spellings."""
import json, logging, os, subprocess, sys, tempfile


def analyse(root, entries, platform="p"):
    """Run codebasin (taken from PYTHONPATH) on `root` with one platform whose
    compilation database is `entries`; return the list of warning messages."""
    import codebasin.config as config
    import codebasin.finder as finder
    from codebasin import CodeBase

    class Capture(logging.Handler):
        def __init__(self):
            super().__init__(logging.DEBUG)
            self.records = []

        def emit(self, record):
            self.records.append(record)

    logger = logging.getLogger("codebasin")
    logger.setLevel(logging.DEBUG)
    capture = Capture()
    logger.addHandler(capture)
    cwd = os.getcwd()
    os.chdir(root)
    try:
        config._compilers = None
        dbpath = os.path.join(root, "compile_commands.json")
        with open(dbpath, "w") as f:
            json.dump(entries, f)
        configuration = {platform: config.load_database(dbpath, root)}
        finder.find(root, CodeBase(root), configuration)
    finally:
        os.chdir(cwd)
        logger.removeHandler(capture)
    return [
        r.getMessage() for r in capture.records if r.levelno == logging.WARNING
    ]


def write(root, rel, text, encoding="utf-8"):
    path = os.path.join(root, rel)
    os.makedirs(os.path.dirname(path), exist_ok=True)
    with open(path, "w", encoding=encoding, newline="") as f:
        f.write(text)
    return path


def main():
    root = os.path.realpath(tempfile.mkdtemp(prefix="c18_demo6_"))
    write(root, "hash.c", '#include "missing.h"\n# include <sysmissing.h>\nint x;\n')
    write(root, "digraph.c", '%:include "missing.h"\n%: include <sysmissing.h>\nint x;\n')
    write(root, "digraph2.c", "%:ifdef NEVER\n%:frobnicate\n%:endif\n%:frobnicate\nint y;\n")

    # Reference: gcc treats %: exactly like #.
    r = subprocess.run(["gcc", "-E", "digraph.c"], cwd=root,
                       capture_output=True, text=True)
    assert "digraph.c:1:11: fatal error: missing.h" in r.stderr, r.stderr
    r = subprocess.run(["gcc", "-E", "digraph2.c"], cwd=root,
                       capture_output=True, text=True)
    assert "digraph2.c:4:3: error: invalid preprocessing directive" in r.stderr

    entries = [{"directory": root, "file": n, "command": f"gcc -c {n}"}
               for n in ["hash.c", "digraph.c", "digraph2.c"]]
    warnings = analyse(root, entries)
    for w in warnings:
        print("warning:", w)

    def count(filename, line, what):
        prefix = os.path.join(root, filename) + f":{line}:"
        return len([w for w in warnings if w.startswith(prefix) and what in w])

    assert count("hash.c", 1, "user include 'missing.h' not found") == 1
    assert count("hash.c", 2, "system include 'sysmissing.h' not found") == 1
    assert count("digraph.c", 1, "user include 'missing.h' not found") == 1, (
        "'%:include \"missing.h\"' dropped silently"
    )
    assert count("digraph.c", 2, "system include 'sysmissing.h' not found") == 1
    assert count("digraph2.c", 4, "unrecognized directive") == 1
    print("OK")


if __name__ == "__main__":
    main()
