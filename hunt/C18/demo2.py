#!/usr/bin/env python3
"""C18 demo 2: a header requested with the (known) option -include that cannot
be found is dropped without any warning.

Case A: the header exists nowhere (gcc: fatal error).
Case B: the header exists in the directory the command runs in ("directory" of
        the entry), which is where gcc looks first for -include; codebasin only
        looks next to the source file, does not find it, and says nothing - so
        the missing #include inside that header is never reported either.

Exits 0 iff each unhonoured forced include produces a warning naming it."""
import json, logging, os, subprocess, sys, tempfile


def analyse(root, entries, platform="p"):
    """Run codebasin (taken from PYTHONPATH) on `root` with one platform whose
    compilation database is `entries`; return the list of warning messages."""
    import codebasin.config as config
    import codebasin.finder as finder
    from codebasin import CodeBase

    class Capture(logging.Handler):
        def __init__(self):
            super().__init__(logging.DEBUG)
            self.records = []

        def emit(self, record):
            self.records.append(record)

    logger = logging.getLogger("codebasin")
    logger.setLevel(logging.DEBUG)
    capture = Capture()
    logger.addHandler(capture)
    cwd = os.getcwd()
    os.chdir(root)
    try:
        config._compilers = None
        dbpath = os.path.join(root, "compile_commands.json")
        with open(dbpath, "w") as f:
            json.dump(entries, f)
        configuration = {platform: config.load_database(dbpath, root)}
        finder.find(root, CodeBase(root), configuration)
    finally:
        os.chdir(cwd)
        logger.removeHandler(capture)
    return [
        r.getMessage() for r in capture.records if r.levelno == logging.WARNING
    ]


def write(root, rel, text, encoding="utf-8"):
    path = os.path.join(root, rel)
    os.makedirs(os.path.dirname(path), exist_ok=True)
    with open(path, "w", encoding=encoding, newline="") as f:
        f.write(text)
    return path


def main():
    root = os.path.realpath(tempfile.mkdtemp(prefix="c18_demo2_"))
    write(root, "src/a.c", "int a;\n")
    write(root, "src/b.c", "int b;\n")
    write(root, "build/config.h", '#include "cfg_missing.h"\n#define HAVE 1\n')

    # Reference, case A: gcc cannot honour the option and says so.
    r = subprocess.run(
        ["gcc", "-E", "-include", "nothere.h", "src/a.c"],
        cwd=root, capture_output=True, text=True,
    )
    assert "nothere.h: No such file or directory" in r.stderr, r.stderr
    # Reference, case B: gcc finds build/config.h (cwd is searched first) and
    # reports the missing include inside it.
    r = subprocess.run(
        ["gcc", "-E", "-include", "config.h", "../src/b.c"],
        cwd=os.path.join(root, "build"), capture_output=True, text=True,
    )
    assert "config.h:1:10: fatal error: cfg_missing.h" in r.stderr, r.stderr

    entries = [
        {"directory": root, "file": "src/a.c",
         "command": "gcc -include nothere.h -c src/a.c"},
        {"directory": os.path.join(root, "build"), "file": "../src/b.c",
         "command": "gcc -include config.h -c ../src/b.c"},
    ]
    warnings = analyse(root, entries)
    for w in warnings:
        print("warning:", w)

    a = [w for w in warnings if "nothere.h" in w]
    b = [w for w in warnings if "config.h" in w or "cfg_missing.h" in w]
    assert len(a) == 1, "case A: '-include nothere.h' dropped silently"
    assert len(b) == 1, "case B: '-include config.h' dropped silently"
    print("OK")


if __name__ == "__main__":
    main()
