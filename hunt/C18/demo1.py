#!/usr/bin/env python3
"""C18 demo 1: a directive on the first line of a file that starts with a UTF-8
byte-order mark is dropped without any warning.

Exits 0 iff the missing include / unknown directive on line 1 of a BOM-prefixed
file is reported exactly like in the same file without the BOM."""
import json, logging, os, subprocess, sys, tempfile


def analyse(root, entries, platform="p"):
    """Run codebasin (taken from PYTHONPATH) on `root` with one platform whose
    compilation database is `entries`; return the list of warning messages."""
    import codebasin.config as config
    import codebasin.finder as finder
    from codebasin import CodeBase

    class Capture(logging.Handler):
        def __init__(self):
            super().__init__(logging.DEBUG)
            self.records = []

        def emit(self, record):
            self.records.append(record)

    logger = logging.getLogger("codebasin")
    logger.setLevel(logging.DEBUG)
    capture = Capture()
    logger.addHandler(capture)
    cwd = os.getcwd()
    os.chdir(root)
    try:
        config._compilers = None
        dbpath = os.path.join(root, "compile_commands.json")
        with open(dbpath, "w") as f:
            json.dump(entries, f)
        configuration = {platform: config.load_database(dbpath, root)}
        finder.find(root, CodeBase(root), configuration)
    finally:
        os.chdir(cwd)
        logger.removeHandler(capture)
    return [
        r.getMessage() for r in capture.records if r.levelno == logging.WARNING
    ]


def write(root, rel, text, encoding="utf-8"):
    path = os.path.join(root, rel)
    os.makedirs(os.path.dirname(path), exist_ok=True)
    with open(path, "w", encoding=encoding, newline="") as f:
        f.write(text)
    return path


def main():
    root = os.path.realpath(tempfile.mkdtemp(prefix="c18_demo1_"))
    body = '#include "missing.h"\nint x;\n'
    write(root, "plain.c", body)
    write(root, "bom.c", "\ufeff" + body)
    body2 = "#frobnicate\nint y;\n"
    write(root, "plain2.c", body2)
    write(root, "bom2.c", "\ufeff" + body2)

    # Reference: gcc strips the BOM and sees the directive on line 1.
    for name in ["plain.c", "bom.c"]:
        r = subprocess.run(
            ["gcc", "-E", name], cwd=root, capture_output=True, text=True
        )
        assert f"{name}:1:10: fatal error: missing.h" in r.stderr, r.stderr
    for name in ["plain2.c", "bom2.c"]:
        r = subprocess.run(
            ["gcc", "-E", name], cwd=root, capture_output=True, text=True
        )
        assert f"{name}:1:2: error: invalid preprocessing directive" in r.stderr

    entries = [
        {"directory": root, "file": n, "command": f"gcc -c {n}"}
        for n in ["plain.c", "bom.c", "plain2.c", "bom2.c"]
    ]
    warnings = analyse(root, entries)
    for w in warnings:
        print("warning:", w)

    def reported(filename, what):
        return [
            w
            for w in warnings
            if w.startswith(os.path.join(root, filename) + ":1:") and what in w
        ]

    # sanity: the BOM-less files are reported
    assert len(reported("plain.c", "user include 'missing.h' not found")) == 1
    assert len(reported("plain2.c", "unrecognized directive")) == 1
    # property: so must the files that differ only by the BOM
    assert (
        len(reported("bom.c", "user include 'missing.h' not found")) == 1
    ), "missing include on line 1 of BOM-prefixed file was dropped silently"
    assert (
        len(reported("bom2.c", "unrecognized directive")) == 1
    ), "unknown directive on line 1 of BOM-prefixed file was dropped silently"
    print("OK")


if __name__ == "__main__":
    main()
