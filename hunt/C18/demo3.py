#!/usr/bin/env python3
"""C18 demo 3: unknown directives inside groups that are skipped on every
platform (#ifdef _MSC_VER ... #import/#using, #if 0 ...) produce "unrecognized
directive" warnings although nothing had to be honoured: the C standard
requires directives in a skipped group to be ignored, gcc accepts the file
without any diagnostic, and the analysis result does not depend on them.

Exits 0 iff the fully honoured input produces no warning (while the same
directive in a group that IS reached is still reported)."""
import json, logging, os, subprocess, sys, tempfile


def analyse(root, entries, platform="p"):
    """Run codebasin (taken from PYTHONPATH) on `root` with one platform whose
    compilation database is `entries`; return the list of warning messages."""
    import codebasin.config as config
    import codebasin.finder as finder
    from codebasin import CodeBase

    class Capture(logging.Handler):
        def __init__(self):
            super().__init__(logging.DEBUG)
            self.records = []

        def emit(self, record):
            self.records.append(record)

    logger = logging.getLogger("codebasin")
    logger.setLevel(logging.DEBUG)
    capture = Capture()
    logger.addHandler(capture)
    cwd = os.getcwd()
    os.chdir(root)
    try:
        config._compilers = None
        dbpath = os.path.join(root, "compile_commands.json")
        with open(dbpath, "w") as f:
            json.dump(entries, f)
        configuration = {platform: config.load_database(dbpath, root)}
        finder.find(root, CodeBase(root), configuration)
    finally:
        os.chdir(cwd)
        logger.removeHandler(capture)
    return [
        r.getMessage() for r in capture.records if r.levelno == logging.WARNING
    ]


def write(root, rel, text, encoding="utf-8"):
    path = os.path.join(root, rel)
    os.makedirs(os.path.dirname(path), exist_ok=True)
    with open(path, "w", encoding=encoding, newline="") as f:
        f.write(text)
    return path


SKIPPED = """\
#ifdef _MSC_VER
#import "lib.tlb"
#using <mscorlib.dll>
#endif
#if 0
#frobnicate now
#endif
int x;
"""

REACHED = """\
#ifdef USE_IDENT
#ident "v1"
#endif
int y;
"""


def main():
    root = os.path.realpath(tempfile.mkdtemp(prefix="c18_demo3_"))
    write(root, "skipped.c", SKIPPED)
    write(root, "reached.c", REACHED)

    # Reference: no diagnostics at all for skipped.c.
    r = subprocess.run(
        ["gcc", "-E", "-Wall", "-Wextra", "-pedantic", "skipped.c"],
        cwd=root, capture_output=True, text=True,
    )
    assert r.returncode == 0 and r.stderr == "", r.stderr

    entries = [
        {"directory": root, "file": "skipped.c", "command": "gcc -c skipped.c"},
        {"directory": root, "file": "reached.c",
         "command": "gcc -DUSE_IDENT -c reached.c"},
    ]
    warnings = analyse(root, entries)
    for w in warnings:
        print("warning:", w)

    reached = [w for w in warnings if "reached.c:2:" in w]
    assert len(reached) == 1, "sanity: reached unknown directive is reported"
    spurious = [w for w in warnings if "skipped.c" in w]
    assert spurious == [], (
        f"{len(spurious)} warning(s) for input that is fully honoured"
    )
    print("OK")


if __name__ == "__main__":
    main()
