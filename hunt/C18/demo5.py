#!/usr/bin/env python3
"""C18 demo 5: compiler options that codebasin does not know are dropped without
a warning when the argument contains white space or does not start with '-':

A. "-iquotemy inc" (gcc: joined form of -iquote, directory "my inc"): the same
   option with a directory name without a blank IS reported.
B. "@opts.rsp" (gcc/clang response file holding further options).

Both are accepted by gcc without diagnostics and change the result of
preprocessing. Exits 0 iff each produces a warning that names it."""
import json, logging, os, subprocess, sys, tempfile


def analyse(root, entries, platform="p"):
    """Run codebasin (taken from PYTHONPATH) on `root` with one platform whose
    compilation database is `entries`; return the list of warning messages."""
    import codebasin.config as config
    import codebasin.finder as finder
    from codebasin import CodeBase

    class Capture(logging.Handler):
        def __init__(self):
            super().__init__(logging.DEBUG)
            self.records = []

        def emit(self, record):
            self.records.append(record)

    logger = logging.getLogger("codebasin")
    logger.setLevel(logging.DEBUG)
    capture = Capture()
    logger.addHandler(capture)
    cwd = os.getcwd()
    os.chdir(root)
    try:
        config._compilers = None
        dbpath = os.path.join(root, "compile_commands.json")
        with open(dbpath, "w") as f:
            json.dump(entries, f)
        configuration = {platform: config.load_database(dbpath, root)}
        finder.find(root, CodeBase(root), configuration)
    finally:
        os.chdir(cwd)
        logger.removeHandler(capture)
    return [
        r.getMessage() for r in capture.records if r.levelno == logging.WARNING
    ]


def write(root, rel, text, encoding="utf-8"):
    path = os.path.join(root, rel)
    os.makedirs(os.path.dirname(path), exist_ok=True)
    with open(path, "w", encoding=encoding, newline="") as f:
        f.write(text)
    return path


def main():
    root = os.path.realpath(tempfile.mkdtemp(prefix="c18_demo5_"))
    write(root, "a.c", '#include "q.h"\n#ifdef FROM_RSP\nint rsp;\n#endif\n')
    write(root, "my inc/q.h", "int q;\n")
    write(root, "inc/q.h", "int q;\n")
    write(root, "opts.rsp", "-DFROM_RSP -iquoteinc\n")

    # Reference: gcc honours all three spellings silently.
    for opt in ["-iquotemy inc", "-iquoteinc", "@opts.rsp"]:
        r = subprocess.run(["gcc", "-E", opt, "a.c"], cwd=root,
                           capture_output=True, text=True)
        assert r.returncode == 0 and r.stderr == "", (opt, r.stderr)
        assert "int q;" in r.stdout
        assert ("int rsp;" in r.stdout) == (opt == "@opts.rsp")

    def warnings_for(option):
        entries = [{"directory": root, "file": "a.c",
                    "arguments": ["gcc", option, "-c", "a.c"]}]
        ws = analyse(root, entries)
        for w in ws:
            print(f"[{option}] warning:", w.splitlines()[0])
        return ws

    # sanity: the unknown option without a blank is named in a warning
    assert any("-iquoteinc" in w for w in warnings_for("-iquoteinc"))
    # property: so must be the other unknown options
    assert any("-iquotemy inc" in w for w in warnings_for("-iquotemy inc")), (
        "unknown option '-iquotemy inc' dropped silently"
    )
    # (either the response file itself is reported, or it is read and the
    # unknown option inside it is reported)
    rsp = warnings_for("@opts.rsp")
    assert any("@opts.rsp" in w or "-iquoteinc" in w for w in rsp), (
        "response file '@opts.rsp' dropped silently"
    )
    print("OK")


if __name__ == "__main__":
    main()
