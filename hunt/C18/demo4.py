#!/usr/bin/env python3
"""C18 demo 4: lines that start with '#' inside a C++11 raw string literal
(embedded OpenCL / GLSL source) are taken for preprocessor directives; the
analysis then warns about a "missing include" and an "unrecognized directive"
that do not exist. g++ accepts the file without diagnostics, everything in it
is honoured, so no warning must be issued.

Exits 0 iff no warning is produced for the file."""
import json, logging, os, subprocess, sys, tempfile


def analyse(root, entries, platform="p"):
    """Run codebasin (taken from PYTHONPATH) on `root` with one platform whose
    compilation database is `entries`; return the list of warning messages."""
    import codebasin.config as config
    import codebasin.finder as finder
    from codebasin import CodeBase

    class Capture(logging.Handler):
        def __init__(self):
            super().__init__(logging.DEBUG)
            self.records = []

        def emit(self, record):
            self.records.append(record)

    logger = logging.getLogger("codebasin")
    logger.setLevel(logging.DEBUG)
    capture = Capture()
    logger.addHandler(capture)
    cwd = os.getcwd()
    os.chdir(root)
    try:
        config._compilers = None
        dbpath = os.path.join(root, "compile_commands.json")
        with open(dbpath, "w") as f:
            json.dump(entries, f)
        configuration = {platform: config.load_database(dbpath, root)}
        finder.find(root, CodeBase(root), configuration)
    finally:
        os.chdir(cwd)
        logger.removeHandler(capture)
    return [
        r.getMessage() for r in capture.records if r.levelno == logging.WARNING
    ]


def write(root, rel, text, encoding="utf-8"):
    path = os.path.join(root, rel)
    os.makedirs(os.path.dirname(path), exist_ok=True)
    with open(path, "w", encoding=encoding, newline="") as f:
        f.write(text)
    return path


SOURCE = '''\
const char *shader = R"GLSL(
#version 330 core
#include "common.glsl"
void main() {}
)GLSL";
int host_code;
'''


def main():
    root = os.path.realpath(tempfile.mkdtemp(prefix="c18_demo4_"))
    write(root, "shader.cpp", SOURCE)

    # Reference: valid C++11, no diagnostics, nothing is included.
    r = subprocess.run(
        ["g++", "-std=c++11", "-Wall", "-Wextra", "-fsyntax-only",
         "shader.cpp"],
        cwd=root, capture_output=True, text=True,
    )
    assert r.returncode == 0 and r.stderr == "", r.stderr
    r = subprocess.run(
        ["g++", "-std=c++11", "-E", "shader.cpp"],
        cwd=root, capture_output=True, text=True,
    )
    assert r.returncode == 0 and r.stderr == "", r.stderr
    assert '#include "common.glsl"' in r.stdout  # still text, not a directive

    entries = [{"directory": root, "file": "shader.cpp",
                "command": "g++ -c shader.cpp"}]
    warnings = analyse(root, entries)
    for w in warnings:
        print("warning:", w)
    assert warnings == [], (
        f"{len(warnings)} warning(s) for input that is fully honoured"
    )
    print("OK")


if __name__ == "__main__":
    main()
