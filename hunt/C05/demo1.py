#!/usr/bin/env python
"""C05 demo 1: a white-space-only physical line inside a multi-line string
(or character) literal is counted or not depending on WHICH white space it
holds: a line holding exactly one space is dropped, a line holding two
spaces or one tab is counted.

Property C05 (read literally) says such a line is never counted, because it
holds no non-white-space character after splicing -> expected [1, 3].
The project's own test (tests/comments/continuation.cpp, total_sloc == 25)
treats white space inside a literal as content -> expected [1, 2, 3].
The current tree satisfies neither reading: it answers [1, 3] for one
spelling and [1, 2, 3] for the others.

Exit 0 iff all spellings get the same answer and that answer is one of the
two defensible ones.  With --strict only the literal reading of the property
([1, 3]) is accepted.
"""
import os
import subprocess
import sys
import tempfile

from codebasin import file_parser, preprocessor


def reference(text):
    """Lines holding a non-white-space character after backslash-newline
    splicing (these inputs hold no comments)."""
    counted = set()
    line = 1
    i = 0
    while i < len(text):
        c = text[i]
        if c == "\\" and text[i + 1 : i + 2] == "\n":
            i += 2
            line += 1
            continue
        if c == "\n":
            line += 1
        elif not c.isspace():
            counted.add(line)
        i += 1
    return sorted(counted)


def cbi_lines(path):
    tree = file_parser.FileParser(path).parse_file()
    lines = []
    for node in tree.walk():
        if isinstance(node, preprocessor.CodeNode):
            lines.extend(node.lines)
    assert tree.root.total_sloc == len(lines)
    return sorted(lines)


def main():
    strict = "--strict" in sys.argv[1:]
    variants = {
        "string, one space": 'const char *s = "a\\\n \\\nb";\n',
        "string, two spaces": 'const char *s = "a\\\n  \\\nb";\n',
        "string, one tab": 'const char *s = "a\\\n\t\\\nb";\n',
        "char, one space": "int c = '\\\n \\\n';\n",
        "char, one tab": "int c = '\\\n\t\\\n';\n",
    }
    results = {}
    with tempfile.TemporaryDirectory() as d:
        for name, text in variants.items():
            path = os.path.join(d, "t.c")
            with open(path, "w") as f:
                f.write(text)
            # valid C: the compiler accepts it without any diagnostic
            r = subprocess.run(
                ["gcc", "-fsyntax-only", "-Wall", "-Wextra", path],
                capture_output=True,
                text=True,
            )
            assert r.returncode == 0 and r.stderr == "", r.stderr
            assert reference(text) == [1, 3]
            results[name] = cbi_lines(path)
            print(f"{name:20s}: CBI counts {results[name]}")
    answers = {tuple(v) for v in results.values()}
    allowed = [(1, 3)] if strict else [(1, 3), (1, 2, 3)]
    assert len(answers) == 1 and answers.pop() in allowed, (
        "white-space-only literal lines are treated inconsistently: "
        f"{results}"
    )


if __name__ == "__main__":
    main()
    sys.exit(0)
