#!/usr/bin/env python
"""C05 demo 2: a C++14 / C23 digit separator (1'000) is taken for the start
of a character literal, so the quote pairing on the rest of the logical line
is shifted by one.  A '"' character literal then opens a bogus string that
hides a following /* ... and the lines of that comment are counted as code
(first input); a string holding a comment marker is scanned as code and
swallows the rest of the file or aborts the parse (second input).

Exit 0 iff the tree counts exactly the lines that hold code outside
comments.  The expectation comes from g++ -std=c++14 -E (and gcc -std=c2x).
"""
import os
import re
import subprocess
import sys
import tempfile

from codebasin import file_parser, preprocessor

CASES = [
    # (text, lines that hold code outside comments)
    ("int n = 1'000; char q = '\"'; /* COMMENTA\n   COMMENTB */\nint m;\n", [1, 3]),
    ("int n = 1'000; const char *glob = \"src/*\";\nint a;\nint b;\n", [1, 2, 3]),
]


def gcc_lines(path, text, flags):
    """Cross-check the expectation with the compiler: preprocess without
    diagnostics, and locate which input lines contribute tokens."""
    r = subprocess.run(
        ["gcc", *flags, "-E", "-P", path], capture_output=True, text=True
    )
    assert r.returncode == 0 and r.stderr == "", r.stderr
    out = re.sub(r"\s+", "", r.stdout)
    assert "COMMENT" not in out
    # every input line is a logical line of its own here (no splices), so a
    # line is code iff its comment-free remainder shows up in the output
    lines = []
    src = text.split("\n")
    for no, line in enumerate(src, start=1):
        stripped = re.sub(r"\s+", "", line)
        stripped = stripped.split("/*COMMENTA")[0]
        if "COMMENTB*/" in stripped:
            stripped = stripped.split("COMMENTB*/")[1]
        if stripped:
            assert stripped in out, (stripped, out)
            lines.append(no)
    return lines


def cbi_lines(path):
    tree = file_parser.FileParser(path).parse_file()
    lines = []
    for node in tree.walk():
        if isinstance(node, preprocessor.CodeNode):
            lines.extend(node.lines)
    return sorted(lines)


def main():
    failures = []
    with tempfile.TemporaryDirectory() as d:
        for k, (text, want) in enumerate(CASES):
            path = os.path.join(d, f"t{k}.cpp")
            with open(path, "w") as f:
                f.write(text)
            assert gcc_lines(path, text, ["-x", "c++", "-std=c++14"]) == want
            assert gcc_lines(path, text, ["-x", "c", "-std=c2x"]) == want
            try:
                got = cbi_lines(path)
            except Exception as e:  # noqa: BLE001
                got = f"{type(e).__name__}: {e}"
            print(f"case {k}: CBI {got}  expected {want}")
            if got != want:
                failures.append((k, got, want))
    assert not failures, failures


if __name__ == "__main__":
    main()
    sys.exit(0)
