"""C02 demo 6: a chain of 199 object-like macros in #if (macro replacement depth)."""
import logging
import subprocess
import sys
import tempfile
import warnings
from pathlib import Path

import codebasin
from codebasin import CodeBase, finder
from codebasin.preprocessor import CodeNode, DirectiveNode

logging.disable()
warnings.simplefilter("ignore")


def gcc_says(prelude, expr, lang="c"):
    """Truth value of `#if expr` according to gcc -E; asserts gcc is silent."""
    src = f"{prelude}#if {expr}\nYES_\n#else\nNO_\n#endif\n"
    r = subprocess.run(
        ["gcc", "-E", "-P", "-x", lang, "-std=c11", "-pedantic", "-"],
        input=src, capture_output=True, text=True,
    )
    assert r.returncode == 0 and not r.stderr.strip(), r.stderr
    return "YES_" in r.stdout


def cbi_says(prelude, expr, ext=".c"):
    """Truth value codebasin uses for `#if expr` (full pipeline)."""
    src = f"{prelude}#if {expr}\nint yes;\n#else\nint no;\n#endif\n"
    with tempfile.TemporaryDirectory() as d:
        d = Path(d).resolve()
        f = d / f"main{ext}"
        f.write_text(src)
        cfg = {"P": [{"file": str(f), "defines": [], "include_paths": [],
                      "include_files": []}]}
        state = finder.find(d, CodeBase(d), cfg)
        tree, assoc = state.get_tree(str(f)), state.get_map(str(f))
        active = set()
        for n in tree.walk():
            if isinstance(n, CodeNode) and not isinstance(n, DirectiveNode):
                if "P" in assoc[n]:
                    active.update(n.lines)
    yes_line = src.split("\n").index("int yes;") + 1
    no_line = src.split("\n").index("int no;") + 1
    assert (yes_line in active) != (no_line in active)
    return yes_line in active


def check(prelude, exprs):
    print("codebasin from", codebasin.__file__)
    failures = []
    for e in exprs:
        want = gcc_says(prelude, e)
        try:
            got = cbi_says(prelude, e)
        except Exception as exc:  # the analysis must not fail on valid input
            got = f"{type(exc).__name__}: {exc}"
        status = "ok  " if got == want else "FAIL"
        print(f"{status} #if {e!r}: gcc={want} codebasin={got}")
        if got != want:
            failures.append(e)
    assert not failures, f"property C02 violated for: {failures}"


N = 198
PRELUDE = "".join(f"#define D{i} D{i + 1}\n" for i in range(N)) + f"#define D{N} 1\n"
EXPRS = ["D0", "D0 == 1", "D0 || 1", "D5 == 1"]

if __name__ == "__main__":
    check(PRELUDE, EXPRS)
