#!/usr/bin/env python3
"""
C14 / finding 5: config.ArgumentParser.parse_args() turns the list of enabled
compiler modes (and passes) into a Python set and iterates over it to extend
the defines / include paths / include files.  The first definition of a macro
wins (Platform.define), so when two enabled modes of a user-defined compiler
(.cbi/config) define the same macro, which value is used depends on
PYTHONHASHSEED.

Exits 0 if the summary is the same under all hash seeds tried.
"""
import json
import os
import re
import shutil
import subprocess
import sys
import tempfile

CBI_CONFIG = """\
[compiler.mycc]

[[compiler.mycc.parser]]
flags = ["-mavx2"]
action = "append_const"
dest = "modes"
const = "avx2"

[[compiler.mycc.parser]]
flags = ["-mavx512"]
action = "append_const"
dest = "modes"
const = "avx512"

[[compiler.mycc.modes]]
name = "avx2"
defines = ["SIMD_WIDTH=256"]

[[compiler.mycc.modes]]
name = "avx512"
defines = ["SIMD_WIDTH=512"]
"""

K_C = """\
#if SIMD_WIDTH == 512
int wide(void) { return 512; }
int wide2(void) { return 512; }
#else
int narrow(void) { return 256; }
#endif
"""


def main():
    tmp = tempfile.mkdtemp(prefix="c14_demo5_")
    try:
        root = os.path.join(tmp, "root")
        os.makedirs(os.path.join(root, ".cbi"))
        with open(os.path.join(root, ".cbi", "config"), "w") as f:
            f.write(CBI_CONFIG)
        with open(os.path.join(root, "k.c"), "w") as f:
            f.write(K_C)
        with open(os.path.join(tmp, "db.json"), "w") as f:
            json.dump([{"directory": root, "file": "k.c", "command": "mycc -mavx2 -mavx512 -c k.c"}], f)
        with open(os.path.join(tmp, "analysis.toml"), "w") as f:
            f.write(f'[platform.cpu]\ncommands = "{tmp}/db.json"\n')

        seen = {}
        for seed in range(12):
            env = dict(os.environ)
            env["PYTHONHASHSEED"] = str(seed)
            p = subprocess.run(
                [sys.executable, "-W", "ignore", "-m", "codebasin", "-R", "summary", os.path.join(tmp, "analysis.toml")],
                cwd=root,
                env=env,
                capture_output=True,
                text=True,
            )
            assert p.returncode == 0, p.stdout + p.stderr
            rows = tuple(re.findall(r"│\s*(\{[^}]*\})\s*│\s*(\d+)\s*│", p.stdout))
            seen.setdefault(rows, []).append(seed)
        for rows, seeds in seen.items():
            print(f"PYTHONHASHSEED in {seeds}: {rows}")
        assert len(seen) == 1, "platform-set table depends on PYTHONHASHSEED"
    finally:
        shutil.rmtree(tmp, ignore_errors=True)


if __name__ == "__main__":
    main()
