#!/usr/bin/env python3
"""
C14 / finding 4: the metrics are accumulated in floating point in whatever
order the runtime iterates over sets / dicts, so the printed numbers change.

 (i)  report.divergence() sums the pairwise distances in the order of
      list(set(platform names)), i.e. in string-hash order.  For a code base
      whose exact divergence is 0.675 the summary prints "Code Divergence:
      0.67" or "0.68" depending on PYTHONHASHSEED.
 (ii) report.distance() sums count/total in the insertion order of the setmap,
      which is the order in which the file system enumerates the files.  For a
      code base whose exact distance(a, b) is 117/120 the distance matrix of
      the clustering report prints 0.97 or 0.98 depending on the enumeration
      order (os.scandir interposed, as in the property).

Exits 0 if the printed metrics are the same for every schedule tried.
"""
import json
import os
import re
import shutil
import subprocess
import sys
import tempfile

SITECUSTOMIZE = '''
import os
_order = os.environ.get("C14_SCANDIR_ORDER")
if _order:
    _orig_scandir = os.scandir

    class _Entries:
        def __init__(self, entries):
            self._entries = entries
        def __iter__(self):
            return iter(self._entries)
        def __enter__(self):
            return self
        def __exit__(self, *exc):
            return False
        def close(self):
            pass

    def scandir(path="."):
        with _orig_scandir(path) as it:
            entries = list(it)
        entries.sort(key=lambda e: e.name, reverse=(_order == "desc"))
        return _Entries(entries)

    os.scandir = scandir
'''


def make_codebase(tmp, name, files):
    """files: {filename: (number of lines, [platforms compiling it])}"""
    base = os.path.join(tmp, name)
    root = os.path.join(base, "root")
    os.makedirs(root)
    platforms = sorted({p for _, ps in files.values() for p in ps})
    for fn, (n, _) in files.items():
        with open(os.path.join(root, fn), "w") as f:
            f.write("".join(f"int {fn[:-2]}_{i};\n" for i in range(n)))
    toml = ""
    for p in platforms:
        db = [
            {"directory": root, "file": fn, "command": f"gcc -c {fn}"}
            for fn, (_, ps) in files.items()
            if p in ps
        ]
        with open(os.path.join(base, p + ".json"), "w") as f:
            json.dump(db, f)
        toml += f'[platform.{p}]\ncommands = "{base}/{p}.json"\n'
    with open(os.path.join(base, "analysis.toml"), "w") as f:
        f.write(toml)
    return root, os.path.join(base, "analysis.toml")


def cbi(args, cwd, env_extra):
    env = dict(os.environ)
    env.update(env_extra)
    p = subprocess.run(
        [sys.executable, "-W", "ignore", "-m", "codebasin"] + args,
        cwd=cwd,
        env=env,
        capture_output=True,
        text=True,
    )
    assert p.returncode == 0, p.stdout + p.stderr
    return p.stdout


def main():
    tmp = tempfile.mkdtemp(prefix="c14_demo4_")
    failures = []
    try:
        # (i) hash seed -> Code Divergence
        root, toml = make_codebase(
            tmp,
            "one",
            {
                "f1.c": (1, ["a"]),
                "f2.c": (8, ["a", "c"]),
                "f3.c": (31, ["a", "b"]),
            },
        )
        seen = {}
        for seed in range(10):
            out = cbi(["-R", "summary", toml], root, {"PYTHONHASHSEED": str(seed)})
            line = re.search(r"Code Divergence: \S+", out).group(0)
            seen.setdefault(line, []).append(seed)
        print("(i) exact value: (9/40 + 32/40 + 39/39) / 3 = 0.675")
        for line, seeds in seen.items():
            print(f"    {line}   for PYTHONHASHSEED in {seeds}")
        if len(seen) != 1:
            failures.append("Code Divergence depends on PYTHONHASHSEED")

        # (ii) enumeration order -> distance matrix
        site = os.path.join(tmp, "site")
        os.makedirs(site)
        with open(os.path.join(site, "sitecustomize.py"), "w") as f:
            f.write(SITECUSTOMIZE)
        root, toml = make_codebase(
            tmp,
            "two",
            {
                "f1.c": (8, ["a"]),
                "f2.c": (3, ["a", "b"]),
                "f3.c": (59, ["b"]),
                "f4.c": (50, ["b", "c"]),
            },
        )
        seen = {}
        for order in ["asc", "desc"]:
            out = cbi(
                ["-R", "clustering", toml],
                root,
                {
                    "PYTHONHASHSEED": "0",
                    "C14_SCANDIR_ORDER": order,
                    "PYTHONPATH": site + os.pathsep + os.environ.get("PYTHONPATH", ""),
                },
            )
            matrix = out[out.index("Distance Matrix") : out.index("Dendrogram written")]
            seen.setdefault(matrix, []).append(order)
        print("(ii) exact value: distance(a, b) = (8 + 59 + 50) / 120 = 0.975")
        for matrix, orders in seen.items():
            print(f"    enumeration order {orders}:")
            print(matrix)
        if len(seen) != 1:
            failures.append("distance matrix depends on the directory enumeration order")

        assert not failures, "; ".join(failures)
    finally:
        shutil.rmtree(tmp, ignore_errors=True)


if __name__ == "__main__":
    main()
