#!/usr/bin/env python3
"""
C14 / finding 2: everything that iterates over the CodeBase inherits the order
in which the file system enumerates directory entries (CodeBase.__iter__ walks
with Path.rglob("*") and never sorts).

Observable on identical inputs when only the enumeration order changes
(interposing on os.scandir, exactly as the property describes):
  (a) coverage.json written by `codebasin.coverage compute` lists the files in
      a different order (the file is not byte-identical),
  (b) the rows of the "Platform Set" table of `codebasin -R summary` that have
      the same number of platforms swap places,
  (c) the numbering of the groups of `codebasin -R duplicates` changes.

Exits 0 if the outputs are identical under both enumeration orders.
"""
import json
import os
import shutil
import subprocess
import sys
import tempfile

SITECUSTOMIZE = '''
import os
_order = os.environ.get("C14_SCANDIR_ORDER")
if _order:
    _orig_scandir = os.scandir

    class _Entries:
        def __init__(self, entries):
            self._entries = entries
        def __iter__(self):
            return iter(self._entries)
        def __next__(self):
            raise StopIteration
        def __enter__(self):
            return self
        def __exit__(self, *exc):
            return False
        def close(self):
            pass

    def scandir(path="."):
        with _orig_scandir(path) as it:
            entries = list(it)
        entries.sort(key=lambda e: e.name, reverse=(_order == "desc"))
        return _Entries(entries)

    os.scandir = scandir
'''


def run(args, cwd, site, order):
    env = dict(os.environ)
    env["PYTHONHASHSEED"] = "0"
    env["C14_SCANDIR_ORDER"] = order
    env["PYTHONPATH"] = site + os.pathsep + env.get("PYTHONPATH", "")
    p = subprocess.run(
        [sys.executable, "-W", "ignore"] + args,
        cwd=cwd,
        env=env,
        capture_output=True,
        text=True,
    )
    assert p.returncode == 0, p.stdout + p.stderr
    return p.stdout


def main():
    tmp = tempfile.mkdtemp(prefix="c14_demo2_")
    try:
        root = os.path.join(tmp, "root")
        site = os.path.join(tmp, "site")
        os.makedirs(root)
        os.makedirs(site)
        with open(os.path.join(site, "sitecustomize.py"), "w") as f:
            f.write(SITECUSTOMIZE)

        sources = {
            "alpha.c": "int alpha(void) { return 1; }\n",
            "beta.c": "int beta(void) { return 2; }\nint beta2(void) { return 2; }\n",
            "copy1.c": "int same;\n",
            "copy2.c": "int same;\n",
            "other1.c": "int other;\nint other_b;\n",
            "other2.c": "int other;\nint other_b;\n",
        }
        for name, text in sources.items():
            with open(os.path.join(root, name), "w") as f:
                f.write(text)

        def db(names):
            return [{"directory": root, "file": n, "command": f"gcc -c {n}"} for n in names]

        with open(os.path.join(tmp, "cpu.json"), "w") as f:
            json.dump(db(["alpha.c", "copy1.c", "other1.c"]), f)
        with open(os.path.join(tmp, "gpu.json"), "w") as f:
            json.dump(db(["beta.c", "copy2.c", "other2.c"]), f)
        with open(os.path.join(tmp, "analysis.toml"), "w") as f:
            f.write(
                f'[platform.cpu]\ncommands = "{tmp}/cpu.json"\n'
                + f'[platform.gpu]\ncommands = "{tmp}/gpu.json"\n',
            )

        results = {}
        for order in ["asc", "desc"]:
            cov = os.path.join(tmp, f"coverage_{order}.json")
            run(
                ["-m", "codebasin.coverage", "compute", "-S", root, "-o", cov, os.path.join(tmp, "cpu.json")],
                tmp,
                site,
                order,
            )
            with open(cov, "rb") as f:
                cov_bytes = f.read()
            out = run(["-m", "codebasin", "-R", "summary", "-R", "duplicates", os.path.join(tmp, "analysis.toml")], root, site, order)
            out = out[out.index("Summary") :]
            results[order] = (cov_bytes, out)
            print(f"==== enumeration order: {order} ====")
            print("coverage.json files:", [e["file"] for e in json.loads(cov_bytes)])
            print(out)

        (cov_a, out_a), (cov_d, out_d) = results["asc"], results["desc"]
        # Sanity: the interposer only changes the order, not the content.
        key = lambda e: e["file"]  # noqa: E731
        assert sorted(json.loads(cov_a), key=key) == sorted(json.loads(cov_d), key=key)
        assert cov_a == cov_d, "coverage.json depends on the directory enumeration order"
        assert out_a == out_d, "summary/duplicates report depends on the directory enumeration order"
    finally:
        shutil.rmtree(tmp, ignore_errors=True)


if __name__ == "__main__":
    main()
