#!/usr/bin/env python3
"""
C14 / finding 1: the result depends on the order of the [platform.*] tables
when a header that is not itself part of the code base is included both from
a C file and from a Fortran file.

The header is parsed only once, with the language of whichever file happens
to include it FIRST (C comment rules or Fortran rules); all later includers
reuse that tree.  Which file is first is decided by the order of the platform
tables in the analysis file.

Exits 0 if both platform orders give the same summary (and the one the real
preprocessors give), non-zero otherwise.
"""
import json
import os
import re
import shutil
import subprocess
import sys
import tempfile

CONFIG_H = """\
/* Optional features; to enable one, move its line out of this comment:
#define USE_FAST_PATH
*/
#define CONFIG_VERSION 3
"""

A_C = """\
#include "config.h"
int base(void) { return CONFIG_VERSION; }
#ifdef USE_FAST_PATH
int fast(void) { return 1; }
#else
int slow(void) { return 0; }
int slow2(void) { return 0; }
#endif
"""

B_F90 = """\
#include "config.h"
subroutine base()
end subroutine
#ifdef USE_FAST_PATH
subroutine fast()
end subroutine
#endif
"""


def run_summary(root, toml, cwd_env):
    env = dict(os.environ)
    env["PYTHONHASHSEED"] = "0"
    p = subprocess.run(
        [sys.executable, "-W", "ignore", "-m", "codebasin", "-R", "summary", toml],
        cwd=root,
        env=env,
        capture_output=True,
        text=True,
    )
    assert p.returncode == 0, p.stdout + p.stderr
    out = p.stdout
    return out[out.index("Summary") :]


def main():
    tmp = tempfile.mkdtemp(prefix="c14_demo1_")
    try:
        root = os.path.join(tmp, "src")  # the code base
        ext = os.path.join(tmp, "ext")  # outside of the code base
        os.makedirs(root)
        os.makedirs(ext)
        with open(os.path.join(ext, "config.h"), "w") as f:
            f.write(CONFIG_H)
        with open(os.path.join(root, "a.c"), "w") as f:
            f.write(A_C)
        with open(os.path.join(root, "b.F90"), "w") as f:
            f.write(B_F90)

        # Reference: both real preprocessors treat the #define as commented out.
        if shutil.which("gcc"):
            r = subprocess.run(["gcc", "-E", "-I../ext", "a.c"], cwd=root, capture_output=True, text=True)
            assert r.returncode == 0 and r.stderr == "", r.stderr
            assert "slow" in r.stdout and "fast" not in r.stdout
        if shutil.which("gfortran"):
            r = subprocess.run(["gfortran", "-cpp", "-E", "-I../ext", "b.F90"], cwd=root, capture_output=True, text=True)
            assert r.returncode == 0 and r.stderr == "", r.stderr
            assert "fast" not in r.stdout

        with open(os.path.join(root, "c.json"), "w") as f:
            json.dump([{"directory": root, "file": "a.c", "command": "gcc -I../ext -c a.c"}], f)
        with open(os.path.join(root, "f.json"), "w") as f:
            json.dump([{"directory": root, "file": "b.F90", "command": "gfortran -cpp -I../ext -c b.F90"}], f)
        cpu = '[platform.cpu]\ncommands = "c.json"\n'
        ftn = '[platform.ftn]\ncommands = "f.json"\n'
        with open(os.path.join(root, "order1.toml"), "w") as f:
            f.write(cpu + ftn)
        with open(os.path.join(root, "order2.toml"), "w") as f:
            f.write(ftn + cpu)

        s1 = run_summary(root, "order1.toml", tmp)
        s2 = run_summary(root, "order2.toml", tmp)
        print("---- [platform.cpu] first ----")
        print(s1)
        print("---- [platform.ftn] first ----")
        print(s2)

        def rows(s):
            return sorted(re.findall(r"│\s*(\{[^}]*\})\s*│\s*(\d+)\s*│", s))

        assert rows(s1) == rows(s2), f"platform order changes the platform-set table: {rows(s1)} != {rows(s2)}"
        assert s1 == s2, "platform order changes the summary report"
        # Expected from the reference preprocessors:
        # a.c: lines 1,2,3,5,6,7,8 used by cpu, line 4 unused; b.F90: 1,2,3,4,7 used, 5,6 unused
        assert rows(s1) == [("{cpu}", "7"), ("{ftn}", "5"), ("{}", "3")], rows(s1)
    finally:
        shutil.rmtree(tmp, ignore_errors=True)


if __name__ == "__main__":
    main()
