#!/usr/bin/env python3
"""
C14 / finding 3: the duplicates report prints the members of every duplicate
group by iterating over a Python set of Path objects, so the order of the
lines changes with PYTHONHASHSEED (which is random by default: two consecutive
runs of `codebasin -R duplicates` on an untouched code base print different
reports).  report.find_duplicates() hands out the same sets.

Exits 0 if the report is identical under all hash seeds tried.
"""
import json
import os
import shutil
import subprocess
import sys
import tempfile


def main():
    tmp = tempfile.mkdtemp(prefix="c14_demo3_")
    try:
        root = os.path.join(tmp, "root")
        os.makedirs(os.path.join(root, "cpu"))
        os.makedirs(os.path.join(root, "gpu"))
        os.makedirs(os.path.join(root, "ref"))
        text = "int kernel(int x) { return 2 * x; }\n"
        names = ["cpu/kernel.c", "gpu/kernel.c", "ref/kernel.c", "kernel_old.c"]
        for n in names:
            with open(os.path.join(root, n), "w") as f:
                f.write(text)
        with open(os.path.join(root, "main.c"), "w") as f:
            f.write("int main(void) { return 0; }\n")
        with open(os.path.join(tmp, "db.json"), "w") as f:
            json.dump([{"directory": root, "file": "main.c", "command": "gcc -c main.c"}], f)
        with open(os.path.join(tmp, "analysis.toml"), "w") as f:
            f.write(f'[platform.cpu]\ncommands = "{tmp}/db.json"\n')

        reports = {}
        for seed in range(12):
            env = dict(os.environ)
            env["PYTHONHASHSEED"] = str(seed)
            p = subprocess.run(
                [sys.executable, "-W", "ignore", "-m", "codebasin", "-R", "duplicates", os.path.join(tmp, "analysis.toml")],
                cwd=root,
                env=env,
                capture_output=True,
                text=True,
            )
            assert p.returncode == 0, p.stdout + p.stderr
            out = p.stdout[p.stdout.index("Duplicates") :].replace(root + os.sep, "")
            reports.setdefault(out, []).append(seed)

        for out, seeds in reports.items():
            print(f"---- PYTHONHASHSEED in {seeds} ----")
            print(out)
        assert len(reports) == 1, f"{len(reports)} different duplicates reports for identical inputs"
    finally:
        shutil.rmtree(tmp, ignore_errors=True)


if __name__ == "__main__":
    main()
