#!/usr/bin/env python
"""
C10 demo 4: exclude patterns are matched against the RESOLVED path of a file,
not against the path it has in the code base.

The code base contains include/config.h and a symbolic link to it,
src/config.h -> ../include/config.h (the same header reached twice).

  * `-x src/config.h` (or `-x src/`) names the link.  git check-ignore reports
    src/config.h as excluded, but CodeBase.__contains__ resolves the link first
    and matches "include/config.h" against the pattern, so the link stays in
    the code base and still appears, with its lines, in the coverage JSON
    (and in the `codebasin.tree` listing).
  * `-x include/` names only the target.  git check-ignore leaves
    src/config.h alone, but the tree drops the link as well.
"""
import json
import logging
import os
import shutil
import subprocess
import sys
import tempfile
from pathlib import Path

from codebasin import CodeBase

logging.disable(logging.CRITICAL)


def git_ignored(root, patterns, files):
    subprocess.run(["git", "init", "-q", root], check=True)
    Path(root, ".git", "info", "exclude").write_text("\n".join(patterns) + "\n")
    r = subprocess.run(
        ["git", "-C", root, "-c", "core.excludesFile=/dev/null",
         "check-ignore", "--no-index", "--stdin"],
        input="\n".join(files) + "\n", capture_output=True, text=True,
    )
    assert r.returncode in (0, 1), r.stderr
    shutil.rmtree(os.path.join(root, ".git"))
    return set(r.stdout.split())


with tempfile.TemporaryDirectory() as tmp:
    tmp = os.path.realpath(tmp)
    root = os.path.join(tmp, "root")
    os.makedirs(os.path.join(root, "include"))
    os.makedirs(os.path.join(root, "src"))
    Path(root, "include/config.h").write_text("#define USE_GPU 1\nint cfg;\n")
    os.symlink("../include/config.h", os.path.join(root, "src/config.h"))
    Path(root, "src/main.c").write_text(
        '#include "config.h"\n#if USE_GPU\nint gpu;\n#else\nint cpu;\n#endif\n',
    )
    files = ["include/config.h", "src/config.h", "src/main.c"]
    db = os.path.join(tmp, "db.json")
    Path(db).write_text(json.dumps([
        {"directory": root, "file": "src/main.c", "arguments": ["gcc", "-c", "src/main.c"]},
    ]))

    failures = []
    for patterns in (["src/config.h"], ["include/"]):
        ignored = git_ignored(root, patterns, files)
        expected = sorted(set(files) - ignored)
        cb = CodeBase(root, exclude_patterns=patterns)
        listed = sorted(os.path.relpath(p, root) for p in cb)

        cov = os.path.join(tmp, "cov.json")
        cmd = [sys.executable, "-m", "codebasin.coverage", "compute", "-S", root,
               "-o", cov, db]
        for p in patterns:
            cmd += ["-x", p]
        r = subprocess.run(cmd, cwd=tmp, capture_output=True, text=True)
        assert r.returncode == 0, r.stdout + r.stderr
        reported = sorted(e["file"] for e in json.load(open(cov)))
        print(f"patterns={patterns}: git keeps {expected}; "
              f"CodeBase lists {listed}; coverage JSON reports {reported}")
        # Only the first case is asserted: naming the link must remove the
        # link from every report.  The second case is printed for information.
        if patterns == ["src/config.h"] and (listed != expected or reported != expected):
            failures.append(patterns)

    assert not failures, f"excluded set differs from git for {failures}"
print("OK")
