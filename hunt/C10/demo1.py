#!/usr/bin/env python
"""
C10 demo 1: a negated pattern re-includes a file that lies beneath an excluded
directory.  The documentation says that exclude patterns use git's format and
CodeBase.__contains__ says "Use GitIgnoreSpec to match git behavior"; git
(check-ignore) reports that BOTH headers under third-party/ are excluded by

    exclude = ["third-party/", "!third-party/shim.h"]

because a file cannot be re-included once its parent directory is excluded.
The tree keeps counting third-party/shim.h.
"""
import collections
import logging
import os
import shutil
import subprocess
import tempfile
from pathlib import Path

from codebasin import CodeBase, finder
from codebasin.preprocessor import CodeNode

logging.disable(logging.CRITICAL)

PATTERNS = ["third-party/", "!third-party/shim.h"]

FILES = {
    "third-party/lib.h": "#pragma once\n#define LIB_HAS_GPU 1\nint lib(void);\n",
    "third-party/shim.h": "#pragma once\n#define SHIM 1\nint shim(void);\nint shim2(void);\n",
    "src/main.c": (
        '#include "lib.h"\n'
        '#include "shim.h"\n'
        "#if defined(GPU) && LIB_HAS_GPU && SHIM\n"
        "int gpu(void);\n"
        "#else\n"
        "int cpu(void);\n"
        "#endif\n"
    ),
}


def git_ignored(root, patterns, files):
    subprocess.run(["git", "init", "-q", root], check=True)
    with open(os.path.join(root, ".git", "info", "exclude"), "w") as f:
        f.write("\n".join(patterns) + "\n")
    r = subprocess.run(
        ["git", "-C", root, "-c", "core.excludesFile=/dev/null",
         "check-ignore", "--no-index", "--stdin"],
        input="\n".join(files) + "\n", capture_output=True, text=True,
    )
    assert r.returncode in (0, 1), r.stderr
    shutil.rmtree(os.path.join(root, ".git"))
    return set(r.stdout.split())


def per_file_counts(state, fn):
    counts = collections.Counter()
    tree, amap = state.get_tree(fn), state.get_map(fn)
    for node in tree.walk():
        if isinstance(node, CodeNode):
            counts[frozenset(amap[node])] += node.num_lines
    return counts


def analyse(root, excludes):
    main = os.path.join(root, "src/main.c")
    inc = [os.path.join(root, "third-party")]
    cfg = {
        "cpu": [{"file": main, "defines": [], "include_paths": inc, "include_files": []}],
        "gpu": [{"file": main, "defines": ["GPU"], "include_paths": inc, "include_files": []}],
    }
    cb = CodeBase(root, exclude_patterns=excludes)
    state = finder.find(root, cb, cfg)
    return cb, state


with tempfile.TemporaryDirectory() as tmp:
    root = os.path.realpath(tmp)
    for rel, text in FILES.items():
        p = Path(root, rel)
        p.parent.mkdir(parents=True, exist_ok=True)
        p.write_text(text)

    ignored = git_ignored(root, PATTERNS, sorted(FILES))
    print("git check-ignore says excluded:", sorted(ignored))
    assert ignored == {"third-party/lib.h", "third-party/shim.h"}

    # Baseline (no exclusion): contribution of each file to the platform sets.
    cb0, st0 = analyse(root, [])
    expected = collections.Counter()
    for rel in FILES:
        if rel not in ignored:
            expected += per_file_counts(st0, os.path.join(root, rel))

    cb1, st1 = analyse(root, PATTERNS)
    kept = sorted(os.path.relpath(p, root) for p in cb1)
    got = collections.Counter(st1.get_setmap(cb1))
    print("code base with the exclusion  :", kept)
    print("expected setmap:", dict(expected))
    print("actual   setmap:", dict(got))

    assert kept == sorted(set(FILES) - ignored), (
        f"files still in the code base although git excludes them: "
        f"{sorted(set(kept) & ignored)}"
    )
    assert got == expected
print("OK")
