#!/usr/bin/env python
"""
C10 demo 3: a pattern given with -x is not equivalent to the same pattern
added to the analysis file when the analysis file already has patterns.

__main__.py (and tree.py) do `args.excludes += analysis_toml["codebase"]["exclude"]`,
i.e. the command-line patterns are placed BEFORE the analysis-file patterns.
gitignore semantics are order dependent (last match wins), so

    analysis file: exclude = ["*.h", "!keep.h"]        + command line: -x keep.h

leaves keep.h in the code base (the file's "!keep.h" comes later and wins),
whereas adding the same pattern to the analysis file,

    analysis file: exclude = ["*.h", "!keep.h", "keep.h"]

excludes it (git check-ignore agrees with the latter for that list).
"""
import json
import os
import shutil
import subprocess
import sys
import tempfile
from pathlib import Path

FILES = {
    "keep.h": "#define KEEP 1\nint keep_a;\nint keep_b;\n",
    "other.h": "int other;\n",
    "main.c": '#include "keep.h"\n#include "other.h"\n#if KEEP\nint yes;\n#else\nint no;\n#endif\n',
}


def summary(root, toml_excludes, cli_excludes):
    db = os.path.join(root, "db.json")
    Path(db).write_text(json.dumps([
        {"directory": root, "file": "main.c", "arguments": ["gcc", "-c", "main.c"]},
    ]))
    toml = os.path.join(root, "analysis.toml")
    Path(toml).write_text(
        "[codebase]\nexclude = %s\n[platform.cpu]\ncommands = %s\n"
        % (json.dumps(toml_excludes), json.dumps(db)),
    )
    cmd = [sys.executable, "-m", "codebasin", "-R", "summary"]
    for x in cli_excludes:
        cmd += ["-x", x]
    cmd.append(toml)
    r = subprocess.run(cmd, cwd=root, capture_output=True, text=True)
    assert r.returncode == 0, r.stdout + r.stderr
    for name in ("cbi.log",):
        if os.path.exists(os.path.join(root, name)):
            os.remove(os.path.join(root, name))
    out = r.stdout
    return out[out.index("Summary"):]


def total_sloc(text):
    for line in text.splitlines():
        if line.startswith("Total SLOC:"):
            return int(line.split(":")[1])
    raise AssertionError(text)


with tempfile.TemporaryDirectory() as tmp:
    root = os.path.realpath(tmp)
    for rel, text in FILES.items():
        Path(root, rel).write_text(text)

    # Reference for the combined list, in the order a user would write it.
    subprocess.run(["git", "init", "-q", root], check=True)
    Path(root, ".git", "info", "exclude").write_text("*.h\n!keep.h\nkeep.h\n")
    r = subprocess.run(["git", "-C", root, "check-ignore", "--no-index", "keep.h"],
                       capture_output=True, text=True)
    assert r.stdout.strip() == "keep.h"
    shutil.rmtree(os.path.join(root, ".git"))

    in_file = summary(root, ["*.h", "!keep.h", "keep.h"], [])
    with_x = summary(root, ["*.h", "!keep.h"], ["keep.h"])
    print("pattern in the analysis file:\n" + in_file)
    print("same pattern given with -x:\n" + with_x)
    # keep.h has 3 lines, main.c has 7; other.h is excluded either way.
    assert total_sloc(in_file) == 7
    assert total_sloc(with_x) == 7, "-x keep.h did not exclude keep.h"
    assert in_file == with_x
print("OK")
