#!/usr/bin/env python
"""
C10 demo 2: excluding a header (or moving it outside the root) changes the
LANGUAGE it is parsed with, and thereby the macros it provides.

finder.find() parses every file of the code base up front with the language of
its extension (defs.h -> C).  A header that is NOT in the code base (excluded
by pattern, or outside the root) is parsed lazily by IncludeNode with the
language of the including file (main.F90 -> free-form Fortran), whose line
source does not strip multi-line /* */ comments.  A "#define" inside such a
comment becomes live as soon as the header is excluded, and the attribution of
main.F90 - which is not excluded - changes.
"""
import logging
import os
import shutil
import subprocess
import tempfile
from pathlib import Path

from codebasin import CodeBase, finder
from codebasin.preprocessor import CodeNode

logging.disable(logging.CRITICAL)

DEFS_H = """\
/* Legacy switch, kept for reference:
#define USE_LEGACY 1
*/
#define USE_NEW 1
"""

MAIN_F90 = """\
#include "defs.h"
program p
#ifdef USE_LEGACY
  call legacy()
#else
  call modern()
#endif
end program p
"""


def attribution(root, main, include_paths, excludes):
    cb = CodeBase(root, exclude_patterns=excludes)
    cfg = {"p": [{"file": main, "defines": [], "include_paths": include_paths,
                  "include_files": []}]}
    state = finder.find(root, cb, cfg)
    tree, amap = state.get_tree(main), state.get_map(main)
    lines = {}
    for node in tree.walk():
        if isinstance(node, CodeNode):
            for line in node.lines:
                lines[line] = sorted(amap[node])
    return lines, dict(state.get_setmap(cb))


with tempfile.TemporaryDirectory() as tmp:
    tmp = os.path.realpath(tmp)
    root = os.path.join(tmp, "root")
    outside = os.path.join(tmp, "outside")
    os.makedirs(root)
    os.makedirs(outside)
    main = os.path.join(root, "main.F90")
    Path(main).write_text(MAIN_F90)
    Path(root, "defs.h").write_text(DEFS_H)

    # Reference: gfortran accepts the input without diagnostics and keeps
    # only the "modern" branch.
    r = subprocess.run(["gfortran", "-cpp", "-E", "main.F90"], cwd=root,
                       capture_output=True, text=True)
    assert r.returncode == 0 and r.stderr == "", r.stderr
    assert "call modern()" in r.stdout and "call legacy()" not in r.stdout

    base, base_setmap = attribution(root, main, [], [])
    excl, excl_setmap = attribution(root, main, [], ["defs.h"])
    print("no exclusion :", base, base_setmap)
    print("-x defs.h    :", excl, excl_setmap)

    # Same header placed outside the root instead (found through -I).
    shutil.move(os.path.join(root, "defs.h"), os.path.join(outside, "defs.h"))
    out, out_setmap = attribution(root, main, [outside], [])
    print("header outside:", out, out_setmap)

    # gfortran: line 6 (call modern) is compiled, line 4 (call legacy) is not.
    assert base[6] == ["p"] and base[4] == []
    # Property: excluding defs.h leaves the attribution of main.F90 unchanged.
    assert excl == base, "excluding defs.h changed the attribution of main.F90"
    assert out == base, "moving defs.h outside the root changed main.F90"
print("OK")
