#!/usr/bin/env python
"""C15 demo 3: "-I dir is ignored when dir is also given with -isystem" is
decided by comparing the option *spellings*.

gcc identifies directories by device/inode, so `-I ./inc -I other -isystem inc`
(or `-I inc_link ...` with inc_link -> inc) searches  other, inc.  The tool only
drops the -I entry if it is spelled exactly like the -isystem entry, so an alias
of the directory stays at the front of the search order and <x.h> is attributed
to another physical file than with the canonical spelling.
"""
import json
import logging
import os
import re
import subprocess
import tempfile
import warnings

warnings.simplefilter("ignore")
from codebasin import CodeBase, config, finder  # noqa: E402
from codebasin.preprocessor import CodeNode  # noqa: E402

logging.getLogger("codebasin").setLevel(logging.CRITICAL)


def make(base):
    root = os.path.join(base, "src")
    os.makedirs(os.path.join(root, "inc"))
    os.makedirs(os.path.join(root, "other"))
    with open(os.path.join(root, "inc", "x.h"), "w") as f:
        f.write("int from_inc;\n")
    with open(os.path.join(root, "other", "x.h"), "w") as f:
        f.write("int from_other;\nint from_other2;\n")
    with open(os.path.join(root, "main.c"), "w") as f:
        f.write("#include <x.h>\nint main_;\n")
    os.symlink("inc", os.path.join(root, "inc_link"))   # directory alias inside the code base
    return root


def analyse(root, first_dir):
    args = ["gcc", "-c", "-I", first_dir, "-I", "other", "-isystem", "inc", "main.c"]
    p = subprocess.run(["gcc", "-E", "-P"] + args[2:], cwd=root, capture_output=True, text=True)
    assert p.returncode == 0 and not p.stderr, p.stderr
    gcc = set(re.findall(r"int (\w+);", p.stdout))
    db = os.path.join(os.path.dirname(root), "cc.json")
    with open(db, "w") as f:
        json.dump([{"directory": root, "file": "main.c", "arguments": args}], f)
    codebase = CodeBase(root)
    state = finder.find(root, codebase, {"p": config.load_database(db, root)})
    used = {}
    for fn in state.get_filenames():
        n = sum(node.num_lines for node in state.get_tree(fn).walk()
                if isinstance(node, CodeNode) and state.get_map(fn)[node])
        used[os.path.relpath(fn, root)] = n
    setmap = {tuple(sorted(k)): v for k, v in state.get_setmap(codebase).items()}
    return gcc, used, setmap


with tempfile.TemporaryDirectory() as t:
    root = make(t)
    results = {sp: analyse(root, sp) for sp in ["inc", "./inc", "inc/", "inc_link"]}
    for sp, r in results.items():
        print(f"-I {sp:9}", r)
    canon = results["inc"]
    assert canon[0] == {"from_other", "from_other2", "main_"}        # reference
    for sp, r in results.items():
        assert r[0] == canon[0], "gcc itself treats all spellings alike"
    bad = [sp for sp, r in results.items() if r[1:] != canon[1:]]
    assert not bad, f"spellings {bad} of the directory 'inc' change the attribution"
print("OK")
