#!/usr/bin/env python
"""C15 demo 2: `..` after a directory symlink is collapsed textually.

os.path.abspath() turns "link/../x" into "x" before the file system is asked,
but the OS (and gcc) resolve "link" first: "link/../x" is the sibling of the
link's *target*.  Both the include search (platform.find_include_file) and the
compilation-database loader (config.load_database) do this, so a path spelled
through a directory link reaches a different file (or none) than the canonical
spelling of the same path.
"""
import json
import logging
import os
import re
import subprocess
import tempfile
import warnings

warnings.simplefilter("ignore")
from codebasin import CodeBase, config, finder  # noqa: E402
from codebasin.preprocessor import CodeNode  # noqa: E402

logging.getLogger("codebasin").setLevel(logging.CRITICAL)


def analyse(base, entry):
    """Return {relative real file: sorted used line numbers} and the setmap."""
    root = os.path.join(base, "src")
    db = os.path.join(base, "cc.json")
    with open(db, "w") as f:
        json.dump([entry], f)
    codebase = CodeBase(root)
    state = finder.find(root, codebase, {"p": config.load_database(db, root)})
    used = {}
    for fn in codebase:
        if os.path.islink(fn):
            continue
        tree, amap = state.get_tree(fn), state.get_map(fn)
        lines = []
        for node in tree.walk():
            if isinstance(node, CodeNode) and amap[node]:
                lines += node.lines
        used[os.path.relpath(fn, root)] = sorted(lines)
    setmap = {tuple(sorted(k)): v for k, v in state.get_setmap(codebase).items()}
    return used, setmap


def gcc_idents(base, entry):
    cwd = entry["directory"]
    args = entry["arguments"]
    p = subprocess.run(["gcc", "-E", "-P"] + args[2:], cwd=cwd,
                       capture_output=True, text=True)
    assert p.returncode == 0 and not p.stderr, p.stderr  # valid for the reference
    return set(re.findall(r"int (\w+);", p.stdout))


def make(base, main_include, links):
    root = os.path.join(base, "src")
    os.makedirs(os.path.join(root, "versions", "v2"))
    with open(os.path.join(root, "versions", "config.h"), "w") as f:
        f.write("#define NEW 1\nint versions_config;\n")
    with open(os.path.join(root, "config.h"), "w") as f:   # lives where the textual reading points
        f.write("#define OLD 1\nint toplevel_config;\n")
    with open(os.path.join(root, "versions", "v2", "impl.h"), "w") as f:
        f.write("int impl;\n")
    with open(os.path.join(root, "main.c"), "w") as f:
        f.write(f'#include "{main_include}"\n'
                "#ifdef NEW\nint new_code;\n#endif\n"
                "#ifdef OLD\nint old_code;\n#endif\n")
    if links:
        os.symlink("versions/v2", os.path.join(root, "current"))
    return root


failures = []
with tempfile.TemporaryDirectory() as t:
    # ---- site 1: include directive spelled through the link --------------
    ca = os.path.join(t, "canon1")
    root = make(ca, "versions/config.h", links=False)
    e_c = {"directory": root, "file": "main.c", "arguments": ["gcc", "-c", "main.c"]}
    al = os.path.join(t, "alias1")
    root = make(al, "current/../config.h", links=True)      # == versions/config.h
    e_a = {"directory": root, "file": "main.c", "arguments": ["gcc", "-c", "main.c"]}
    assert gcc_idents(ca, e_c) == gcc_idents(al, e_a) == {"versions_config", "new_code"}
    uc, sc = analyse(ca, e_c)
    ua, sa = analyse(al, e_a)
    print("site 1 canonical:", uc, sc)
    print("site 1 alias    :", ua, sa)
    if (ua, sa) != (uc, sc):
        failures.append("include directive 'current/../config.h' reached another file")

    # ---- site 2: compile command whose directory is the link -------------
    ca = os.path.join(t, "canon2")
    root = make(ca, "versions/config.h", links=False)
    d = os.path.join(root, "versions", "v2")
    e_c = {"directory": d, "file": "../../main.c",
           "arguments": ["gcc", "-c", "-I../..", "../../main.c"]}
    al = os.path.join(t, "alias2")
    root = make(al, "versions/config.h", links=True)
    d = os.path.join(root, "current")                      # same directory, via the link
    e_a = {"directory": d, "file": "../../main.c",
           "arguments": ["gcc", "-c", "-I../..", "../../main.c"]}
    assert gcc_idents(ca, e_c) == gcc_idents(al, e_a) == {"versions_config", "new_code"}
    uc, sc = analyse(ca, e_c)
    ua, sa = analyse(al, e_a)
    print("site 2 canonical:", uc, sc)
    print("site 2 alias    :", ua, sa)
    if (ua, sa) != (uc, sc):
        failures.append("compile command with directory 'current' and file '../../main.c' was lost")

assert not failures, failures
print("OK")
