#!/usr/bin/env python
"""C15 demo 6: a dangling symlink cycle anywhere in the code base aborts the analysis.

`old.h -> new.h -> old.h` (left behind by a botched rename) has no target, so
it "is not part of the code base" and must add nothing; an ordinary broken
link (`gone.h -> missing.h`) is indeed ignored.  For the cycle,
CodeBase.__contains__ calls Path.resolve(), which raises RuntimeError
("Symlink loop ...") on Python < 3.13; nothing catches it, so iterating the
code base - and with it finder.find(), get_setmap(), the tree and the coverage
export - fails although no compile command or include refers to the links.
"""
import json
import logging
import os
import tempfile
import warnings

warnings.simplefilter("ignore")
from codebasin import CodeBase, config, finder  # noqa: E402

logging.getLogger("codebasin").setLevel(logging.CRITICAL)


def analyse(base, links):
    root = os.path.join(base, "src")
    os.makedirs(root)
    with open(os.path.join(root, "main.c"), "w") as f:
        f.write("#ifdef A\nint a;\n#else\nint b;\n#endif\n")
    for name, target in links:
        os.symlink(target, os.path.join(root, name))
    db = os.path.join(base, "cc.json")
    with open(db, "w") as f:
        json.dump([{"directory": root, "file": "main.c",
                    "arguments": ["gcc", "-DA", "-c", "main.c"]}], f)
    codebase = CodeBase(root)
    state = finder.find(root, codebase, {"p": config.load_database(db, root)})
    return {tuple(sorted(k)): v for k, v in state.get_setmap(codebase).items()}


with tempfile.TemporaryDirectory() as t:
    canon = analyse(os.path.join(t, "c"), [])
    print("no links     :", canon)
    broken = analyse(os.path.join(t, "b"), [("gone.h", "missing.h")])
    print("broken link  :", broken)
    assert broken == canon
    try:
        cyc = analyse(os.path.join(t, "a"), [("old.h", "new.h"), ("new.h", "old.h")])
    except Exception as e:  # noqa: BLE001
        raise AssertionError(f"the link cycle aborted the analysis: {type(e).__name__}: {e}")
    print("link cycle   :", cyc)
    assert cyc == canon
print("OK")
