#!/usr/bin/env python
"""C15 demo 1: `cbi-cov compute` exports a file symlink as a second copy of its target.

Property: "A symbolic link whose target is in the code base adds nothing to any
total"; each physical file is counted once.  The coverage export (the input of
the P3 analysis library, which sums used/unused lines over the entries) must be
the same for the code base with and without the link.
"""
import contextlib
import io
import json
import logging
import os
import tempfile
import warnings

warnings.simplefilter("ignore")
from codebasin.coverage import __main__ as cov  # noqa: E402


def export(base):
    root = os.path.join(base, "src")
    db = os.path.join(base, "compile_commands.json")
    out = os.path.join(base, "coverage.json")
    with open(db, "w") as f:
        json.dump(
            [{"directory": root, "file": "main.c",
              "arguments": ["gcc", "-DUSE_A", "-c", "main.c"]}], f)
    cwd = os.getcwd()
    os.chdir(base)  # cbi.log lands in the temporary directory
    try:
        with contextlib.redirect_stdout(io.StringIO()):
            try:
                cov.cli(["compute", "-S", root, "-o", out, db])
            except SystemExit as e:
                assert e.code in (0, None)
    finally:
        os.chdir(cwd)
        logging.getLogger("codebasin").handlers.clear()
    with open(out) as f:
        return json.load(f)


def make(base, with_link):
    root = os.path.join(base, "src")
    os.makedirs(os.path.join(root, "include"))
    with open(os.path.join(root, "include", "util.h"), "w") as f:
        f.write("#ifdef USE_A\nint a;\n#else\nint b;\n#endif\n")
    with open(os.path.join(root, "main.c"), "w") as f:
        f.write('#include "include/util.h"\nint main_;\n')
    if with_link:
        # a convenience alias of the header, target inside the code base
        os.symlink("include/util.h", os.path.join(root, "util.h"))


with tempfile.TemporaryDirectory() as t:
    make(os.path.join(t, "plain"), False)
    make(os.path.join(t, "linked"), True)
    plain = export(os.path.join(t, "plain"))
    linked = export(os.path.join(t, "linked"))

    def totals(cov_json):
        return (sum(len(e["used_lines"]) for e in cov_json),
                sum(len(e["unused_lines"]) for e in cov_json))

    print("without link:", totals(plain), sorted(e["file"] for e in plain))
    print("with link   :", totals(linked), sorted(e["file"] for e in linked))
    ids = [e["id"] for e in linked]
    assert totals(linked) == totals(plain), (
        "the symlink changed the exported totals", totals(plain), totals(linked))
    assert len(linked) == len(plain), "the symlink was exported as a file of its own"
print("OK")
