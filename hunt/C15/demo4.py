#!/usr/bin/env python
"""C15 demo 4: a doubled separator in an angle-bracket include aborts the analysis.

`#include <pkg//x.h>` names the same file as `<pkg/x.h>` (redundant path
segment; gcc and clang accept it silently).  The C line cleaner treats the
`//` inside the <...> header name as the start of a comment, the directive is
left as `#include <pkg`, and evaluating it raises an uncaught ParseError that
terminates finder.find() for the whole code base.  (The quoted form
"pkg//x.h" works.)
"""
import json
import logging
import os
import re
import subprocess
import tempfile
import warnings

warnings.simplefilter("ignore")
from codebasin import CodeBase, config, finder  # noqa: E402

logging.getLogger("codebasin").setLevel(logging.CRITICAL)


def analyse(base, spelling):
    root = os.path.join(base, "src")
    os.makedirs(os.path.join(root, "pkg"))
    with open(os.path.join(root, "pkg", "x.h"), "w") as f:
        f.write("#define HAVE_X 1\nint x;\n")
    with open(os.path.join(root, "main.c"), "w") as f:
        f.write(f"#include {spelling}\n#ifdef HAVE_X\nint with_x;\n#else\nint without_x;\n#endif\n")
    args = ["gcc", "-c", "-I.", "main.c"]
    p = subprocess.run(["gcc", "-E", "-P", "-Wall", "-Wextra", "-I.", "main.c"], cwd=root,
                       capture_output=True, text=True)
    assert p.returncode == 0 and not p.stderr, p.stderr      # valid for the reference
    assert set(re.findall(r"int (\w+);", p.stdout)) == {"x", "with_x"}
    db = os.path.join(base, "cc.json")
    with open(db, "w") as f:
        json.dump([{"directory": root, "file": "main.c", "arguments": args}], f)
    codebase = CodeBase(root)
    state = finder.find(root, codebase, {"p": config.load_database(db, root)})
    return {tuple(sorted(k)): v for k, v in state.get_setmap(codebase).items()}


with tempfile.TemporaryDirectory() as t:
    canon = analyse(os.path.join(t, "c"), "<pkg/x.h>")
    print("canonical <pkg/x.h> :", canon)
    quoted = analyse(os.path.join(t, "q"), '"pkg//x.h"')
    print('quoted "pkg//x.h"   :', quoted)
    assert quoted == canon
    try:
        alias = analyse(os.path.join(t, "a"), "<pkg//x.h>")
    except Exception as e:  # noqa: BLE001
        raise AssertionError(f"<pkg//x.h> aborted the analysis: {type(e).__name__}: {e}")
    print("alias <pkg//x.h>    :", alias)
    assert alias == canon
print("OK")
