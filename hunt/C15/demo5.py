#!/usr/bin/env python
"""C15 demo 5: compiling a source-named symlink whose target has no source
extension aborts the whole analysis.

`gen.c -> gen.c.in` is compiled by gcc as C (the name given on the command line
counts).  The target is not a recognised source file, so by the property the
link "is not part of the code base" and must simply add nothing.  With the
alias replaced by the canonical path (command names gen.c.in) the command is
skipped with a warning and the analysis completes.  With the link,
ParserState.insert_file() resolves the link first and then derives the
language from the *target's* extension: RuntimeError, nothing is reported for
any file.
"""
import json
import logging
import os
import subprocess
import tempfile
import warnings

warnings.simplefilter("ignore")
from codebasin import CodeBase, config, finder  # noqa: E402

logging.getLogger("codebasin").setLevel(logging.CRITICAL)


def analyse(base, generated_name, link):
    root = os.path.join(base, "src")
    os.makedirs(root)
    with open(os.path.join(root, "main.c"), "w") as f:
        f.write("#ifdef A\nint a;\n#else\nint b;\n#endif\n")
    with open(os.path.join(root, "gen.c.in"), "w") as f:
        f.write("int generated;\n")
    if link:
        os.symlink("gen.c.in", os.path.join(root, "gen.c"))
        p = subprocess.run(["gcc", "-E", "-P", "gen.c"], cwd=root, capture_output=True, text=True)
        assert p.returncode == 0 and not p.stderr and "int generated;" in p.stdout
    db = os.path.join(base, "cc.json")
    with open(db, "w") as f:
        json.dump([
            {"directory": root, "file": "main.c", "arguments": ["gcc", "-DA", "-c", "main.c"]},
            {"directory": root, "file": generated_name,
             "arguments": ["gcc", "-c", generated_name]},
        ], f)
    codebase = CodeBase(root)
    state = finder.find(root, codebase, {"p": config.load_database(db, root)})
    return {tuple(sorted(k)): v for k, v in state.get_setmap(codebase).items()}


with tempfile.TemporaryDirectory() as t:
    canon = analyse(os.path.join(t, "c"), "gen.c.in", link=False)
    print("canonical:", canon)
    try:
        alias = analyse(os.path.join(t, "a"), "gen.c", link=True)
    except Exception as e:  # noqa: BLE001
        raise AssertionError(f"the link aborted the analysis: {type(e).__name__}: {e}")
    print("alias    :", alias)
    assert alias == canon
print("OK")
