#!/usr/bin/env python
"""C11 demo 2: an empty separate value (`-I ""`) aborts the analysis or swallows
the following argument."""
import logging, os, shutil, subprocess, sys, tempfile, warnings

warnings.simplefilter("ignore")
logging.disable(logging.CRITICAL)
from codebasin import config  # noqa: E402

tmp = tempfile.mkdtemp()
try:
    with open(os.path.join(tmp, "x.c"), "w") as f:
        f.write("int x;\n")
    # Reference: gcc accepts an empty -I value silently (the directory "" does
    # not exist and is skipped); A is defined.
    if shutil.which("gcc"):
        r = subprocess.run(
            ["gcc", "-I", "", "-DA", "-E", "-dM", "x.c"],
            cwd=tmp, capture_output=True, text=True,
        )
        assert r.returncode == 0 and r.stderr == "", r.stderr
        assert "#define A 1" in r.stdout
finally:
    shutil.rmtree(tmp)

problems = []

# (a) empty value followed by another option
try:
    cfg = config.ArgumentParser("gcc").parse_args(["-I", "", "-DA", "-c", "x.c"])
    assert len(cfg) == 1
    if cfg[0].defines != ["A"] or cfg[0].include_paths not in ([], [""]):
        problems.append(f"(a) wrong configuration {cfg[0]}")
except BaseException as e:
    problems.append(f"(a) analysis aborted: {type(e).__name__}: {e}")

# (b) empty value followed by a plain argument: the argument must not become
#     the value of -I.
try:
    cfg = config.ArgumentParser("gcc").parse_args(["-DA", "-I", "", "x.c"])
    if cfg[0].defines != ["A"] or cfg[0].include_paths not in ([], [""]):
        problems.append(f"(b) wrong configuration {cfg[0]}")
except BaseException as e:
    problems.append(f"(b) analysis aborted: {type(e).__name__}: {e}")

assert not problems, "\n".join(problems)
print("ok")
