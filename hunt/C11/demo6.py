#!/usr/bin/env python
"""C11 demo 6: -isystem/-include with an attached value that starts with a dash
are dropped, although the separate spelling of the same value is extracted."""
import logging, os, shutil, subprocess, tempfile, warnings

warnings.simplefilter("ignore")
logging.disable(logging.CRITICAL)
from codebasin import config  # noqa: E402

# Reference: gcc reads -isystem-dash as directory "-dash" and -include-pre.h as
# file "-pre.h", exactly like the separate spelling.
tmp = tempfile.mkdtemp()
try:
    os.mkdir(os.path.join(tmp, "-dash"))
    with open(os.path.join(tmp, "-dash", "h.h"), "w") as f:
        f.write("int from_dash;\n")
    with open(os.path.join(tmp, "-pre.h"), "w") as f:
        f.write("int from_pre;\n")
    with open(os.path.join(tmp, "y.c"), "w") as f:
        f.write("#include <h.h>\n")
    if shutil.which("gcc"):
        for opts in (["-isystem-dash", "-include-pre.h"], ["-isystem", "-dash", "-include", "-pre.h"]):
            r = subprocess.run(["gcc", "-E"] + opts + ["y.c"], cwd=tmp, capture_output=True, text=True)
            assert r.returncode == 0 and r.stderr == "", r.stderr
            assert "from_dash" in r.stdout and "from_pre" in r.stdout
finally:
    shutil.rmtree(tmp)

(sep,) = config.ArgumentParser("gcc").parse_args(
    ["-DA", "-isystem", "-dash", "-include", "-pre.h", "-c", "y.c"],
)
(att,) = config.ArgumentParser("gcc").parse_args(
    ["-DA", "-isystem-dash", "-include-pre.h", "-c", "y.c"],
)
assert (sep.include_paths, sep.include_files) == (["-dash"], ["-pre.h"]), sep
assert (att.include_paths, att.include_files) == (["-dash"], ["-pre.h"]), (
    f"attached spelling lost: include_paths={att.include_paths} include_files={att.include_files}"
)
print("ok")
