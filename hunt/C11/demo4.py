#!/usr/bin/env python
"""C11 demo 4: the `command` form is not split the way a POSIX shell splits it
(backslash inside double quotes before $, ` or newline), so it is not equivalent
to the `arguments` form."""
import json, logging, os, shutil, subprocess, tempfile, warnings

warnings.simplefilter("ignore")
logging.disable(logging.CRITICAL)
from codebasin import config  # noqa: E402

argv = ["gcc", "-DPRICE=$5 off", "-DCMD=`x`", "-Iinc", "-c", "x.c"]
command = 'gcc "-DPRICE=\\$5 off" "-DCMD=\\`x\\`" -Iinc -c x.c'

# Reference: a POSIX shell turns `command` into exactly `argv`.
out = subprocess.run(
    ["sh", "-c", 'for a in ' + command + '; do printf "%s\\0" "$a"; done'],
    capture_output=True, text=True, check=True,
).stdout.split("\0")[:-1]
assert out == argv, out

tmp = tempfile.mkdtemp()
try:
    with open(os.path.join(tmp, "x.c"), "w") as f:
        f.write("int x = PRICE;\n")
    # gcc accepts these definitions without diagnostics
    r = subprocess.run(argv[:-2] + ["-E", "-dM", "x.c"], cwd=tmp, capture_output=True, text=True)
    assert r.returncode == 0 and r.stderr == "", r.stderr
    assert "#define PRICE $5 off" in r.stdout

    res = []
    for entry in ({"arguments": argv}, {"command": command}):
        entry.update({"directory": tmp, "file": "x.c"})
        db = os.path.join(tmp, "compile_commands.json")
        with open(db, "w") as f:
            json.dump([entry], f)
        res.append(config.load_database(db, tmp))
    assert res[0][0]["defines"] == ["PRICE=$5 off", "CMD=`x`"], res[0][0]["defines"]
    assert res[0] == res[1], (
        "arguments form and command form differ:\n"
        f"  arguments: {res[0][0]['defines']}\n  command:   {res[1][0]['defines']}"
    )
finally:
    shutil.rmtree(tmp)
print("ok")
