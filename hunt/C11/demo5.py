#!/usr/bin/env python
"""C11 demo 5: a value that starts with '=' loses the '=' (-I in both spellings,
-isystem/-include in the attached spelling)."""
import logging, os, shutil, subprocess, tempfile, warnings

warnings.simplefilter("ignore")
logging.disable(logging.CRITICAL)
from codebasin import config  # noqa: E402

# Reference: without a sysroot gcc uses the value literally, '=' included.
tmp = tempfile.mkdtemp()
try:
    for d, text in (("=inc", "int from_eq;"), ("inc", "int from_plain;")):
        os.mkdir(os.path.join(tmp, d))
        with open(os.path.join(tmp, d, "h.h"), "w") as f:
            f.write(text + "\n")
    with open(os.path.join(tmp, "=f.h"), "w") as f:
        f.write("int inc_eq;\n")
    with open(os.path.join(tmp, "f.h"), "w") as f:
        f.write("int inc_plain;\n")
    with open(os.path.join(tmp, "y.c"), "w") as f:
        f.write("#include <h.h>\n")
    with open(os.path.join(tmp, "z.c"), "w") as f:
        f.write("int z;\n")
    if shutil.which("gcc") and subprocess.run(
        ["gcc", "-print-sysroot"], capture_output=True, text=True
    ).stdout.strip() == "":
        for opts in (["-I=inc"], ["-I", "=inc"], ["-isystem=inc"], ["-isystem", "=inc"]):
            r = subprocess.run(["gcc", "-E"] + opts + ["y.c"], cwd=tmp, capture_output=True, text=True)
            assert r.returncode == 0 and r.stderr == "" and "from_eq" in r.stdout, (opts, r.stderr)
        for opts in (["-include=f.h"], ["-include", "=f.h"]):
            r = subprocess.run(["gcc", "-E"] + opts + ["z.c"], cwd=tmp, capture_output=True, text=True)
            assert r.returncode == 0 and r.stderr == "" and "inc_eq" in r.stdout, (opts, r.stderr)
finally:
    shutil.rmtree(tmp)


def parse(argv):
    (c,) = config.ArgumentParser("gcc").parse_args(argv + ["-c", "y.c"])
    return c.include_paths, c.include_files


problems = []
for argv, exp in [
    (["-I=inc"], (["=inc"], [])),
    (["-I", "=inc"], (["=inc"], [])),
    (["-isystem=inc"], (["=inc"], [])),
    (["-isystem", "=inc"], (["=inc"], [])),
    (["-include=f.h"], ([], ["=f.h"])),
    (["-include", "=f.h"], ([], ["=f.h"])),
]:
    got = parse(argv)
    if got != exp:
        problems.append(f"{argv}: got {got}, expected {exp}")
assert not problems, "\n".join(problems)
print("ok")
