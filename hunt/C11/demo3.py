#!/usr/bin/env python
"""C11 demo 3: an icx/icpx command line without any SYCL option still yields a
SYCL device configuration with four macros nobody passed."""
import logging, warnings

warnings.simplefilter("ignore")
logging.disable(logging.CRITICAL)
from codebasin import config  # noqa: E402

for compiler in ["icx", "icpx"]:
    cfgs = config.ArgumentParser(compiler).parse_args(
        ["-O2", "-DA", "-Iinc", "-c", "x.cpp", "-o", "x.o"],
    )
    for c in cfgs:
        assert c.defines == ["A"], (
            f"{compiler}: configuration for pass '{c.pass_name}' contains macro "
            f"definitions that are not on the command line: {c.defines}"
        )
        assert c.include_paths == ["inc"]
print("ok")
