#!/usr/bin/env python
"""C11 demo 1: `-fopenmp=<runtime>` (a real clang/icx option) aborts the analysis."""
import json, logging, os, shutil, subprocess, sys, tempfile, warnings

warnings.simplefilter("ignore")
logging.disable(logging.CRITICAL)
from codebasin import config  # noqa: E402

tmp = tempfile.mkdtemp()
try:
    os.mkdir(os.path.join(tmp, "inc"))
    with open(os.path.join(tmp, "x.c"), "w") as f:
        f.write("int x;\n")
    argv = ["clang", "-DA", "-fopenmp=libomp", "-DB=1", "-Iinc", "-c", "x.c"]

    # Reference: clang accepts the command line without any diagnostic.
    if shutil.which("clang"):
        r = subprocess.run(
            argv[:-2] + ["-E", "-dM", "x.c"], cwd=tmp, capture_output=True, text=True
        )
        assert r.returncode == 0 and r.stderr == "", r.stderr
        assert "#define A 1" in r.stdout and "#define B 1" in r.stdout

    db = os.path.join(tmp, "compile_commands.json")
    with open(db, "w") as f:
        json.dump([{"directory": tmp, "file": "x.c", "arguments": argv}], f)

    try:
        entries = config.load_database(db, tmp)
    except BaseException as e:  # argparse.ArgumentError / SystemExit
        raise AssertionError(
            f"analysis aborted on an option CBI does not model: {type(e).__name__}: {e}"
        )
    default = [e for e in entries if e["pass_name"] == "default"]
    assert len(default) == 1
    defines = [d for d in default[0]["defines"] if d != "_OPENMP"]
    assert defines == ["A", "B=1"], defines
    assert default[0]["include_paths"] == [os.path.join(tmp, "inc")]
finally:
    shutil.rmtree(tmp)
print("ok")
