#!/usr/bin/env python
"""C12 demo 5: a compiler table without keys (`[compiler.mycc]`, the very
shape the built-in files start with) matches both branches of the schema's
oneOf, so the *whole* user configuration is rejected and every definition in
it (other compilers, aliases, implicit options) is ignored."""
import logging
import os
import tempfile

from codebasin import config
from codebasin.config import ArgumentParser

logging.disable(logging.CRITICAL)

CONFIG = """
[compiler.mycc]

[compiler."my++"]
alias_of = "mycc"

[compiler."c++"]
options = ["-D__GNUC__=13"]
"""
tmp = tempfile.mkdtemp()
os.chdir(tmp)
os.mkdir(".cbi")
with open(".cbi/config", "w") as f:
    f.write(CONFIG)
config._load_compilers()

# The implicit option of c++ (example from the documentation) must apply.
passes = ArgumentParser("/usr/bin/c++").parse_args(["-c", "a.cpp"])
assert [p.pass_name for p in passes] == ["default"]
assert passes[0].defines == ["__GNUC__=13"], passes[0].defines

# mycc and its alias must be recognised.
assert "mycc" in config._compilers and "my++" in config._compilers
print("OK")
