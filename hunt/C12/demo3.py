#!/usr/bin/env python
"""C12 demo 3: the schema allows `default = "<pass>"` (a string) for a parser
rule, but a string default is iterated character by character (store_split)
or crashes with AttributeError (extend_match)."""
import logging
import os
import tempfile

from codebasin import config
from codebasin.config import ArgumentParser

logging.disable(logging.CRITICAL)

TEMPLATE = """
[[compiler.hipcc.parser]]
flags = ["--offload-arch"]
action = "{action}"
{extra}
dest = "passes"
default = "gfx906"

[[compiler.hipcc.passes]]
name = "gfx906"
defines = ["__gfx906__"]

[[compiler.hipcc.passes]]
name = "gfx90a"
defines = ["__gfx90a__"]
"""


def parse(argv):
    try:
        passes = ArgumentParser("/opt/rocm/bin/hipcc").parse_args(argv)
    except BaseException as e:
        raise AssertionError(
            f"hipcc {' '.join(argv)}: crashed: {type(e).__name__}: {e}",
        )
    return {p.pass_name: sorted(p.defines) for p in passes}


for action, extra in [
    ("store_split", 'sep = ","'),
    ("extend_match", 'pattern = "gfx[0-9a-f]+"'),
    ("extend_match", 'pattern = "gfx[0-9a-f]+"\noverride = true'),
]:
    tmp = tempfile.mkdtemp()
    os.chdir(tmp)
    os.mkdir(".cbi")
    with open(".cbi/config", "w") as f:
        f.write(TEMPLATE.format(action=action, extra=extra))
    # The file is valid for the package's own schema.
    config._load_compilers()
    assert "hipcc" in config._compilers, "configuration file was rejected"

    # Flag absent: default pass + the declared default pass.
    got = parse(["-c", "a.cpp"])
    assert got == {"default": [], "gfx906": ["__gfx906__"]}, (action, got)

    # Flag present.
    got = parse(["--offload-arch=gfx90a", "-c", "a.cpp"])
    if "override" in extra or action == "store_split":
        exp = {"default": [], "gfx90a": ["__gfx90a__"]}
    else:
        exp = {
            "default": [],
            "gfx906": ["__gfx906__"],
            "gfx90a": ["__gfx90a__"],
        }
    assert got == exp, (action, extra, got)
print("OK")
