#!/usr/bin/env python
"""C12 demo 2: `clang -fopenmp=libomp` (a valid spelling of the documented
-fopenmp flag, accepted by clang without diagnostics and defining _OPENMP)
crashes the emulation with argparse.ArgumentError."""
import logging
import os
import subprocess
import tempfile

from codebasin import config
from codebasin.config import ArgumentParser

logging.disable(logging.CRITICAL)
os.chdir(tempfile.mkdtemp())
config._load_compilers()

for cc, flag in [("clang", "-fopenmp=libomp"), ("clang++", "-fopenmp=libiomp5")]:
    lang = "c++" if cc.endswith("++") else "c"
    # Reference: the real compiler accepts the flag silently, defines _OPENMP.
    ref = subprocess.run(
        [cc, flag, "-E", "-dM", "-x", lang, "/dev/null"],
        capture_output=True,
        text=True,
    )
    assert ref.returncode == 0 and ref.stderr == "", ref.stderr
    assert any(
        line.split()[1] == "_OPENMP" for line in ref.stdout.splitlines()
    ), "reference does not define _OPENMP"

    try:
        passes = ArgumentParser("/usr/bin/" + cc).parse_args(
            [flag, "-c", "a.c"],
        )
    except BaseException as e:
        raise AssertionError(
            f"{cc} {flag}: emulation crashed: {type(e).__name__}: {e}",
        )
    assert [p.pass_name for p in passes] == ["default"], passes
    names = [d.split("=")[0] for d in passes[0].defines]
    assert "_OPENMP" in names, passes[0].defines
print("OK")
