#!/usr/bin/env python
"""C12 demo 6: the modes enabled on a command line are applied in the
iteration order of a Python set of strings, i.e. in an order that depends on
PYTHONHASHSEED.  When two enabled modes define the same macro (or provide the
same header through their include paths) the configuration, and with it the
line attribution, differs from one run of the tool to the next."""
import json
import os
import subprocess
import sys
import tempfile

CHILD = r"""
import json, logging, os, sys
from codebasin import CodeBase, config, finder
from codebasin.preprocessor import CodeNode
logging.disable(logging.CRITICAL)
root = sys.argv[1]
os.chdir(root)
db = config.load_database(os.path.join(root, "compile_commands.json"), root)
defines = {e["pass_name"]: e["defines"] for e in db}
state = finder.find(root, CodeBase(root), {"p": db})
path = os.path.join(root, "a.cpp")
tree, assoc = state.get_tree(path), state.get_map(path)
used = sorted(
    line
    for n in tree.walk()
    if isinstance(n, CodeNode) and assoc[n]
    for line in n.lines
)
print(json.dumps({"defines": defines["default"], "used": used}))
"""

# The user configuration extends the built-in clang definition with a mode for
# -fopenmp-version=51 that refines the value of _OPENMP, which the built-in
# "openmp" mode (enabled by -fopenmp) defines without a value.
CONFIG = """
[[compiler.clang.parser]]
flags = ["-fopenmp-version=51"]
action = "append_const"
dest = "modes"
const = "openmp51"

[[compiler.clang.modes]]
name = "openmp51"
defines = ["_OPENMP=202011"]
"""
SOURCE = """int common;
#if _OPENMP >= 202011
int openmp51_only;
#else
int older;
#endif
"""
ARGS = ["-fopenmp", "-fopenmp-version=51"]

root = os.path.realpath(tempfile.mkdtemp())
os.mkdir(os.path.join(root, ".cbi"))
with open(os.path.join(root, ".cbi", "config"), "w") as f:
    f.write(CONFIG)
with open(os.path.join(root, "a.cpp"), "w") as f:
    f.write(SOURCE)
with open(os.path.join(root, "compile_commands.json"), "w") as f:
    json.dump(
        [
            {
                "directory": root,
                "file": "a.cpp",
                "arguments": ["/usr/bin/clang++", *ARGS, "-c", "a.cpp"],
            },
        ],
        f,
    )

# Reference (informative): the real compiler accepts the command silently and
# compiles line 3, not line 5.
ref = subprocess.run(
    ["clang++", *ARGS, "-E", "-P", os.path.join(root, "a.cpp")],
    capture_output=True,
    text=True,
)
assert ref.returncode == 0 and ref.stderr == "", ref.stderr
assert "openmp51_only" in ref.stdout and "older" not in ref.stdout

results = {}
for seed in range(12):
    env = dict(os.environ, PYTHONHASHSEED=str(seed))
    out = subprocess.run(
        [sys.executable, "-c", CHILD, root],
        env=env,
        capture_output=True,
        text=True,
    )
    assert out.returncode == 0, out.stderr
    results[seed] = out.stdout.strip().splitlines()[-1]
    print(seed, results[seed])

distinct = set(results.values())
assert len(distinct) == 1, (
    f"{len(distinct)} different outcomes for the same input, "
    "depending only on PYTHONHASHSEED"
)
print("OK")
