#!/usr/bin/env python
"""C12 demo 1: a user configuration that re-declares a flag of a built-in
compiler makes *every* command of that compiler crash (argparse
"conflicting option string"), instead of extending the built-in definition."""
import logging
import os
import tempfile

from codebasin import config
from codebasin.config import ArgumentParser

logging.disable(logging.CRITICAL)

CONFIG = """
[[compiler.gcc.parser]]
flags = ["-fopenmp"]
action = "append_const"
dest = "modes"
const = "user-openmp"

[[compiler.gcc.modes]]
name = "user-openmp"
defines = ["USER_OPENMP=201511"]
"""

tmp = tempfile.mkdtemp()
os.chdir(tmp)
os.mkdir(".cbi")
with open(".cbi/config", "w") as f:
    f.write(CONFIG)
config._load_compilers()


def parse(cc, argv):
    try:
        return ArgumentParser(cc).parse_args(argv)
    except BaseException as e:  # argparse may raise SystemExit as well
        raise AssertionError(
            f"{cc} {' '.join(argv)}: emulation crashed: {type(e).__name__}: {e}",
        )


# A command that does not even use the flag: one default configuration.
passes = parse("/usr/bin/gcc", ["-DA", "-c", "a.c"])
assert [p.pass_name for p in passes] == ["default"], passes
assert passes[0].defines == ["A"], passes[0].defines

# A command that uses the flag: the user's declaration must contribute.
passes = parse("/usr/bin/gcc", ["-fopenmp", "-c", "a.c"])
assert [p.pass_name for p in passes] == ["default"], passes
assert "USER_OPENMP=201511" in passes[0].defines, passes[0].defines

# The alias g++ resolves to the same (extended) definition.
passes = parse("/usr/bin/g++", ["-fopenmp", "-c", "a.c"])
assert "USER_OPENMP=201511" in passes[0].defines, passes[0].defines
print("OK")
