#!/usr/bin/env python
"""C12 demo 4: a store_split rule with two spellings of its flag keeps the
default pass when the second spelling is used: the default is stored under
flags[0], the selected passes under the spelling found on the command line."""
import logging
import os
import tempfile

from codebasin import config
from codebasin.config import ArgumentParser

logging.disable(logging.CRITICAL)

CONFIG = """
[[compiler.xcc.parser]]
flags = ["-t", "--targets"]
action = "store_split"
sep = ","
format = "dev-$value"
dest = "passes"
default = ["dev-a"]

[[compiler.xcc.passes]]
name = "dev-a"
defines = ["DEV_A"]

[[compiler.xcc.passes]]
name = "dev-b"
defines = ["DEV_B"]
"""
tmp = tempfile.mkdtemp()
os.chdir(tmp)
os.mkdir(".cbi")
with open(".cbi/config", "w") as f:
    f.write(CONFIG)
config._load_compilers()


def parse(argv):
    passes = ArgumentParser("/usr/bin/xcc").parse_args(argv)
    return {p.pass_name: sorted(p.defines) for p in passes}


assert parse(["a.c"]) == {"default": [], "dev-a": ["DEV_A"]}
first = parse(["-t", "b", "a.c"])
assert first == {"default": [], "dev-b": ["DEV_B"]}, first
# The other spelling of the very same rule must select the very same passes.
for argv in (["--targets", "b", "a.c"], ["--targets=b", "a.c"]):
    second = parse(argv)
    assert second == first, (argv, second)
print("OK")
