"""C07 finding 2: an explicitly empty `platforms` selection is silently replaced
by "all platforms".

coverage(setmap, platforms) is 100 * (lines used by at least one SELECTED
platform) / (all lines).  With no platform selected no line is used by a
selected platform, and the property says the metric is NaN when there are no
platforms.  The tree answers 100.0 (the coverage of ALL platforms).
"""
import math

import codebasin
from codebasin.report import average_coverage, coverage

print("codebasin from", codebasin.__file__)

fs = frozenset
table = {fs({"a"}): 1, fs({"b"}): 1, fs(): 2}

# every non-empty subset agrees with the definition ...
assert coverage(table, {"a"}) == 25.0
assert coverage(table, {"b"}) == 25.0
assert coverage(table, {"a", "b"}) == 50.0
assert coverage(table) == 50.0
assert average_coverage(table, {"a"}) == 25.0

# ... the empty subset does not: it must not report that half of the code is
# used by "at least one of zero platforms".
c = coverage(table, set())
a = average_coverage(table, set())
print("coverage(table, set()) =", c)
print("average_coverage(table, set()) =", a)
assert math.isnan(c), f"coverage with no selected platform is {c!r}, not NaN"
assert math.isnan(a), f"average with no selected platform is {a!r}, not NaN"
