"""C07 finding 6 (low severity): divergence() is not invariant under renaming
platforms, and not even reproducible from run to run for the SAME table: the
pairwise distances are added up in the iteration order of a Python set of
strings, which depends on the names and on PYTHONHASHSEED.

Property: every metric is unchanged by renaming or reordering platforms.
"""
import subprocess
import sys

import codebasin

print("codebasin from", codebasin.__file__)

CHILD = r"""
from codebasin.report import divergence
fs = frozenset
counts = [87, 48, 29, 19, 10, 22, 19]
def table(x, y, z):
    keys = [fs({x, y}), fs({x}), fs({z}), fs({x, y, z}), fs({y}), fs({x, z}),
            fs({y, z})]
    return dict(zip(keys, counts))
print(repr(divergence(table("p0", "p1", "p2"))))
print(repr(divergence(table("Y", "é", "cpu"))))
print(repr(divergence(table("gpu", "cpu", "fpga"))))
"""

seen = set()
for seed in range(12):
    p = subprocess.run(
        [sys.executable, "-c", CHILD],
        env={**__import__("os").environ, "PYTHONHASHSEED": str(seed)},
        capture_output=True,
        text=True,
        check=True,
    )
    values = p.stdout.split()
    print("PYTHONHASHSEED", seed, values)
    seen.update(values)

# exact value: (d01 + d02 + d12) / 3 with
# d01 = 99/205, d02 = 183/224, d12 = 148/186  -> one real number
assert len(seen) == 1, f"divergence of one table took {len(seen)} values: {seen}"
