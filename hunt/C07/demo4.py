"""C07 finding 4 (scope-adjacent): with NO platforms in the table the
clustering report, which tabulates distance()/divergence(), raises instead of
treating the metrics as undefined (NaN), while summary() prints "nan" for the
same table and clustering() itself bows out cleanly for ONE platform.

End-to-end: a code base in which no platform compiles a single line of code
(here: the compiled files hold only comments; an unused file holds the code).
"""
import io
import json
import os
import subprocess
import sys
import tempfile
import warnings

import codebasin
from codebasin import report

print("codebasin from", codebasin.__file__)

fs = frozenset

with tempfile.TemporaryDirectory() as tmp:
    src = os.path.join(tmp, "src")
    os.mkdir(src)
    files = {
        "a": ("a.c", "/* only a comment */\n"),
        "b": ("b.c", "// nothing here\n"),
    }
    with open(os.path.join(src, "unused.c"), "w") as f:
        f.write("int x;\nint y;\n")
    toml = []
    for plat, (name, text) in files.items():
        path = os.path.join(src, name)
        with open(path, "w") as f:
            f.write(text)
        with open(os.path.join(tmp, plat + ".json"), "w") as f:
            json.dump(
                [{"directory": src, "command": f"gcc -c {name}", "file": path}],
                f,
            )
        # the reference compiler accepts the inputs without diagnostics
        r = subprocess.run(
            ["gcc", "-Wall", "-Wextra", "-fsyntax-only", path],
            capture_output=True,
            text=True,
        )
        assert r.returncode == 0 and r.stderr == "", r.stderr
        toml.append(f'[platform.{plat}]\ncommands = "{plat}.json"\n')
    with open(os.path.join(tmp, "analysis.toml"), "w") as f:
        f.write("\n".join(toml))

    # 1. API level, in the temporary directory (a .png may be written)
    cwd = os.getcwd()
    os.chdir(tmp)
    api_error = None
    try:
        for table in ({}, {fs(): 2}):
            with warnings.catch_warnings():
                warnings.simplefilter("ignore")
                report.summary(table, stream=io.StringIO())  # prints nan: fine
                try:
                    report.clustering("x.png", table, stream=io.StringIO())
                except Exception as e:  # noqa: BLE001
                    api_error = f"{type(e).__name__}: {e}"
                    print("clustering(", table, ") raised", api_error)
    finally:
        os.chdir(cwd)

    # 2. command line
    p = subprocess.run(
        [sys.executable, "-m", "codebasin", "analysis.toml"],
        cwd=tmp,
        capture_output=True,
        text=True,
    )
    print(p.stdout[-900:])
    print("exit status", p.returncode)

assert api_error is None, api_error
assert p.returncode == 0, "codebasin exits non-zero on a platform-less table"
