"""C07 finding 3: a platform whose line set is empty (count 0) poisons the
distance matrix and the divergence with NaN although the table has lines and
has two or more platforms.

Property: distances are zero on the diagonal; a metric is NaN exactly when
there are no lines, no platforms, or (divergence) fewer than two platforms.
"""
import math

import codebasin
from codebasin.report import coverage, distance, divergence

print("codebasin from", codebasin.__file__)

fs = frozenset

# Two platforms, five lines, platform a uses none of them.
t2 = {fs({"a"}): 0, fs({"b"}): 5}
assert coverage(t2) == 100.0
assert distance(t2, "a", "b") == 1.0 and distance(t2, "b", "a") == 1.0
assert distance(t2, "b", "b") == 0.0
daa = distance(t2, "a", "a")
print("distance(a, a) =", daa)

# Three platforms, five lines, a and b use none of them.  Line sets:
# A = B = {} and C = 5 lines, so d(a,c) = d(b,c) = 1 and A, B are identical.
t3 = {fs({"a"}): 0, fs({"b"}): 0, fs({"c"}): 5}
div = divergence(t3)
print("divergence =", div)

assert daa == 0.0, f"diagonal entry distance(a, a) is {daa!r}, not 0"
assert not math.isnan(div), "divergence is NaN with 5 lines and 3 platforms"
assert 0.0 <= div <= 1.0
