"""C07 finding 5 (scope-adjacent): summary(), the routine that reports
divergence / coverage / average coverage, divides by the total line count
before it reaches the metrics.  A table that has platforms but no lines must
yield NaN metrics ("NaN exactly when undefined: no lines ..."); instead the
report dies with ZeroDivisionError.  (The same table with the zero rows left
out, {}, prints "nan" three times.)
"""
import io
import math

import codebasin
from codebasin import report

print("codebasin from", codebasin.__file__)

fs = frozenset
table = {fs({"a"}): 0, fs({"a", "b"}): 0}

# the metrics themselves are NaN, as demanded
assert math.isnan(report.coverage(table))
assert math.isnan(report.average_coverage(table))
assert math.isnan(report.divergence(table))

out = io.StringIO()
try:
    report.summary(table, stream=out)
except ZeroDivisionError as e:
    raise AssertionError(f"summary() raised ZeroDivisionError: {e}") from e
text = out.getvalue()
print(text)
assert "Code Divergence: nan" in text
assert "Coverage (%): nan" in text
assert "Avg. Coverage (%): nan" in text
