"""C07 finding 1: distance() leaves its documented range [0, 1] and depends
on the insertion order of the table.

Platforms a and b share no line at all, so the Jaccard distance of their line
sets is exactly (6 + 23 + 1) / (6 + 23 + 1) = 1.
"""
import math
from fractions import Fraction

import codebasin
from codebasin.report import distance

print("codebasin from", codebasin.__file__)

fs = frozenset
table = {fs({"a"}): 6, fs({"b"}): 23, fs({"a", "c"}): 1}

# exact reference
union = sum(c for s, c in table.items() if "a" in s or "b" in s)
symdiff = sum(c for s, c in table.items() if ("a" in s) != ("b" in s))
expected = Fraction(symdiff, union)
assert expected == 1

d = distance(table, "a", "b")
print("distance(a, b) =", repr(d), "expected", expected)

# same table, rows listed in another order
reordered = {fs({"a", "c"}): 1, fs({"b"}): 23, fs({"a"}): 6}
assert reordered == table
d2 = distance(reordered, "a", "b")
print("distance(a, b) on the reordered table =", repr(d2))

assert not math.isnan(d)
assert 0.0 <= d <= 1.0, f"distance {d!r} is outside [0, 1]"
assert d == float(expected), f"distance {d!r} != {expected}"
assert d == d2, f"distance depends on the row order: {d!r} vs {d2!r}"
