#!/usr/bin/env python3
"""
C08 demo 2: a file named by -include is parsed without a language, and the
outcome is hidden or exposed by the parse cache depending on history.

features.def (no recognised source extension, as is usual for X-macro /
feature lists) is #included by a.c and force-included (-include) for b.c.
gcc accepts both commands.  The analysis of the b.c command only succeeds if
some earlier command of the same run happened to #include features.def (the
cached tree is then reused); alone, or placed first in the compilation
database, or selected on its own with -p, it aborts the whole run with
"Could not determine language of .../features.def".

Exits 0 if the tree behaves as C08 demands, non-zero otherwise.
"""
import json
import logging
import os
import shutil
import subprocess
import sys
import tempfile
import warnings

warnings.simplefilter("ignore")
from codebasin import CodeBase, config, finder  # noqa: E402
from codebasin.preprocessor import CodeNode  # noqa: E402

logging.disable(logging.CRITICAL)

FEATURES_DEF = """\
#ifndef FEATURES_DEF
#define FEATURES_DEF
#define HAVE_FAST_PATH 1
#endif
"""

A_C = """\
#include "features.def"
#if HAVE_FAST_PATH
int a_fast(void) { return 1; }
#else
int a_slow(void) { return 0; }
#endif
"""

B_C = """\
#if HAVE_FAST_PATH
int b_fast(void) { return 1; }
#else
int b_slow(void) { return 0; }
#endif
"""


def load(root, name, commands):
    path = os.path.join(os.path.dirname(root), f"{name}.json")
    with open(path, "w") as f:
        json.dump(commands, f)
    return config.load_database(path, root)


def used(root, configuration):
    """platform -> set of (file, line), or the exception text."""
    codebase = CodeBase(root)
    try:
        state = finder.find(root, codebase, configuration)
    except Exception as e:  # noqa: BLE001
        return {p: f"{type(e).__name__}: {e}" for p in configuration}
    result = {p: set() for p in configuration}
    for fn in codebase:
        tree, assoc = state.get_tree(fn), state.get_map(fn)
        for node in tree.walk():
            if isinstance(node, CodeNode):
                for p in assoc.get(node, ()):
                    for line in node.lines:
                        result[p].add((os.path.relpath(fn, root), line))
    return result


def main():
    base = tempfile.mkdtemp(prefix="c08demo2_")
    try:
        root = os.path.join(base, "src")
        os.makedirs(root)
        for name, text in (
            ("features.def", FEATURES_DEF),
            ("a.c", A_C),
            ("b.c", B_C),
        ):
            with open(os.path.join(root, name), "w") as f:
                f.write(text)

        cmd_a = ["gcc", "-I.", "-c", "a.c"]
        cmd_b = ["gcc", "-include", "features.def", "-c", "b.c"]

        # The reference accepts both commands without diagnostics.
        if shutil.which("gcc"):
            for cmd, want in ((cmd_a, "a_fast"), (cmd_b, "b_fast")):
                r = subprocess.run(
                    cmd[:-2] + ["-Wall", "-Wextra", "-E", cmd[-1]],
                    cwd=root,
                    capture_output=True,
                    text=True,
                )
                assert r.returncode == 0 and r.stderr == "", r.stderr
                assert want in r.stdout

        a = {"directory": root, "file": "a.c", "arguments": cmd_a}
        b = {"directory": root, "file": "b.c", "arguments": cmd_b}
        e_a, e_b = load(root, "a", [a]), load(root, "b", [b])

        alone_a = used(root, {"p": e_a})["p"]
        alone_b = used(root, {"p": e_b})["p"]
        order1 = used(root, {"p": load(root, "ab", [a, b])})["p"]
        order2 = used(root, {"p": load(root, "ba", [b, a])})["p"]
        both = used(root, {"first": e_a, "second": e_b})
        only_second = used(root, {"second": e_b})

        def show(x):
            return sorted(x) if isinstance(x, set) else x

        print("a.c alone        :", show(alone_a))
        print("b.c alone        :", show(alone_b))
        print("order [a.c, b.c] :", show(order1))
        print("order [b.c, a.c] :", show(order2))
        print("'second' with both platforms:", show(both["second"]))
        print("'second' selected with -p   :", show(only_second["second"]))

        ok = True
        if order1 != order2:
            print("VIOLATION: result depends on the order of the commands")
            ok = False
        if not (
            isinstance(alone_a, set)
            and isinstance(alone_b, set)
            and order1 == alone_a | alone_b
        ):
            print("VIOLATION: platform is not the union of its commands analysed alone")
            ok = False
        if both["second"] != only_second["second"]:
            print("VIOLATION: result of 'second' depends on whether 'first' is analysed")
            ok = False
        expected_b = {("b.c", 1), ("b.c", 2), ("b.c", 3), ("b.c", 5)}
        if alone_b != expected_b:
            print("VIOLATION: b.c alone should use", sorted(expected_b))
            ok = False
        assert ok
    finally:
        shutil.rmtree(base, ignore_errors=True)


if __name__ == "__main__":
    main()
    sys.exit(0)
