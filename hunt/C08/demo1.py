#!/usr/bin/env python3
"""
C08 demo 1: the parse of an included file is cached by path only, although
it depends on the language of whichever translation unit included it first.

A header that is not part of the code base (here: a generated config.h in a
build directory next to the source root; an excluded directory or a header
with an unrecognised extension behaves the same) is shared by a C file and a
free-form Fortran file.  Which lines main.c "uses" then depends on whether a
Fortran command was processed earlier in the same run, i.e. on the order of
the commands in the compilation database and on the -p selection.

Exits 0 if the tree behaves as C08 demands, non-zero otherwise.
"""
import json
import logging
import os
import shutil
import subprocess
import sys
import tempfile
import warnings

warnings.simplefilter("ignore")
from codebasin import CodeBase, config, finder  # noqa: E402
from codebasin.preprocessor import CodeNode  # noqa: E402

logging.disable(logging.CRITICAL)

CONFIG_H = """\
/* Generated configuration, shared by the C and the Fortran sources.
   Uncomment to enable the experimental solver:
#define USE_EXPERIMENTAL 1
*/
#define NX 100
"""

MAIN_C = """\
#include "config.h"
#ifdef USE_EXPERIMENTAL
int experimental(void)
{
  return NX;
}
#else
int stable(void) { return NX; }
#endif
"""

SOLVER_F90 = """\
#include "config.h"
subroutine solve()
#ifdef USE_EXPERIMENTAL
  print *, "experimental"
#else
  print *, "stable"
#endif
end subroutine
"""


def load(root, name, commands):
    path = os.path.join(os.path.dirname(root), f"{name}.json")
    with open(path, "w") as f:
        json.dump(commands, f)
    return config.load_database(path, root)


def used(root, configuration):
    """platform -> set of (file relative to root, physical line)."""
    codebase = CodeBase(root)
    state = finder.find(root, codebase, configuration)
    result = {p: set() for p in configuration}
    for fn in codebase:
        tree, assoc = state.get_tree(fn), state.get_map(fn)
        for node in tree.walk():
            if isinstance(node, CodeNode):
                for p in assoc.get(node, ()):
                    for line in node.lines:
                        result[p].add((os.path.relpath(fn, root), line))
    return result


def main():
    base = tempfile.mkdtemp(prefix="c08demo1_")
    try:
        root = os.path.join(base, "src")
        os.makedirs(root)
        os.makedirs(os.path.join(base, "build"))
        with open(os.path.join(base, "build", "config.h"), "w") as f:
            f.write(CONFIG_H)
        with open(os.path.join(root, "main.c"), "w") as f:
            f.write(MAIN_C)
        with open(os.path.join(root, "solver.F90"), "w") as f:
            f.write(SOLVER_F90)

        # The references accept the input without diagnostics and both take
        # the "stable" branch.
        for cmd in (
            ["gcc", "-Wall", "-Wextra", "-I../build", "-E", "main.c"],
            ["gfortran", "-cpp", "-Wall", "-I../build", "-E", "solver.F90"],
        ):
            if shutil.which(cmd[0]):
                r = subprocess.run(cmd, cwd=root, capture_output=True, text=True)
                assert r.returncode == 0 and r.stderr == "", r.stderr
                assert "stable" in r.stdout and "experimental" not in r.stdout

        fortran = {
            "directory": root,
            "file": "solver.F90",
            "arguments": ["gfortran", "-cpp", "-I../build", "-c", "solver.F90"],
        }
        c = {
            "directory": root,
            "file": "main.c",
            "arguments": ["gcc", "-I../build", "-c", "main.c"],
        }

        # --- one platform, two commands -------------------------------
        e_fortran = load(root, "f", [fortran])
        e_c = load(root, "c", [c])
        alone = used(root, {"cpu": e_c})["cpu"] | used(root, {"cpu": e_fortran})["cpu"]
        order1 = used(root, {"cpu": load(root, "fc", [fortran, c])})["cpu"]
        order2 = used(root, {"cpu": load(root, "cf", [c, fortran])})["cpu"]
        print("union of single-command analyses:", sorted(alone))
        print("database order [solver.F90, main.c]:", sorted(order1))
        print("database order [main.c, solver.F90]:", sorted(order2))

        # --- two platforms, -p projection -----------------------------
        both = used(root, {"hpc": e_fortran, "host": e_c})
        only_host = used(root, {"host": e_c})
        print("host with both platforms:", sorted(both["host"]))
        print("host selected with -p   :", sorted(only_host["host"]))

        ok = True
        if order1 != order2:
            print("VIOLATION: result depends on the order of the commands")
            ok = False
        if order1 != alone or order2 != alone:
            print("VIOLATION: platform is not the union of its commands analysed alone")
            ok = False
        if both["host"] != only_host["host"]:
            print("VIOLATION: result of 'host' depends on whether 'hpc' is analysed")
            ok = False
        assert ok
    finally:
        shutil.rmtree(base, ignore_errors=True)


if __name__ == "__main__":
    main()
    sys.exit(0)
