"""C17 demo 1: a backslash inside a Fortran character literal is not an escape character."""
import logging, os, shutil, subprocess, sys, tempfile

import codebasin
from codebasin import CodeBase, file_parser, finder, preprocessor

logging.disable()


def gfortran_check(path, define_sets, extra_flags=()):
    """The input must be accepted by the reference without diagnostics."""
    for ds in define_sets:
        flags = ["-D" + d for d in ds]
        r = subprocess.run(["gfortran", "-cpp", "-E", *flags, path],
                           capture_output=True, text=True)
        assert r.returncode == 0 and not r.stderr.strip(), r.stderr
        r = subprocess.run(["gfortran", "-cpp", "-fsyntax-only", "-Wall",
                            *extra_flags, *flags, path],
                           capture_output=True, text=True)
        assert r.returncode == 0 and not r.stderr.strip(), r.stderr


def gfortran_selected(path, defines):
    """Source line numbers whose text survives `gfortran -cpp -E`."""
    r = subprocess.run(["gfortran", "-cpp", "-E",
                        *["-D" + d for d in defines], path],
                       capture_output=True, text=True, check=True)
    sel, cur, fname = set(), None, None
    for ol in r.stdout.split("\n"):
        if ol.startswith("# "):
            parts = ol.split(" ", 2)
            cur, fname = int(parts[1]), parts[2].split('"')[1]
            continue
        if fname == path and ol.strip():
            sel.add(cur)
        if cur is not None:
            cur += 1
    return sel


def tree_classify(path):
    """(code lines, directive lines) as counted by codebasin."""
    tree = file_parser.FileParser(path).parse_file(summarize_only=False)
    code, dirs = set(), set()
    for n in tree.walk():
        if isinstance(n, preprocessor.DirectiveNode):
            dirs |= set(n.lines)
        elif isinstance(n, preprocessor.CodeNode):
            code |= set(n.lines)
    return code, dirs


def tree_selected(path, defines):
    """Code lines codebasin associates with a platform using `defines`."""
    d = os.path.dirname(path)
    conf = {"P": [{"file": path, "defines": list(defines),
                   "include_paths": [], "include_files": []}]}
    st = finder.find(d, CodeBase(d), conf, summarize_only=False)
    tree, amap = st.get_tree(path), st.get_map(path)
    sel = set()
    for n in tree.walk():
        if (isinstance(n, preprocessor.CodeNode)
                and not isinstance(n, preprocessor.DirectiveNode)
                and "P" in amap[n]):
            sel |= set(n.lines)
    return sel


def run(text, exp_code, exp_dirs, define_sets, extra_flags=()):
    print("codebasin from", codebasin.__file__)
    d = tempfile.mkdtemp()
    try:
        path = os.path.join(d, "demo.F90")
        with open(path, "w") as f:
            f.write(text)
        gfortran_check(path, define_sets, extra_flags)
        code, dirs = tree_classify(path)
        print("counted code lines     :", sorted(code))
        print("expected code lines    :", sorted(exp_code))
        print("counted directive lines:", sorted(dirs))
        print("expected directive lines:", sorted(exp_dirs))
        assert code == set(exp_code), "statement/comment classification differs"
        assert dirs == set(exp_dirs), "directive classification differs"
        for ds in define_sets:
            ref = gfortran_selected(path, ds) & set(exp_code)
            got = tree_selected(path, ds)
            print("defines", ds, "gfortran:", sorted(ref), "codebasin:", sorted(got))
            assert got == ref, f"selection differs for {ds}"
    finally:
        shutil.rmtree(d, ignore_errors=True)
    print("OK")

TEXT = r"""program p
  implicit none
  character(len=1) :: sep
  integer :: n
  sep = '\'
  ! don't count this comment
  n = 1
#ifdef A
  ! nor this one
  n = 2
#endif
  if (sep == "\") n = 3
  ! and this isn't code either
end program p
"""
# lines 6, 9, 13 are ordinary comments
run(TEXT, exp_code={1, 2, 3, 4, 5, 7, 10, 12, 14}, exp_dirs={8, 11},
    define_sets=[[], ["A"]])
