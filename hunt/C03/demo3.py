"""C03 demo 3: `a ## #b` - the right operand of ## is the bare `#` instead of the stringified argument."""
import logging
import re
import subprocess
import sys

from codebasin import platform, preprocessor as pp

logging.disable(logging.CRITICAL)

_TOK = re.compile(
    r"""("(?:\\.|[^"\\])*")|('(?:\\.|[^'\\])*')|(\.?[0-9](?:[eEpP][+-]|[A-Za-z0-9_.])*)"""
    r"""|([A-Za-z_][A-Za-z0-9_]*)"""
    r"""|(\.\.\.|<<=|>>=|->|\+\+|--|<<|>>|<=|>=|==|!=|&&|\|\||[-+*/%&|^]=|\#\#|[^\sA-Za-z0-9_])|(\s+)""",
)


def ref_tokens(defs, text, extra=()):
    """Token spellings produced by gcc -E for `text` (no diagnostics allowed)."""
    src = "\n".join(defs) + "\n@@@\n" + text + "\n"
    r = subprocess.run(
        ["gcc", "-E", "-P", "-x", "c", *extra, "-"],
        input=src, capture_output=True, text=True,
    )
    assert r.returncode == 0 and not r.stderr.strip(), "reference rejects input: " + r.stderr
    out = r.stdout.split("@@@", 1)[1]
    return [m.group() for m in _TOK.finditer(out) if not m.group().isspace()]


def ref_if(defs, cond, extra=()):
    src = "\n".join(defs) + f"\n#if {cond}\nYES\n#else\nNO\n#endif\n"
    r = subprocess.run(
        ["gcc", "-E", "-P", "-x", "c", *extra, "-"],
        input=src, capture_output=True, text=True,
    )
    assert r.returncode == 0 and not r.stderr.strip(), "reference rejects input: " + r.stderr
    return "YES" in r.stdout


def cbi_platform(defs, cmdline=()):
    p = platform.Platform("P", "/tmp")
    for d in cmdline:
        m = pp.macro_from_definition_string(d)
        p.define(m.name, m)
    for d in defs:
        node = pp.DirectiveParser(pp.Lexer(d).tokenize()).parse()
        assert isinstance(node, pp.DefineNode), d
        node.evaluate_for_platform(platform=p, filename="x.c")
    return p


def spell(t):
    if isinstance(t, pp.StringConstant):
        return '"' + t.token + '"'
    if isinstance(t, pp.CharacterConstant):
        return "'" + t.token + "'"
    return str(t.token)


def cbi_tokens(defs, text, cmdline=()):
    p = cbi_platform(defs, cmdline)
    return [spell(t) for t in pp.MacroExpander(p).expand(pp.Lexer(text).tokenize())]


def cbi_if(defs, cond, cmdline=()):
    p = cbi_platform(defs, cmdline)
    node = pp.DirectiveParser(pp.Lexer("#if " + cond).tokenize()).parse()
    return bool(node.evaluate_for_platform(platform=p, filename="x.c"))

failures = []
cases = [
    (["#define WIDEN(x) L ## #x"], "WIDEN(abc)"),             # classic wide-string idiom
    (["#define F(p, x) p ## #x"], "F(, a b) F(L, c)"),        # empty left operand / prefix
    (["#define G(...) __VA_ARGS__ ## #__VA_ARGS__"], "G()"),
]
for defs, text in cases:
    want = ref_tokens(defs, text)
    try:
        got = cbi_tokens(defs, text)
    except Exception as e:  # noqa: BLE001
        got = f"{type(e).__name__}: {e}"
    print(defs, text, "\n   gcc:", want, "\n   cbi:", got)
    # gcc spells L"abc" as one token; accept either one token or prefix+string
    norm = lambda ts: "".join(ts)  # noqa: E731
    if isinstance(got, str) or norm(got) != norm(want):
        failures.append(text)
assert not failures, failures
