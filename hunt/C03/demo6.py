"""C03 demo 6: ## overwrites the white-space flag of a token object it shares with the caller."""
import logging
import re
import subprocess
import sys

from codebasin import platform, preprocessor as pp

logging.disable(logging.CRITICAL)

_TOK = re.compile(
    r"""("(?:\\.|[^"\\])*")|('(?:\\.|[^'\\])*')|(\.?[0-9](?:[eEpP][+-]|[A-Za-z0-9_.])*)"""
    r"""|([A-Za-z_][A-Za-z0-9_]*)"""
    r"""|(\.\.\.|<<=|>>=|->|\+\+|--|<<|>>|<=|>=|==|!=|&&|\|\||[-+*/%&|^]=|\#\#|[^\sA-Za-z0-9_])|(\s+)""",
)


def ref_tokens(defs, text, extra=()):
    """Token spellings produced by gcc -E for `text` (no diagnostics allowed)."""
    src = "\n".join(defs) + "\n@@@\n" + text + "\n"
    r = subprocess.run(
        ["gcc", "-E", "-P", "-x", "c", *extra, "-"],
        input=src, capture_output=True, text=True,
    )
    assert r.returncode == 0 and not r.stderr.strip(), "reference rejects input: " + r.stderr
    out = r.stdout.split("@@@", 1)[1]
    return [m.group() for m in _TOK.finditer(out) if not m.group().isspace()]


def ref_if(defs, cond, extra=()):
    src = "\n".join(defs) + f"\n#if {cond}\nYES\n#else\nNO\n#endif\n"
    r = subprocess.run(
        ["gcc", "-E", "-P", "-x", "c", *extra, "-"],
        input=src, capture_output=True, text=True,
    )
    assert r.returncode == 0 and not r.stderr.strip(), "reference rejects input: " + r.stderr
    return "YES" in r.stdout


def cbi_platform(defs, cmdline=()):
    p = platform.Platform("P", "/tmp")
    for d in cmdline:
        m = pp.macro_from_definition_string(d)
        p.define(m.name, m)
    for d in defs:
        node = pp.DirectiveParser(pp.Lexer(d).tokenize()).parse()
        assert isinstance(node, pp.DefineNode), d
        node.evaluate_for_platform(platform=p, filename="x.c")
    return p


def spell(t):
    if isinstance(t, pp.StringConstant):
        return '"' + t.token + '"'
    if isinstance(t, pp.CharacterConstant):
        return "'" + t.token + "'"
    return str(t.token)


def cbi_tokens(defs, text, cmdline=()):
    p = cbi_platform(defs, cmdline)
    return [spell(t) for t in pp.MacroExpander(p).expand(pp.Lexer(text).tokenize())]


def cbi_if(defs, cond, cmdline=()):
    p = cbi_platform(defs, cmdline)
    node = pp.DirectiveParser(pp.Lexer("#if " + cond).tokenize()).parse()
    return bool(node.evaluate_for_platform(platform=p, filename="x.c"))

failures = []

# 1. The argument of # is needlessly pre-expanded; the paste inside it edits
#    the very token objects that # spells afterwards.
defs = ["#define STR(x) #x", "#define CAT(a, b) a ## b", "#define CAT2(a, b) 0 a ## b"]
for text in ("STR(CAT( p q, r))", "STR(CAT2(p q, r))"):
    want = ref_tokens(defs, text)
    got = cbi_tokens(defs, text)
    print(text, " gcc:", want, " cbi:", got)
    if got != want:
        failures.append(text)

# 2. The tokens of a macro *definition* are edited by an expansion, so the
#    same text expands differently before and after an unrelated #if.
defs = ["#define STR(x) #x", "#define XSTR(x) STR(x)", "#define CAT2(a, b) 0 a ## b",
        "#define CALL CAT2(p q, r)"]
p = cbi_platform(defs)
pp.MacroExpander(p).expand(pp.Lexer("CALL").tokenize())      # e.g. `#if CALL`
p.undefine("CAT2")                                            # `#undef CAT2`
got = [spell(t) for t in pp.MacroExpander(p).expand(pp.Lexer("XSTR(CALL)").tokenize())]
want = ref_tokens(defs, "CALL\n#undef CAT2\nXSTR(CALL)")[-1:]
print("XSTR(CALL) after CALL was expanded once:  gcc:", want, " cbi:", got)
if got != want:
    failures.append("definition tokens mutated")

assert not failures, failures
