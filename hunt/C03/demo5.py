"""C03 demo 5: white space in front of a macro/parameter that expands to nothing is lost (seen by #)."""
import logging
import re
import subprocess
import sys

from codebasin import platform, preprocessor as pp

logging.disable(logging.CRITICAL)

_TOK = re.compile(
    r"""("(?:\\.|[^"\\])*")|('(?:\\.|[^'\\])*')|(\.?[0-9](?:[eEpP][+-]|[A-Za-z0-9_.])*)"""
    r"""|([A-Za-z_][A-Za-z0-9_]*)"""
    r"""|(\.\.\.|<<=|>>=|->|\+\+|--|<<|>>|<=|>=|==|!=|&&|\|\||[-+*/%&|^]=|\#\#|[^\sA-Za-z0-9_])|(\s+)""",
)


def ref_tokens(defs, text, extra=()):
    """Token spellings produced by gcc -E for `text` (no diagnostics allowed)."""
    src = "\n".join(defs) + "\n@@@\n" + text + "\n"
    r = subprocess.run(
        ["gcc", "-E", "-P", "-x", "c", *extra, "-"],
        input=src, capture_output=True, text=True,
    )
    assert r.returncode == 0 and not r.stderr.strip(), "reference rejects input: " + r.stderr
    out = r.stdout.split("@@@", 1)[1]
    return [m.group() for m in _TOK.finditer(out) if not m.group().isspace()]


def ref_if(defs, cond, extra=()):
    src = "\n".join(defs) + f"\n#if {cond}\nYES\n#else\nNO\n#endif\n"
    r = subprocess.run(
        ["gcc", "-E", "-P", "-x", "c", *extra, "-"],
        input=src, capture_output=True, text=True,
    )
    assert r.returncode == 0 and not r.stderr.strip(), "reference rejects input: " + r.stderr
    return "YES" in r.stdout


def cbi_platform(defs, cmdline=()):
    p = platform.Platform("P", "/tmp")
    for d in cmdline:
        m = pp.macro_from_definition_string(d)
        p.define(m.name, m)
    for d in defs:
        node = pp.DirectiveParser(pp.Lexer(d).tokenize()).parse()
        assert isinstance(node, pp.DefineNode), d
        node.evaluate_for_platform(platform=p, filename="x.c")
    return p


def spell(t):
    if isinstance(t, pp.StringConstant):
        return '"' + t.token + '"'
    if isinstance(t, pp.CharacterConstant):
        return "'" + t.token + "'"
    return str(t.token)


def cbi_tokens(defs, text, cmdline=()):
    p = cbi_platform(defs, cmdline)
    return [spell(t) for t in pp.MacroExpander(p).expand(pp.Lexer(text).tokenize())]


def cbi_if(defs, cond, cmdline=()):
    p = cbi_platform(defs, cmdline)
    node = pp.DirectiveParser(pp.Lexer("#if " + cond).tokenize()).parse()
    return bool(node.evaluate_for_platform(platform=p, filename="x.c"))

failures = []
cases = [
    (["#define EMPTY", "#define STR(x) #x", "#define XSTR(x) STR(x)"], "XSTR(1 EMPTY+) XSTR(a EMPTY-b)"),
    (["#define STR(...) #__VA_ARGS__", "#define T(A) STR(1 A,2)"], "T()"),
    (["#define STR(x) #x", "#define T(A) STR(x A+ y)"], "T()"),
]
for defs, text in cases:
    want = ref_tokens(defs, text)
    got = cbi_tokens(defs, text)
    print(defs, text, "\n   gcc:", want, "\n   cbi:", got)
    if got != want:
        failures.append(text)
assert not failures, failures
