"""C03 demo 1: a macro whose name is `None` is never expanded."""
import logging
import re
import subprocess
import sys

from codebasin import platform, preprocessor as pp

logging.disable(logging.CRITICAL)

_TOK = re.compile(
    r"""("(?:\\.|[^"\\])*")|('(?:\\.|[^'\\])*')|(\.?[0-9](?:[eEpP][+-]|[A-Za-z0-9_.])*)"""
    r"""|([A-Za-z_][A-Za-z0-9_]*)"""
    r"""|(\.\.\.|<<=|>>=|->|\+\+|--|<<|>>|<=|>=|==|!=|&&|\|\||[-+*/%&|^]=|\#\#|[^\sA-Za-z0-9_])|(\s+)""",
)


def ref_tokens(defs, text, extra=()):
    """Token spellings produced by gcc -E for `text` (no diagnostics allowed)."""
    src = "\n".join(defs) + "\n@@@\n" + text + "\n"
    r = subprocess.run(
        ["gcc", "-E", "-P", "-x", "c", *extra, "-"],
        input=src, capture_output=True, text=True,
    )
    assert r.returncode == 0 and not r.stderr.strip(), "reference rejects input: " + r.stderr
    out = r.stdout.split("@@@", 1)[1]
    return [m.group() for m in _TOK.finditer(out) if not m.group().isspace()]


def ref_if(defs, cond, extra=()):
    src = "\n".join(defs) + f"\n#if {cond}\nYES\n#else\nNO\n#endif\n"
    r = subprocess.run(
        ["gcc", "-E", "-P", "-x", "c", *extra, "-"],
        input=src, capture_output=True, text=True,
    )
    assert r.returncode == 0 and not r.stderr.strip(), "reference rejects input: " + r.stderr
    return "YES" in r.stdout


def cbi_platform(defs, cmdline=()):
    p = platform.Platform("P", "/tmp")
    for d in cmdline:
        m = pp.macro_from_definition_string(d)
        p.define(m.name, m)
    for d in defs:
        node = pp.DirectiveParser(pp.Lexer(d).tokenize()).parse()
        assert isinstance(node, pp.DefineNode), d
        node.evaluate_for_platform(platform=p, filename="x.c")
    return p


def spell(t):
    if isinstance(t, pp.StringConstant):
        return '"' + t.token + '"'
    if isinstance(t, pp.CharacterConstant):
        return "'" + t.token + "'"
    return str(t.token)


def cbi_tokens(defs, text, cmdline=()):
    p = cbi_platform(defs, cmdline)
    return [spell(t) for t in pp.MacroExpander(p).expand(pp.Lexer(text).tokenize())]


def cbi_if(defs, cond, cmdline=()):
    p = cbi_platform(defs, cmdline)
    node = pp.DirectiveParser(pp.Lexer("#if " + cond).tokenize()).parse()
    return bool(node.evaluate_for_platform(platform=p, filename="x.c"))

failures = []

# token stream
defs = ["#define None 0L", "#define ID(x) x"]   # X11's X.h really has `#define None 0L`
text = "None + ID(None)"
want = ref_tokens(defs, text)
got = cbi_tokens(defs, text)
print("tokens  gcc:", want, " cbi:", got)
if got != want:
    failures.append("token stream")

# truth value of #if, definition via #define and via -D
for d, cl in ((["#define None 1"], ()), ([], ("None=1",)), ([], ("None",))):
    extra = ["-D" + c for c in cl]
    want = ref_if(d, "None == 1", extra)
    got = cbi_if(d, "None == 1", cl)
    print("#if None == 1 with", d or cl, " gcc:", want, " cbi:", got)
    if got != want:
        failures.append(f"#if {d or cl}")

# control: any other name works
assert cbi_if(["#define Nona 1"], "Nona == 1") is True

assert not failures, failures
