#!/usr/bin/env python
"""-include of a header that an earlier -include already pulled in ignores its #pragma once

Standalone demo for property C04.  Builds a small source tree in a temporary
directory, asks `gcc -E -P` which marker lines (`int MK_<file>_<line>;`) reach
the translation unit, runs codebasin (taken from PYTHONPATH) on the same
compile command through config.load_database + finder.find, and asserts that
codebasin attributes exactly the same marker lines to the platform.
Exit status 0 = codebasin agrees with gcc, non-zero = property violated.
"""
import json
import logging
import os
import re
import shutil
import subprocess
import sys
import tempfile
import warnings

warnings.simplefilter("ignore")
from codebasin import CodeBase, config, finder  # noqa: E402
from codebasin.preprocessor import CodeNode, DirectiveNode  # noqa: E402

logging.disable(logging.CRITICAL)
MK = re.compile(r"MK_\w+?_\d+")

# relative path -> file content (bytes or str)
FILES = {'main.c': '#ifdef TWICE\nint MK_main_1;\n#else\nint MK_main_2;\n#endif\n',
 'config.h': '#include "compat.h"\n#define HAVE_CONFIG\nint MK_config_1;\n',
 'compat.h': '#pragma once\n'
             '#ifdef HAVE_CONFIG\n'
             '#define TWICE\n'
             'int MK_compat_1;\n'
             '#endif\n'
             'int MK_compat_2;\n'}
# link path -> link target
SYMLINKS = {}
# compiler arguments, relative to the command's working directory CWD
ARGS = ['-include', 'config.h', '-include', 'compat.h']
MAIN = 'main.c'
CWD = "."


def gcc_markers(root):
    r = subprocess.run(
        ["gcc", "-E", "-P"] + ARGS + [MAIN],
        cwd=os.path.join(root, CWD),
        capture_output=True,
        text=True,
    )
    # the input must be valid for the reference: no errors, no diagnostics
    assert r.returncode == 0 and not r.stderr.strip(), r.stderr
    return set(MK.findall(r.stdout))


def cbi_markers(root):
    db = [
        {
            "directory": os.path.abspath(os.path.join(root, CWD)),
            "file": MAIN,
            "arguments": ["gcc", "-c"] + ARGS + [MAIN],
        },
    ]
    dbpath = os.path.join(root, "compile_commands.json")
    with open(dbpath, "w") as f:
        json.dump(db, f)
    os.chdir(root)
    configuration = {"p": config.load_database(dbpath, root)}
    state = finder.find(root, CodeBase(root), configuration, summarize_only=False)
    got = set()
    for fn in state.get_filenames():
        amap = state.get_map(fn)
        for node in state.get_tree(fn).walk():
            if isinstance(node, CodeNode) and not isinstance(node, DirectiveNode):
                if "p" in amap[node]:
                    for s in node.source or []:
                        got |= set(MK.findall(str(s)))
    return got


def main():
    tmp = tempfile.mkdtemp(prefix="c04demo_")
    root = os.path.join(tmp, "proj")
    try:
        for rel, data in FILES.items():
            p = os.path.join(root, rel)
            os.makedirs(os.path.dirname(p), exist_ok=True)
            with open(p, "wb") as f:
                f.write(data if isinstance(data, bytes) else data.encode())
        for link, target in SYMLINKS.items():
            p = os.path.join(root, link)
            os.makedirs(os.path.dirname(p), exist_ok=True)
            os.symlink(target, p)
        expected = gcc_markers(root)
        got = cbi_markers(root)
        print("gcc      :", sorted(expected))
        print("codebasin:", sorted(got))
        assert got == expected, (
            f"only gcc: {sorted(expected - got)}; "
            f"only codebasin: {sorted(got - expected)}"
        )
    finally:
        os.chdir("/")
        shutil.rmtree(tmp, ignore_errors=True)


if __name__ == "__main__":
    main()
