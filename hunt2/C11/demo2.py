#!/usr/bin/env python
"""
C11 / finding 2: a file given with -include that is not in the directory the
command runs in is looked up in the directory of the *source file* first.
gcc and clang never look there: after the working directory they continue
with the -I / -isystem chain.

Exits 0 iff codebasin picks the same forced include as gcc (and clang).
"""
import json, logging, os, re, shutil, subprocess, sys, tempfile, warnings

warnings.simplefilter("ignore")
from codebasin import CodeBase, config, finder  # noqa: E402
from codebasin.preprocessor import CodeNode  # noqa: E402

logging.disable(logging.CRITICAL)

root = os.path.realpath(tempfile.mkdtemp(prefix="c11b_demo2_"))
try:
    files = {
        # generated configuration header, selected with -Ibuild/gpu
        "build/gpu/config.h": "#define USE_GPU 1\nint MARK_build_gpu_config;\n",
        # a template / default lying next to the sources
        "src/config.h": "#define USE_GPU 0\nint MARK_src_config;\n",
        "src/main.c": "#if USE_GPU\nint MARK_gpu;\n#else\nint MARK_cpu;\n#endif\n",
    }
    for rel, text in files.items():
        os.makedirs(os.path.dirname(os.path.join(root, rel)), exist_ok=True)
        with open(os.path.join(root, rel), "w") as f:
            f.write(text)
    flags = ["-O2", "-Ibuild/gpu", "-include", "config.h"]
    src = "src/main.c"

    expected = None
    for cc in ("gcc", "clang"):
        if not shutil.which(cc):
            continue
        r = subprocess.run([cc] + flags + ["-E", "-P", src], cwd=root, capture_output=True, text=True)
        assert r.returncode == 0 and not r.stderr.strip(), r.stderr
        got = set(re.findall(r"MARK_\w+", r.stdout))
        print(cc, "->", sorted(got))
        assert expected in (None, got)
        expected = got
    if expected is None:  # no compiler installed: documented behaviour
        expected = {"MARK_build_gpu_config", "MARK_gpu"}

    entry = {"directory": root, "file": src, "arguments": ["gcc"] + flags + ["-c", src]}
    db = os.path.join(root, "compile_commands.json")
    with open(db, "w") as f:
        json.dump([entry], f)
    conf = config.load_database(db, root)
    assert conf[0]["include_files"] == ["config.h"] or conf[0]["include_files"] == [
        os.path.join(root, "build/gpu/config.h"),
    ], conf[0]["include_files"]
    state = finder.find(root, CodeBase(root), {"p": conf}, summarize_only=False)
    marks = set()
    for fn in state.get_filenames():
        tree, assoc = state.get_tree(fn), state.get_map(fn)
        text = open(fn).read().split("\n")
        for n in tree.walk():
            if isinstance(n, CodeNode) and assoc[n]:
                for ln in range(n.start_line, n.end_line + 1):
                    marks |= set(re.findall(r"MARK_\w+", text[ln - 1]))
    print("codebasin ->", sorted(marks))
    assert marks == expected, f"codebasin uses {sorted(marks)}, the compilers use {sorted(expected)}"
finally:
    shutil.rmtree(root, ignore_errors=True)
print("OK")
