#!/usr/bin/env python
"""
C11 / finding 4: -U is not modelled, so `-DNDEBUG ... -UNDEBUG` (what LLVM's
build adds for release builds with assertions, and what many projects do to
cancel a define coming from a shared flag variable) leaves NDEBUG defined.

Exits 0 iff codebasin agrees with gcc and clang.
"""
import json, logging, os, re, shutil, subprocess, sys, tempfile, warnings

warnings.simplefilter("ignore")
from codebasin import CodeBase, config, finder  # noqa: E402
from codebasin.preprocessor import CodeNode  # noqa: E402

logging.disable(logging.CRITICAL)

root = os.path.realpath(tempfile.mkdtemp(prefix="c11b_demo4_"))
failures = []
try:
    with open(os.path.join(root, "main.c"), "w") as f:
        f.write(
            "#ifdef NDEBUG\nint MARK_release;\n#else\nint MARK_assertions;\n#endif\n"
            "#if LEVEL == 2\nint MARK_level2;\n#endif\n",
        )
    variants = {
        "attached": ["-O2", "-DNDEBUG", "-DLEVEL=1", "-UNDEBUG", "-ULEVEL", "-DLEVEL=2"],
        "separate": ["-O2", "-D", "NDEBUG", "-D", "LEVEL=1", "-U", "NDEBUG", "-U", "LEVEL", "-D", "LEVEL=2"],
    }
    for name, flags in variants.items():
        expected = None
        for cc in ("gcc", "clang"):
            if not shutil.which(cc):
                continue
            r = subprocess.run([cc] + flags + ["-E", "-P", "main.c"], cwd=root, capture_output=True, text=True)
            assert r.returncode == 0 and not r.stderr.strip(), r.stderr
            got = set(re.findall(r"MARK_\w+", r.stdout))
            assert expected in (None, got), (expected, got)
            expected = got
        if expected is None:
            expected = {"MARK_assertions", "MARK_level2"}
        db = os.path.join(root, "compile_commands.json")
        with open(db, "w") as f:
            json.dump([{"directory": root, "file": "main.c", "arguments": ["gcc"] + flags + ["-c", "main.c"]}], f)
        conf = config.load_database(db, root)
        state = finder.find(root, CodeBase(root), {"p": conf}, summarize_only=False)
        fn = os.path.join(root, "main.c")
        tree, assoc = state.get_tree(fn), state.get_map(fn)
        text = open(fn).read().split("\n")
        marks = set()
        for n in tree.walk():
            if isinstance(n, CodeNode) and assoc[n]:
                for ln in range(n.start_line, n.end_line + 1):
                    marks |= set(re.findall(r"MARK_\w+", text[ln - 1]))
        print(f"{name}: defines {conf[0]['defines']}; compilers {sorted(expected)}, codebasin {sorted(marks)}")
        if marks != expected:
            failures.append(name)
finally:
    shutil.rmtree(root, ignore_errors=True)
assert not failures, f"macro state differs from the compilers for: {failures}"
print("OK")
