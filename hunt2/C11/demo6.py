#!/usr/bin/env python
"""
C11 / finding 6: a -D value that contains a comment (`-D'LEVEL=1 /* default */'`)
is kept with the comment; the first #if that uses the macro then raises an
uncaught ParseError and the whole analysis ends.  gcc and clang strip the
comment, as for any #define.

Exits 0 iff the analysis completes and agrees with gcc and clang.
"""
import json, logging, os, re, shutil, subprocess, sys, tempfile, warnings

warnings.simplefilter("ignore")
from codebasin import CodeBase, config, finder  # noqa: E402
from codebasin.preprocessor import CodeNode  # noqa: E402

logging.disable(logging.CRITICAL)

root = os.path.realpath(tempfile.mkdtemp(prefix="c11b_demo6_"))
failures = []
try:
    with open(os.path.join(root, "main.c"), "w") as f:
        f.write("#if LEVEL == 1\nint MARK_one;\n#else\nint MARK_other;\n#endif\n")
    for value in ("LEVEL=1 /* default */", "LEVEL=1 // default", "LEVEL=/**/1"):
        flags = ["-O2", "-D" + value]
        expected = None
        for cc in ("gcc", "clang"):
            if not shutil.which(cc):
                continue
            r = subprocess.run([cc] + flags + ["-E", "-P", "main.c"], cwd=root, capture_output=True, text=True)
            assert r.returncode == 0 and not r.stderr.strip(), r.stderr
            got = set(re.findall(r"MARK_\w+", r.stdout))
            assert expected in (None, got), (expected, got)
            expected = got
        if expected is None:
            expected = {"MARK_one"}
        db = os.path.join(root, "compile_commands.json")
        with open(db, "w") as f:
            json.dump([{"directory": root, "file": "main.c", "arguments": ["gcc"] + flags + ["-c", "main.c"]}], f)
        conf = config.load_database(db, root)
        assert conf[0]["defines"] == [value]
        try:
            state = finder.find(root, CodeBase(root), {"p": conf}, summarize_only=False)
        except Exception as e:
            print(f"-D{value!r}: analysis aborted with {e!r}")
            failures.append(value)
            continue
        fn = os.path.join(root, "main.c")
        tree, assoc = state.get_tree(fn), state.get_map(fn)
        text = open(fn).read().split("\n")
        marks = set()
        for n in tree.walk():
            if isinstance(n, CodeNode) and assoc[n]:
                for ln in range(n.start_line, n.end_line + 1):
                    marks |= set(re.findall(r"MARK_\w+", text[ln - 1]))
        print(f"-D{value!r}: compilers {sorted(expected)}, codebasin {sorted(marks)}")
        if marks != expected:
            failures.append(value)
finally:
    shutil.rmtree(root, ignore_errors=True)
assert not failures, f"failed for -D values: {failures}"
print("OK")
