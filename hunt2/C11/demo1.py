#!/usr/bin/env python
"""
C11 / finding 1: `-Xclang -include -Xclang <header>` (what CMake emits for
target_precompile_headers() with Clang / IntelLLVM) loses the forced include
and invents an include file called "-Xclang".

Exits 0 iff codebasin agrees with clang (and with the property text).
"""
import json, logging, os, re, shutil, subprocess, sys, tempfile, warnings

warnings.simplefilter("ignore")
from codebasin import CodeBase, config, finder  # noqa: E402
from codebasin.preprocessor import CodeNode  # noqa: E402

logging.disable(logging.CRITICAL)

root = os.path.realpath(tempfile.mkdtemp(prefix="c11b_demo1_"))
try:
    os.makedirs(os.path.join(root, "build/CMakeFiles/app.dir"))
    os.makedirs(os.path.join(root, "src"))
    hxx = os.path.join(root, "build/CMakeFiles/app.dir/cmake_pch.hxx")
    with open(hxx, "w") as f:
        f.write("#define FROM_PCH 1\n")
    src = os.path.join(root, "src/main.cpp")
    with open(src, "w") as f:
        f.write(
            "#ifdef FROM_PCH\nint MARK_with_pch;\n#else\nint MARK_without_pch;\n#endif\n",
        )
    # Exactly the shape CMake (>= 3.16) writes for Clang when a target uses
    # precompiled headers (the .pch itself is left out: it is only an
    # optimisation, `-Xclang -include -Xclang hdr` alone is valid too).
    flags = [
        "-DAPP", "-Isrc", "-O2", "-std=gnu++17",
        "-Winvalid-pch",
        "-Xclang", "-include", "-Xclang", hxx,
    ]
    argv = ["clang++"] + flags + ["-o", "main.o", "-c", src]

    # Reference (if clang is installed): which branch survives?
    expected = {"MARK_with_pch"}
    if shutil.which("clang++"):
        r = subprocess.run(
            ["clang++"] + flags + ["-E", "-P", src],
            cwd=root, capture_output=True, text=True,
        )
        assert r.returncode == 0 and not r.stderr.strip(), r.stderr
        expected = set(re.findall(r"MARK_\w+", r.stdout))
        assert expected == {"MARK_with_pch"}, expected

    results = {}
    for form in ("arguments", "command"):
        entry = {"directory": root, "file": src}
        if form == "arguments":
            entry["arguments"] = argv
        else:
            import shlex
            entry["command"] = shlex.join(argv)
        db = os.path.join(root, "compile_commands.json")
        with open(db, "w") as f:
            json.dump([entry], f)
        conf = config.load_database(db, root)
        assert len(conf) == 1, conf
        print(form, "include_files =", conf[0]["include_files"])
        state = finder.find(root, CodeBase(root), {"p": conf}, summarize_only=False)
        tree, assoc = state.get_tree(src), state.get_map(src)
        text = open(src).read().split("\n")
        marks = set()
        for n in tree.walk():
            if isinstance(n, CodeNode) and assoc[n]:
                for ln in range(n.start_line, n.end_line + 1):
                    marks |= set(re.findall(r"MARK_\w+", text[ln - 1]))
        results[form] = (conf[0]["include_files"], marks)

    for form, (files, marks) in results.items():
        assert "-Xclang" not in files, f"{form}: '-Xclang' taken for a forced include: {files}"
        assert files == [hxx], f"{form}: forced include lost: {files}"
        assert marks == expected, f"{form}: used lines {marks}, clang says {expected}"
finally:
    shutil.rmtree(root, ignore_errors=True)
print("OK")
