#!/usr/bin/env python
"""
C11 / finding 5: an option CBI does not model, but which is a *prefix* of an
option it does model, is silently taken for the longer option (argparse
abbreviation matching is only switched off for "--" options on Python < 3.12.8
/ 3.13.1).  Realistic instance: `clang++ -fsycl` (the open-source DPC++
driver).  compilers/clang.toml only models the cc1 option -fsycl-is-device;
-fsycl is expanded to it, so the one and only configuration of the file
gets -D__SYCL_DEVICE_ONLY__ although no -D said so, and all host-only code
(#ifndef __SYCL_DEVICE_ONLY__) is reported as unused.

Exits 0 iff the configuration contains exactly the macros given with -D.
"""
import contextlib, io, logging, sys, warnings

warnings.simplefilter("ignore")
from codebasin import CompileCommand, config  # noqa: E402

logging.disable(logging.CRITICAL)

problems = []
for argv in (
    ["clang++", "-fsycl", "-DFOO", "-Iinc", "-c", "a.cpp"],
    ["clang++", "-DFOO", "-Iinc", "-fsycl", "-fsycl-unnamed-lambda", "-c", "a.cpp"],
):
    for form in ("arguments", "command"):
        if form == "command":
            import shlex

            args = CompileCommand("a.cpp", command=shlex.join(argv)).arguments
        else:
            args = argv
        err = io.StringIO()
        try:
            with contextlib.redirect_stderr(err):
                configs = config.ArgumentParser(args[0]).parse_args(args[1:])
        except BaseException as e:  # SystemExit for an ambiguous prefix
            problems.append((argv, form, repr(e)))
            continue
        got = [(c.pass_name, c.defines, c.include_paths) for c in configs]
        print(form, argv, "->", got)
        if got != [("default", ["FOO"], ["inc"])]:
            problems.append((argv, form, got))

# The same command line without the unmodelled option, for comparison.
base = config.ArgumentParser("clang++").parse_args(["-DFOO", "-Iinc", "-c", "a.cpp"])
assert [(c.pass_name, c.defines, c.include_paths) for c in base] == [("default", ["FOO"], ["inc"])]

assert not problems, f"an unmodelled option changed the extracted configuration: {problems}"
print("OK")
