#!/usr/bin/env python
"""
C11 / finding 3: the directory given with -I is dropped only when the
-isystem option names the same directory with (textually) the same spelling.
gcc and clang compare directories, not spellings: `-Iinclude` and
`-isystem /abs/path/to/include` (or a symbolic link) are the same directory,
so -I is ignored and the directory moves behind all other -I directories.

Exits 0 iff codebasin resolves the header like gcc and clang do.
"""
import json, logging, os, re, shutil, subprocess, sys, tempfile, warnings

warnings.simplefilter("ignore")
from codebasin import CodeBase, config, finder  # noqa: E402
from codebasin.preprocessor import CodeNode  # noqa: E402

logging.disable(logging.CRITICAL)


def cbi_marks(root, entry):
    db = os.path.join(root, "compile_commands.json")
    with open(db, "w") as f:
        json.dump([entry], f)
    conf = config.load_database(db, root)
    state = finder.find(root, CodeBase(root), {"p": conf}, summarize_only=False)
    marks = set()
    for fn in state.get_filenames():
        tree, assoc = state.get_tree(fn), state.get_map(fn)
        text = open(fn).read().split("\n")
        for n in tree.walk():
            if isinstance(n, CodeNode) and assoc[n]:
                for ln in range(n.start_line, n.end_line + 1):
                    marks |= set(re.findall(r"MARK_\w+", text[ln - 1]))
    return marks, conf


root = os.path.realpath(tempfile.mkdtemp(prefix="c11b_demo3_"))
failures = []
try:
    files = {
        "third_party/json.h": "int MARK_third_party_json;\n",
        "compat/json.h": "int MARK_compat_json;\n",
        "main.c": "#include <json.h>\n",
    }
    for rel, text in files.items():
        os.makedirs(os.path.dirname(os.path.join(root, rel)) or root, exist_ok=True)
        with open(os.path.join(root, rel), "w") as f:
            f.write(text)
    os.symlink("third_party", os.path.join(root, "tp"))

    variants = {
        "relative -I, absolute -isystem": ["-Ithird_party", "-Icompat", "-isystem", os.path.join(root, "third_party")],
        "absolute -I, relative -isystem": ["-I" + os.path.join(root, "third_party"), "-Icompat", "-isystem", "third_party"],
        "symbolic link": ["-Itp", "-Icompat", "-isystem", "third_party"],
    }
    for name, flags in variants.items():
        expected = None
        for cc in ("gcc", "clang"):
            if not shutil.which(cc):
                continue
            r = subprocess.run([cc] + flags + ["-E", "-P", "main.c"], cwd=root, capture_output=True, text=True)
            assert r.returncode == 0 and not r.stderr.strip(), r.stderr
            got = set(re.findall(r"MARK_\w+", r.stdout))
            assert expected in (None, got), (expected, got)
            expected = got
        if expected is None:
            expected = {"MARK_compat_json"}
        marks, conf = cbi_marks(
            root,
            {"directory": root, "file": "main.c", "arguments": ["gcc"] + flags + ["-c", "main.c"]},
        )
        print(f"{name}: compilers {sorted(expected)}, codebasin {sorted(marks)}")
        print("   include_paths:", conf[0]["include_paths"])
        if marks != expected:
            failures.append(name)
finally:
    shutil.rmtree(root, ignore_errors=True)
assert not failures, f"wrong header chosen for: {failures}"
print("OK")
