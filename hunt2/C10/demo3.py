#!/usr/bin/env python3
"""
C10 demo 3: white space at the start of a pattern is part of the pattern for
git (only unescaped trailing blanks are dropped).  The tree strips it, so the
pattern " third-party/" (git: matches nothing, there is no directory called
" third-party") removes the whole third-party/ directory, and the root-level
file " notes.h" cannot be excluded by its own name.

Oracle: `git check-ignore --no-index` for which files the pattern matches, and
the property text ("removes exactly the matched files' lines ... leaves the
attribution of every other line unchanged").
Exits 0 if the tree behaves as the property demands, non-zero otherwise.
"""
import json
import logging
import os
import subprocess
import sys
import tempfile
import warnings

warnings.simplefilter("ignore")
from codebasin import CodeBase, config, finder  # noqa: E402
from codebasin.preprocessor import CodeNode  # noqa: E402

logging.disable()

FILES = {
    "main.c": '#include "third-party/tp.h"\n#if USE_FAST\nint fast;\n#else\nint slow;\n#endif\n',
    "third-party/tp.h": "#define USE_FAST 1\nint tp;\n",
    " notes.h": "int notes;\n",
    "notes.h": "int other_notes;\n",
}
PATTERNS = [" third-party/", " notes.h"]


def git_matches(patterns, rels):
    with tempfile.TemporaryDirectory() as repo:
        subprocess.run(["git", "init", "-q", repo], check=True)
        with open(os.path.join(repo, ".git", "info", "exclude"), "w") as f:
            f.write("\n".join(patterns) + "\n")
        for r in rels:
            os.makedirs(os.path.dirname(os.path.join(repo, r)), exist_ok=True)
            open(os.path.join(repo, r), "w").close()
        out = subprocess.run(
            ["git", "-C", repo, "check-ignore", "--no-index", "-z", "--stdin"],
            input="\0".join(rels) + "\0",
            capture_output=True,
            text=True,
        )
        assert out.returncode in (0, 1) and not out.stderr, out.stderr
        return {x for x in out.stdout.split("\0") if x}


def analyse(root, db, excludes):
    codebase = CodeBase(root, exclude_patterns=excludes)
    configuration = {"p": config.load_database(db, root)}
    state = finder.find(root, codebase, configuration)
    attribution = {}
    for fn in codebase:
        tree, amap = state.get_tree(fn), state.get_map(fn)
        lines = {}
        for node in tree.walk():
            if isinstance(node, CodeNode):
                for ln in node.lines:
                    lines[ln] = frozenset(amap[node])
        attribution[os.path.relpath(fn, root)] = lines
    return attribution, dict(state.get_setmap(codebase))


with tempfile.TemporaryDirectory() as base:
    base = os.path.realpath(base)
    root = os.path.join(base, "root")
    for rel, text in FILES.items():
        os.makedirs(os.path.dirname(os.path.join(root, rel)), exist_ok=True)
        with open(os.path.join(root, rel), "w") as f:
            f.write(text)
    db = os.path.join(base, "commands.json")
    with open(db, "w") as f:
        json.dump(
            [{"directory": root, "file": "main.c", "arguments": ["gcc", "-c", "main.c"]}],
            f,
        )

    matched = git_matches(PATTERNS, sorted(FILES))
    print("git says the pattern matches:", sorted(matched))
    assert matched == {" notes.h"}

    before, setmap_before = analyse(root, db, [])
    after, setmap_after = analyse(root, db, PATTERNS)
    expected = {f: a for f, a in before.items() if f not in matched}
    print("files counted without exclusion:", sorted(before))
    print("files counted with", PATTERNS, ":", sorted(after))
    print("setmap before:", setmap_before)
    print("setmap after :", setmap_after)
    assert sorted(after) == sorted(expected), (
        "excluding %r: still counted %r, wrongly removed %r"
        % (PATTERNS, sorted(set(after) - set(expected)), sorted(set(expected) - set(after)))
    )
    assert after == expected
print("OK")
