#!/usr/bin/env python
"""C02b finding 2: a string literal that ends in an escaped backslash
is not closed by the lexer, so the tokens that follow it in the controlling
expression are swallowed.
Exits 0 if the tree evaluates the #if expression as ISO C / gcc do."""
import logging
import os
import shutil
import subprocess
import tempfile
import warnings

warnings.simplefilter("ignore")
logging.disable(logging.CRITICAL)

from codebasin import CodeBase, finder, preprocessor  # noqa: E402
from codebasin.preprocessor import CodeNode  # noqa: E402


def active_lines(src, name="t.c"):
    d = tempfile.mkdtemp(prefix="c02b_demo_")
    try:
        path = os.path.join(d, name)
        with open(path, "w") as f:
            f.write(src)
        conf = {
            "P": [
                {
                    "file": path,
                    "defines": [],
                    "include_paths": [],
                    "include_files": [],
                },
            ],
        }
        state = finder.find(d, CodeBase(d), conf, summarize_only=False)
        tree = state.get_tree(path)
        assoc = state.get_map(path)
        lines = set()
        for node in tree.walk():
            if isinstance(node, CodeNode) and not isinstance(
                node,
                preprocessor.DirectiveNode,
            ):
                if "P" in assoc[node]:
                    lines.update(node.lines)
        return lines
    finally:
        shutil.rmtree(d, ignore_errors=True)


def gcc_says(src):
    """Return the preprocessed text of src, or None if gcc is missing.
    Asserts that gcc accepts the input without any diagnostic."""
    if shutil.which("gcc") is None:
        return None
    r = subprocess.run(
        ["gcc", "-E", "-P", "-x", "c", "-"],
        input=src,
        capture_output=True,
        text=True,
    )
    assert r.returncode == 0 and not r.stderr.strip(), r.stderr
    return r.stdout



SRC = r"""#define LEVEL(tag, lvl) lvl
#if LEVEL("C:\\", 1) && !LEVEL("D:", 1)
int yes;
#else
int no;
#endif
"""
# 1 && !1 == 0: the #else branch is the active one.
out = gcc_says(SRC)
if out is not None:
    assert "no;" in out and "yes;" not in out, out

act = active_lines(SRC)
print("active lines:", sorted(act), "(expected [5])")
assert act == {5}, "the string literal \"C:\\\\\" was not lexed as one complete token"
