#!/usr/bin/env python
"""C02b finding 1: the ## operator handles a character-constant operand by its
bare content (token text without quotes and prefix).
Exits 0 if the tree evaluates both #if expressions as ISO C / gcc do."""
import logging
import os
import shutil
import subprocess
import tempfile
import warnings

warnings.simplefilter("ignore")
logging.disable(logging.CRITICAL)

from codebasin import CodeBase, finder, preprocessor  # noqa: E402
from codebasin.preprocessor import CodeNode  # noqa: E402


def active_lines(src, name="t.c"):
    d = tempfile.mkdtemp(prefix="c02b_demo_")
    try:
        path = os.path.join(d, name)
        with open(path, "w") as f:
            f.write(src)
        conf = {
            "P": [
                {
                    "file": path,
                    "defines": [],
                    "include_paths": [],
                    "include_files": [],
                },
            ],
        }
        state = finder.find(d, CodeBase(d), conf, summarize_only=False)
        tree = state.get_tree(path)
        assoc = state.get_map(path)
        lines = set()
        for node in tree.walk():
            if isinstance(node, CodeNode) and not isinstance(
                node,
                preprocessor.DirectiveNode,
            ):
                if "P" in assoc[node]:
                    lines.update(node.lines)
        return lines
    finally:
        shutil.rmtree(d, ignore_errors=True)


def gcc_says(src):
    """Return the preprocessed text of src, or None if gcc is missing.
    Asserts that gcc accepts the input without any diagnostic."""
    if shutil.which("gcc") is None:
        return None
    r = subprocess.run(
        ["gcc", "-E", "-P", "-x", "c", "-"],
        input=src,
        capture_output=True,
        text=True,
    )
    assert r.returncode == 0 and not r.stderr.strip(), r.stderr
    return r.stdout



# (a) the <tchar.h> idiom: L ## 'x' is the wide character constant L'x'
SRC_A = """\
#define __T(x) L ## x
#define _T(x) __T(x)
#define PATH_SEP _T('/')
#if PATH_SEP == 47
int yes_a;
#else
int no_a;
#endif
"""
# (b) a character constant whose content is spelled like a parameter,
#     pasted with an empty argument: the result is the constant itself
SRC_B = """\
#define F(x, y) 'x' ## y
#if F(1,) == 120
int yes_b;
#else
int no_b;
#endif
"""

for src, tag in ((SRC_A, "a"), (SRC_B, "b")):
    out = gcc_says(src)
    if out is not None:
        assert f"yes_{tag}" in out and f"no_{tag}" not in out, out

act_a = active_lines(SRC_A)
act_b = active_lines(SRC_B)
print("case a active lines:", sorted(act_a), "(expected [5])")
print("case b active lines:", sorted(act_b), "(expected [3])")
assert act_a == {5}, "L ## 'x' did not evaluate as the character constant L'x'"
assert act_b == {3}, "'x' ## <empty> did not evaluate as the constant 'x'"
