#!/usr/bin/env python
"""C02b finding 3: a wide character constant whose value does not fit the
positive range of wchar_t (a signed 32-bit int for gcc/clang on Linux) keeps
its unsigned 32-bit value instead of being converted to wchar_t.
Exits 0 if the tree evaluates the #if expression as gcc does."""
import logging
import os
import shutil
import subprocess
import tempfile
import warnings

warnings.simplefilter("ignore")
logging.disable(logging.CRITICAL)

from codebasin import CodeBase, finder, preprocessor  # noqa: E402
from codebasin.preprocessor import CodeNode  # noqa: E402


def active_lines(src, name="t.c"):
    d = tempfile.mkdtemp(prefix="c02b_demo_")
    try:
        path = os.path.join(d, name)
        with open(path, "w") as f:
            f.write(src)
        conf = {
            "P": [
                {
                    "file": path,
                    "defines": [],
                    "include_paths": [],
                    "include_files": [],
                },
            ],
        }
        state = finder.find(d, CodeBase(d), conf, summarize_only=False)
        tree = state.get_tree(path)
        assoc = state.get_map(path)
        lines = set()
        for node in tree.walk():
            if isinstance(node, CodeNode) and not isinstance(
                node,
                preprocessor.DirectiveNode,
            ):
                if "P" in assoc[node]:
                    lines.update(node.lines)
        return lines
    finally:
        shutil.rmtree(d, ignore_errors=True)


def gcc_says(src):
    """Return the preprocessed text of src, or None if gcc is missing.
    Asserts that gcc accepts the input without any diagnostic."""
    if shutil.which("gcc") is None:
        return None
    r = subprocess.run(
        ["gcc", "-E", "-P", "-x", "c", "-"],
        input=src,
        capture_output=True,
        text=True,
    )
    assert r.returncode == 0 and not r.stderr.strip(), r.stderr
    return r.stdout



SRC = r"""#if L'\xffffffff' < 0 && L'\x80000000' < 0 && L'\xffffffff' == -1
int yes;
#else
int no;
#endif
"""
out = gcc_says(SRC)
if out is not None:
    assert "yes;" in out and "no;" not in out, out

act = active_lines(SRC)
print("active lines:", sorted(act), "(expected [2])")
assert act == {2}, "L'\\xffffffff' was not evaluated as the wchar_t value -1"
