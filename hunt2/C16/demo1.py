#!/usr/bin/env python3
"""
C16 demo 1: identical free-form Fortran files whose text holds an apostrophe
that is not Fortran (inside a C comment, which `gfortran -cpp` removes, or in
prose inside a skipped `#if 0` group) make `codebasin -R duplicates` end with
"Parser must end at top level without 'relaxed' mode." and print no report.

Exits 0 iff the duplicates report equals the byte-wise partition.
"""
import collections
import os
import shutil
import subprocess
import sys
import tempfile

CASES = {
    # control: must pass on any tree (checks the harness itself)
    "control": "/* Generated file. Do not edit. */\nprogram p\nend program p\n",
    "c-comment": (
        "/* Generated file. Don't edit. */\n"
        "program p\n"
        '  print *, "hi"\n'
        "end program p\n"
    ),
    "skipped-prose": (
        "#if 0\n"
        "  This doesn't work yet\n"
        "#endif\n"
        "subroutine s\n"
        "end subroutine s\n"
    ),
}


def reported_groups(stdout):
    """Parse the 'Duplicates' section of the codebasin output."""
    groups, current, in_section = [], None, False
    for line in stdout.splitlines():
        if line.strip() == "Duplicates":
            in_section = True
        elif in_section and line.startswith("Match "):
            current = set()
            groups.append(current)
        elif in_section and line.startswith("- ") and current is not None:
            current.add(os.path.realpath(line[2:]))
    return {frozenset(g) for g in groups}


def run_case(name, text):
    root = tempfile.mkdtemp(prefix="c16demo1_")
    try:
        files = {
            "src/mod.F90": text,
            "old/mod.F90": text,  # byte-identical twin
            "src/other.F90": "program q\nend program q\n",  # unique
        }
        for rel, content in files.items():
            os.makedirs(os.path.dirname(os.path.join(root, rel)), exist_ok=True)
            with open(os.path.join(root, rel), "w", newline="") as f:
                f.write(content)
        with open(os.path.join(root, "analysis.toml"), "w") as f:
            f.write("[codebase]\nexclude = []\n")

        # The compiler accepts the text without any diagnostic.
        if shutil.which("gfortran"):
            r = subprocess.run(
                ["gfortran", "-cpp", "-Wall", "-fsyntax-only", "src/mod.F90"],
                cwd=root, capture_output=True, text=True,
            )
            assert r.returncode == 0 and not r.stderr.strip(), r.stderr

        # Reference: direct byte-wise partition.
        by_content = collections.defaultdict(set)
        for rel in files:
            p = os.path.realpath(os.path.join(root, rel))
            with open(p, "rb") as f:
                by_content[f.read()].add(p)
        expected = {frozenset(g) for g in by_content.values() if len(g) > 1}

        r = subprocess.run(
            [sys.executable, "-W", "ignore", "-m", "codebasin",
             "-R", "duplicates", "analysis.toml"],
            cwd=root, capture_output=True, text=True,
        )
        got = reported_groups(r.stdout)
        ok = got == expected and r.returncode == 0
        print(f"[{name}] exit status {r.returncode}; "
              f"expected {len(expected)} group(s), reported {len(got)}: "
              + ("ok" if ok else "WRONG"))
        if not ok:
            print("    " + r.stdout.strip().replace("\n", "\n    ")[-500:])
        return ok
    finally:
        shutil.rmtree(root, ignore_errors=True)


results = {name: run_case(name, text) for name, text in CASES.items()}
assert results["control"], "harness problem: control case failed"
assert all(results.values()), f"duplicates report missing or wrong: {results}"
print("OK")
