#!/usr/bin/env python3
"""
C16 demo 4: an excluded twin whose file name contains a line feed is not
excluded by a directory pattern ("excluded/"), so it is listed as a duplicate
of a file in the code base.  git (the reference for exclude patterns) ignores
the file.

Exits 0 iff find_duplicates equals the byte-wise partition of the files that
git does not ignore.
"""
import collections
import os
import shutil
import subprocess
import tempfile
import warnings

with warnings.catch_warnings():
    warnings.simplefilter("ignore")
    from codebasin import CodeBase, report

PATTERNS = ["excluded/"]

root = os.path.realpath(tempfile.mkdtemp(prefix="c16demo4_"))
try:
    files = {
        "src/a.c": b"int a;\n",
        "excluded/plain.c": b"int a;\n",   # excluded twin, ordinary name
        "excluded/a\nb.c": b"int a;\n",    # excluded twin, LF in its name
        "src/u.c": b"int u;\n",
    }
    for rel, content in files.items():
        os.makedirs(os.path.dirname(os.path.join(root, rel)), exist_ok=True)
        with open(os.path.join(root, rel), "wb") as f:
            f.write(content)

    # Reference for the exclusion: git check-ignore with the same patterns.
    ignored = set()
    if shutil.which("git"):
        subprocess.run(["git", "init", "-q", "."], cwd=root, check=True)
        with open(os.path.join(root, ".git", "info", "exclude"), "w") as f:
            f.write("\n".join(PATTERNS) + "\n")
        r = subprocess.run(
            ["git", "check-ignore", "-z", "--stdin"],
            input="\0".join(files).encode() + b"\0",
            cwd=root, capture_output=True,
        )
        ignored = {p.decode() for p in r.stdout.split(b"\0") if p}
        shutil.rmtree(os.path.join(root, ".git"))
    else:  # what git answers (checked with git 2.39)
        ignored = {"excluded/plain.c", "excluded/a\nb.c"}
    print("git ignores:", sorted(ignored))
    assert ignored == {"excluded/plain.c", "excluded/a\nb.c"}

    by_content = collections.defaultdict(set)
    for rel, content in files.items():
        if rel not in ignored:
            by_content[content].add(os.path.join(root, rel))
    expected = {frozenset(g) for g in by_content.values() if len(g) > 1}

    cb = CodeBase(root, exclude_patterns=list(PATTERNS))
    got = {frozenset(str(p) for p in g) for g in report.find_duplicates(cb)}
    print("expected", sorted(map(sorted, expected)))
    print("reported", sorted(map(sorted, got)))
    assert got == expected, "an excluded twin is listed in the duplicates report"
    print("OK")
finally:
    shutil.rmtree(root, ignore_errors=True)
