#!/usr/bin/env python3
"""
C16 demo 2: identical C files in which a backslash outside any literal is taken
for an escape character by the line scanner:

  A) last lines  "#define WINROOT C:\\\\" NL NL      (two backslashes, then an
     empty line, then end of file): after line splicing the macro body ends in
     one backslash; the scanner stays in its ESCAPING state up to the end of
     the file;
  B) "#define X a\\//* c" : the backslash "escapes" the first '/', the rest
     "/*" opens a block comment that never ends (for the compiler "//" starts
     a line comment).

gcc -E (and gcc -c -Wall) accept both silently; `codebasin -R duplicates` ends
with "Parser must end at top level without 'relaxed' mode." and prints no
report.  Exits 0 iff the report equals the byte-wise partition.
"""
import collections
import os
import shutil
import subprocess
import sys
import tempfile

CASES = {
    # control: must pass on any tree (checks the harness itself)
    "control": "#ifndef W_H\n#define W_H\n#define WINROOT C:\\\\dir\n#endif\n",
    "trailing-double-backslash": "#define WINROOT C:\\\\\n\n",
    "backslash-before-line-comment": "#define X a\\//* c\nint y;\n",
}


def reported_groups(stdout):
    """Parse the 'Duplicates' section of the codebasin output."""
    groups, current, in_section = [], None, False
    for line in stdout.splitlines():
        if line.strip() == "Duplicates":
            in_section = True
        elif in_section and line.startswith("Match "):
            current = set()
            groups.append(current)
        elif in_section and line.startswith("- ") and current is not None:
            current.add(os.path.realpath(line[2:]))
    return {frozenset(g) for g in groups}


def run_case(name, text):
    root = tempfile.mkdtemp(prefix="c16demo2_")
    try:
        files = {
            "include/win.h": text,
            "backup/win.h": text,            # byte-identical twin
            "src/main.c": "int main(void) { return 0; }\n",  # unique
        }
        for rel, content in files.items():
            os.makedirs(os.path.dirname(os.path.join(root, rel)), exist_ok=True)
            with open(os.path.join(root, rel), "w", newline="") as f:
                f.write(content)
        with open(os.path.join(root, "analysis.toml"), "w") as f:
            f.write("[codebase]\nexclude = []\n")

        # The compiler accepts the text without any diagnostic.
        if shutil.which("gcc"):
            for cmd in (["gcc", "-E", "-x", "c"], ["gcc", "-c", "-Wall", "-x", "c"]):
                r = subprocess.run(
                    cmd + ["include/win.h", "-o", os.devnull],
                    cwd=root, capture_output=True, text=True,
                )
                assert r.returncode == 0 and not r.stderr.strip(), r.stderr

        by_content = collections.defaultdict(set)
        for rel in files:
            p = os.path.realpath(os.path.join(root, rel))
            with open(p, "rb") as f:
                by_content[f.read()].add(p)
        expected = {frozenset(g) for g in by_content.values() if len(g) > 1}

        r = subprocess.run(
            [sys.executable, "-W", "ignore", "-m", "codebasin",
             "-R", "duplicates", "analysis.toml"],
            cwd=root, capture_output=True, text=True,
        )
        got = reported_groups(r.stdout)
        ok = got == expected and r.returncode == 0
        print(f"[{name}] exit status {r.returncode}; "
              f"expected {len(expected)} group(s), reported {len(got)}: "
              + ("ok" if ok else "WRONG"))
        if not ok:
            print("    " + r.stdout.strip().replace("\n", "\n    ")[-500:])
        return ok
    finally:
        shutil.rmtree(root, ignore_errors=True)


results = {name: run_case(name, text) for name, text in CASES.items()}
assert results["control"], "harness problem: control case failed"
assert all(results.values()), f"duplicates report missing or wrong: {results}"
print("OK")
