#!/usr/bin/env python3
"""
C16 demo 3: a code-base member whose name consists of dots plus a source
extension ("..c", "...hpp") is a member for CodeBase (pathlib suffix ".c") but
has no language for the parser (os.path.splitext gives no extension), so
`codebasin -R duplicates` ends with "Could not determine language of ..." and
prints no report.

Exits 0 iff the duplicates report equals the byte-wise partition of the
code-base members.
"""
import collections
import os
import shutil
import subprocess
import sys
import tempfile
import warnings


def reported_groups(stdout):
    groups, current, in_section = [], None, False
    for line in stdout.splitlines():
        if line.strip() == "Duplicates":
            in_section = True
        elif in_section and line.startswith("Match "):
            current = set()
            groups.append(current)
        elif in_section and line.startswith("- ") and current is not None:
            current.add(os.path.realpath(line[2:]))
    return {frozenset(g) for g in groups}


root = tempfile.mkdtemp(prefix="c16demo3_")
try:
    files = {
        "src/a.c": b"int a;\n",
        "src/b.c": b"int a;\n",      # twin of a.c
        "src/..c": b"int a;\n",      # twin of a.c, unusual but legal name
        "src/u.c": b"int u;\n",      # unique
    }
    for rel, content in files.items():
        os.makedirs(os.path.dirname(os.path.join(root, rel)), exist_ok=True)
        with open(os.path.join(root, rel), "wb") as f:
            f.write(content)
    with open(os.path.join(root, "analysis.toml"), "w") as f:
        f.write("[codebase]\nexclude = []\n")

    # Membership is decided by the package itself (the property speaks about
    # code-base files); the partition is computed directly on the bytes.
    with warnings.catch_warnings():
        warnings.simplefilter("ignore")
        from codebasin import CodeBase
    members = set(CodeBase(root))
    print("'..c' is a code-base member:",
          os.path.join(os.path.realpath(root), "src", "..c") in members)
    by_content = collections.defaultdict(set)
    for p in members:
        if not os.path.islink(p):
            with open(p, "rb") as f:
                by_content[f.read()].add(os.path.realpath(p))
    expected = {frozenset(g) for g in by_content.values() if len(g) > 1}

    r = subprocess.run(
        [sys.executable, "-W", "ignore", "-m", "codebasin",
         "-R", "duplicates", "analysis.toml"],
        cwd=root, capture_output=True, text=True,
    )
    got = reported_groups(r.stdout)
    print("exit status", r.returncode)
    print("expected", sorted(map(sorted, expected)))
    print("reported", sorted(map(sorted, got)))
    if got != expected:
        print(r.stdout[-400:])
    assert r.returncode == 0 and got == expected, "duplicates report wrong"
    print("OK")
finally:
    shutil.rmtree(root, ignore_errors=True)
