"""C12 demo 2: implicit options for a built-in alias switch off the built-in
emulation of that compiler.

The documentation's own use case ("define __GNUC__ for my compiler") applied
to g++ / icpx, which the built-in definitions know as aliases of gcc / icx:

    [compiler."g++"]
    options = ["-D__GNUC__=13"]

The property says implicit options behave exactly as if appended to each
command line of the compiler, and that a user configuration *extends* the
built-in one.  So `g++ -fopenmp a.cpp` must behave like
`g++ -fopenmp a.cpp -D__GNUC__=13` does without any user configuration:
_OPENMP and __GNUC__=13 (real g++ -fopenmp defines _OPENMP as well).
"""
import logging
import os
import subprocess
import tempfile
import warnings

warnings.simplefilter("ignore")
from codebasin import config  # noqa: E402

logging.disable(logging.CRITICAL)


def emulate(user_config, argv):
    with open(".cbi/config", "w") as f:
        f.write(user_config)
    config._compilers = None
    config._load_compilers()
    configs = config.ArgumentParser(argv[0]).parse_args(argv[1:])
    return {c.pass_name: sorted(c.defines) for c in configs}


problems = []
with tempfile.TemporaryDirectory() as tmp:
    os.chdir(tmp)
    os.mkdir(".cbi")

    # Reference: the real compiler defines _OPENMP for this command line.
    try:
        out = subprocess.run(
            ["g++", "-fopenmp", "-D__GNUC__=13", "-dM", "-E", "-x", "c++", "/dev/null"],
            capture_output=True,
            text=True,
        ).stdout
        if out:
            assert "#define _OPENMP " in out
    except OSError:
        pass

    for compiler, options, argv in [
        ("g++", ["-D__GNUC__=13"], ["/usr/bin/g++", "-fopenmp", "-c", "a.cpp"]),
        ("icpx", ["-D__INTEL_LLVM_COMPILER=20240000"], ["icpx", "-fsycl", "-c", "a.cpp"]),
        ("clang++", ["-isystem", "/opt/llvm/include/c++/v1"], ["clang++", "-fopenmp", "-c", "a.cpp"]),
    ]:
        # "exactly as if appended to each of its command lines"
        expected = emulate("", argv + options)
        user = '[compiler."%s"]\noptions = [%s]\n' % (
            compiler,
            ", ".join('"%s"' % o for o in options),
        )
        got = emulate(user, argv)
        if got != expected:
            problems.append((argv, options, expected, got))

    os.chdir("/")

for argv, options, expected, got in problems:
    print("VIOLATION:", " ".join(argv), "with implicit options", options)
    print("   as if appended:", expected)
    print("   tree          :", got)
assert not problems
print("ok")
