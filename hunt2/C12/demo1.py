"""C12 demo 1: an argument that merely *starts like* a declared flag enables it.

A user configuration teaches gcc that -mavx2 defines __AVX__ and __AVX2__.
The command line uses the different, valid gcc flag -mavx.  gcc itself is the
reference: `gcc -mavx` does not define __AVX2__.  The property says a flag
contributes exactly the definitions declared *for it*; nothing is declared for
-mavx, so the command must yield a default configuration without __AVX2__.

Second part: as soon as two declared flags share that prefix (-mavx2 and
-mavx512f), the same valid command line ends the whole run (argparse reports
"ambiguous option" and raises SystemExit, which nothing catches).
"""
import contextlib
import io
import logging
import os
import subprocess
import tempfile
import warnings

warnings.simplefilter("ignore")
from codebasin import config  # noqa: E402

logging.disable(logging.CRITICAL)

AVX2 = """
[[compiler.gcc.parser]]
flags = ["-mavx2"]
action = "append_const"
dest = "modes"
const = "avx2"

[[compiler.gcc.modes]]
name = "avx2"
defines = ["__AVX__", "__AVX2__"]
"""

AVX512 = """
[[compiler.gcc.parser]]
flags = ["-mavx512f"]
action = "append_const"
dest = "modes"
const = "avx512f"

[[compiler.gcc.modes]]
name = "avx512f"
defines = ["__AVX__", "__AVX2__", "__AVX512F__"]
"""


def gcc_defines(*flags):
    """Macro names predefined by the real compiler, None if unusable."""
    try:
        out = subprocess.run(
            ["gcc", *flags, "-dM", "-E", "-x", "c", "/dev/null"],
            capture_output=True,
            text=True,
            check=True,
        )
    except (OSError, subprocess.CalledProcessError):
        return None
    if out.stderr.strip():
        return None
    return {line.split()[1] for line in out.stdout.splitlines() if line}


def emulate(user_config, argv):
    with open(".cbi/config", "w") as f:
        f.write(user_config)
    config._compilers = None
    config._load_compilers()
    try:
        with contextlib.redirect_stderr(io.StringIO()):
            configs = config.ArgumentParser(argv[0]).parse_args(argv[1:])
    except SystemExit as e:
        raise AssertionError(
            "%r ends the run with SystemExit(%s)" % (argv, e.code),
        )
    assert [c.pass_name for c in configs] == ["default"], configs
    return {d.split("=")[0] for d in configs[0].defines}


with tempfile.TemporaryDirectory() as tmp:
    os.chdir(tmp)
    os.mkdir(".cbi")

    # Sanity: the declared flag works.
    assert "__AVX2__" in emulate(AVX2, ["g++", "-mavx2", "-c", "a.cpp"])

    # Reference: gcc accepts -mavx silently and does not define __AVX2__.
    ref = gcc_defines("-mavx")
    if ref is not None:
        assert "__AVX__" in ref and "__AVX2__" not in ref, ref

    problems = []
    got = emulate(AVX2, ["g++", "-mavx", "-O2", "-c", "a.cpp"])
    if "__AVX2__" in got:
        problems.append(
            "-mavx was taken for the declared flag -mavx2: %r" % sorted(got),
        )

    # Two declared flags with a common prefix: -mavx must still be ignored.
    try:
        got = emulate(AVX2 + AVX512, ["gcc", "-mavx", "-c", "a.c"])
        if got != set():
            problems.append("-mavx enabled something: %r" % sorted(got))
    except AssertionError as e:
        problems.append(str(e))

    # Built-in definitions only: clang declares -fsycl-is-device, not -fsycl.
    got = emulate("", ["clang++", "-fsycl", "-c", "a.cpp"])
    if got != set():
        problems.append(
            "clang++ -fsycl was taken for -fsycl-is-device: %r" % sorted(got),
        )

    os.chdir("/")
for p in problems:
    print("VIOLATION:", p)
assert not problems
print("ok")
