"""C12 demo 3: a built-in parser rule that the user configuration replaced
keeps selecting its default pass (and keeps stripping values).

The built-in nvcc definition only knows --gpu-architecture / --gpu-code /
-gencode.  Build systems mostly write -arch=sm_XX, so the user re-declares the
rule with the short spellings added.  Two user configurations that differ only
in the ORDER in which the spellings of that one rule are listed must behave
identically; with `-arch=sm_80` exactly the passes "default" and "sm_80" are
selected (override = true: using the flag replaces the default sm_70).
"""
import logging
import os
import tempfile
import warnings

warnings.simplefilter("ignore")
from codebasin import config  # noqa: E402

logging.disable(logging.CRITICAL)

RULE = r"""
[[compiler.nvcc.parser]]
flags = [%s]
action = "extend_match"
pattern = '(?:sm_|compute_)(\d+)'
format = "sm_$value"
dest = "passes"
default = ["sm_70"]
override = true
"""

BUILTIN_FIRST = RULE % '"--gpu-architecture", "--gpu-code", "-gencode", "-arch", "-code"'
SHORT_FIRST = RULE % '"-arch", "-code", "--gpu-architecture", "--gpu-code", "-gencode"'

# Same idea for icx: the user does not want a SYCL device pass for commands
# that do not ask for one, and re-declares -fsycl-targets without a default.
ICX_NO_DEFAULT = """
[[compiler.icx.parser]]
flags = ["-fsycl-targets"]
action = "store_split"
sep = ","
format = "sycl-$value"
dest = "passes"
"""


def emulate(user_config, argv):
    with open(".cbi/config", "w") as f:
        f.write(user_config)
    config._compilers = None
    config._load_compilers()
    configs = config.ArgumentParser(argv[0]).parse_args(argv[1:])
    return {c.pass_name: sorted(c.defines) for c in configs}


problems = []
with tempfile.TemporaryDirectory() as tmp:
    os.chdir(tmp)
    os.mkdir(".cbi")

    expected = {
        "default": ["__CUDACC__", "__NVCC__"],
        "sm_80": ["__CUDACC__", "__CUDA_ARCH__=800", "__NVCC__"],
    }
    for name, user in [("built-in spelling first", BUILTIN_FIRST), ("-arch first", SHORT_FIRST)]:
        for argv in (
            ["nvcc", "-arch=sm_80", "-c", "k.cu"],
            ["nvcc", "--gpu-architecture=sm_80", "-c", "k.cu"],
            ["nvcc", "-gencode", "arch=compute_80,code=sm_80", "-c", "k.cu"],
        ):
            got = emulate(user, argv)
            if got != expected:
                problems.append((name, argv, sorted(expected), sorted(got)))

    # The replaced rule's default pass must be gone as well.
    got = emulate(ICX_NO_DEFAULT, ["icpx", "-O2", "-c", "host_only.cpp"])
    if sorted(got) != ["default"]:
        problems.append(("icx rule without default", ["icpx", "-O2", "-c", "host_only.cpp"], ["default"], sorted(got)))

    os.chdir("/")

for name, argv, expected, got in problems:
    print("VIOLATION (%s): %s -> passes %s, expected %s" % (name, " ".join(argv), got, expected))
assert not problems
print("ok")
