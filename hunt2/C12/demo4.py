"""C12 demo 4: an extend_match rule with `override = true` forgets earlier
uses of the flag unless its destination is "passes".

The rule below is the built-in nvcc rule (extend_match, override = true) used
as a template for a flag that enables modes.  Each use of the flag enables
one more mode, exactly like each -gencode selects one more pass; `override`
only means that the first use replaces a default.  A flag that enables a mode
contributes the definitions declared for that mode, so a command line that
uses the flag twice must get the definitions of both modes.
"""
import logging
import os
import tempfile
import warnings

warnings.simplefilter("ignore")
from codebasin import config  # noqa: E402

logging.disable(logging.CRITICAL)

TEMPLATE = r"""
[compiler.hipcc]

[[compiler.hipcc.parser]]
flags = ["--offload-arch"]
action = "extend_match"
pattern = 'gfx(\w+)'
format = "gfx$value"
dest = "%s"
override = true

[[compiler.hipcc.%s]]
name = "gfx90a"
defines = ["__gfx90a__"]

[[compiler.hipcc.%s]]
name = "gfx942"
defines = ["__gfx942__"]
"""


def emulate(user_config, argv):
    with open(".cbi/config", "w") as f:
        f.write(user_config)
    config._compilers = None
    config._load_compilers()
    configs = config.ArgumentParser(argv[0]).parse_args(argv[1:])
    return {c.pass_name: sorted(c.defines) for c in configs}


argv = ["hipcc", "--offload-arch=gfx90a", "--offload-arch=gfx942", "-c", "k.cpp"]
with tempfile.TemporaryDirectory() as tmp:
    os.chdir(tmp)
    os.mkdir(".cbi")
    as_passes = emulate(TEMPLATE % ("passes", "passes", "passes"), argv)
    as_modes = emulate(TEMPLATE % ("modes", "modes", "modes"), argv)
    one_arg = emulate(
        TEMPLATE % ("modes", "modes", "modes"),
        ["hipcc", "--offload-arch=gfx90a,gfx942", "-c", "k.cpp"],
    )
    os.chdir("/")

# Sanity: as passes, both uses count (this is what nvcc's -gencode relies on).
assert as_passes == {
    "default": [],
    "gfx90a": ["__gfx90a__"],
    "gfx942": ["__gfx942__"],
}, as_passes
# Sanity: both modes in one value work.
assert one_arg == {"default": ["__gfx90a__", "__gfx942__"]}, one_arg

print("modes:", as_modes)
assert as_modes == {"default": ["__gfx90a__", "__gfx942__"]}, (
    "the second --offload-arch discarded the mode enabled by the first"
)
print("ok")
