#!/usr/bin/env python
"""C07 / finding 1: distance() and divergence() change when every count of the
table is multiplied by a common factor (once the sums pass 2**53), although
coverage() and average_coverage() on the very same tables do not.

Exits 0 if the property holds, fails an assertion otherwise.
"""
from fractions import Fraction

from codebasin.report import (
    average_coverage,
    coverage,
    distance,
    divergence,
)

A, B, AB = frozenset({"cpu"}), frozenset({"gpu"}), frozenset({"cpu", "gpu"})

# A table inside the quantified domain: two platforms, counts <= 10**12.
table = {A: 10**12, B: 1, AB: 1}
factor = 10**6
scaled = {k: v * factor for k, v in table.items()}

# Exact arithmetic: the Jaccard distance is a ratio, the factor cancels.
exact = Fraction(10**12 + 1, 10**12 + 2)
exact_scaled = Fraction((10**12 + 1) * factor, (10**12 + 2) * factor)
assert exact == exact_scaled
expected = float(exact)  # float(Fraction) is correctly rounded

# The other two metrics are invariant on exactly this pair of tables ...
assert coverage(table) == coverage(scaled)
assert average_coverage(table) == average_coverage(scaled)
# ... and the unscaled distance is the correctly rounded quotient.
assert distance(table, "cpu", "gpu") == expected

d = distance(table, "cpu", "gpu")
ds = distance(scaled, "cpu", "gpu")
print("distance   table:", repr(d), " scaled:", repr(ds), " exact:", expected)
cd = divergence(table)
cds = divergence(scaled)
print("divergence table:", repr(cd), " scaled:", repr(cds))

assert ds == d, f"distance changed under scaling by {factor}: {d!r} -> {ds!r}"
assert cds == cd, f"divergence changed under scaling: {cd!r} -> {cds!r}"

# A second shape: three platforms, several rows, factor 1000 only.
import itertools as it
import random

rng = random.Random(3)
names = list("abcdefgh")
keys = [frozenset(s) for r in range(9) for s in it.combinations(names, r)]
t8 = {k: rng.randint(1, 10**12) for k in keys}
t8s = {k: v * 1000 for k, v in t8.items()}
for p, q in it.combinations(names, 2):
    assert distance(t8, p, q) == distance(t8s, p, q), (p, q)
assert divergence(t8) == divergence(t8s)
print("ok")
