#!/usr/bin/env python
"""C07 / finding 2 (scope-adjacent: the clustering report of the distances).

Renaming the platforms must only rename the labels of the distance matrix.
With platform names that look like numbers the row labels are rewritten
("2024.1" -> "2024.10", "1e3" -> "1000.00"), so two different platforms carry
the same label and the distances are attributed to the wrong platform.

Exits 0 if every platform labels exactly one row of the printed matrix.
"""
import io
import logging
import os
import tempfile

from codebasin import report

logging.disable()
os.chdir(tempfile.mkdtemp())


def matrix_rows(names):
    a, b, c = names
    table = {
        frozenset({a}): 3,
        frozenset({b}): 5,
        frozenset({a, b}): 5,
        frozenset({c}): 2,
    }
    out = io.StringIO()
    report.clustering("dendrogram.png", table, out)
    rows = []
    for line in out.getvalue().splitlines():
        if line.startswith("│") and "│" in line[1:]:
            cells = [x.strip() for x in line.strip("│").split("│")]
            rows.append(cells)
    header, body = rows[0], rows[1:]
    return header, body


# Reference: ordinary names.
header, body = matrix_rows(["cpu", "gpu", "fpga"])
assert header[1:] == sorted(["cpu", "gpu", "fpga"])
assert [r[0] for r in body] == header[1:], body

# The same table with the platforms renamed (e.g. toolchain versions).
names = ["2024.1", "2024.10", "1e3"]
header2, body2 = matrix_rows(names)
labels = [r[0] for r in body2]
print("column labels:", header2[1:])
print("row labels   :", labels)
assert header2[1:] == sorted(names)
assert labels == header2[1:], (
    f"row labels {labels} do not name the platforms {header2[1:]}"
)
print("ok")
