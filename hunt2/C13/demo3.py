"""C13b finding 3: "-I is ignored for a directory that is also given with
-isystem" is decided on the (normalised) spelling of the two values, so an
absolute and a relative spelling of one directory - or two relative spellings
such as "." and "../build" - are not recognised as the same directory.

Exit 0 if the tree behaves as the property demands, non-zero otherwise.
"""
import json
import logging
import os
import re
import shutil
import subprocess
import sys
import tempfile
import warnings

warnings.simplefilter("ignore")
from codebasin import CodeBase, config, finder  # noqa: E402

logging.getLogger("codebasin").setLevel(logging.CRITICAL)


def reference(base, cwd, argv):
    r = subprocess.run(
        ["gcc", "-E"] + argv[1:],
        cwd=cwd,
        capture_output=True,
        text=True,
    )
    assert r.returncode == 0 and not r.stderr.strip(), r.stderr
    expected = set()
    for line in r.stdout.splitlines():
        m = re.match(r'# \d+ "([^<"][^"]*)"', line)
        if m:
            p = os.path.realpath(os.path.join(cwd, m.group(1)))
            if os.path.isfile(p) and p.startswith(base):
                expected.add(p)
    return expected


def analysed(base, root, db):
    dbpath = os.path.join(base, "compile_commands.json")
    with open(dbpath, "w") as f:
        json.dump(db, f)
    configuration = {"p": config.load_database(dbpath, root)}
    state = finder.find(
        root,
        CodeBase(root),
        configuration,
        summarize_only=False,
    )
    return {
        fn
        for fn, m in state.maps.items()
        if any("p" in s for s in m.values())
    }


base = os.path.realpath(tempfile.mkdtemp(prefix="c13b_demo3_"))
failures = []
try:
    root = os.path.join(base, "root")
    for d in ["src", "third_party/inc", "compat", "build"]:
        os.makedirs(os.path.join(root, d), exist_ok=True)

    def w(p, t):
        with open(os.path.join(root, p), "w") as f:
            f.write(t)

    w("src/main.c", "#include <zlib.h>\nint main(void) { return 0; }\n")
    w("third_party/inc/zlib.h", "int vendored_zlib;\n")
    w("compat/zlib.h", "int compat_zlib;\n")
    os.chdir(root)

    cases = {
        # absolute -I, relative -isystem
        "abs-vs-rel": (
            ".",
            [
                "gcc",
                "-I" + os.path.join(root, "third_party/inc"),
                "-Icompat",
                "-isystem",
                "third_party/inc",
                "-c",
                "src/main.c",
            ],
            "src/main.c",
        ),
        # two relative spellings of one directory, seen from build/
        "rel-vs-rel": (
            "build",
            [
                "gcc",
                "-I../third_party/inc",
                "-I../compat",
                "-isystem",
                "../../root/third_party/inc",
                "-c",
                "../src/main.c",
            ],
            "../src/main.c",
        ),
    }
    for name, (directory, argv, file) in cases.items():
        cwd = os.path.normpath(os.path.join(root, directory))
        expected = reference(base, cwd, argv)
        got = analysed(
            base,
            root,
            [{"directory": directory, "file": file, "arguments": argv}],
        )
        print(name)
        print("  gcc reads :", sorted(x[len(root):] for x in expected))
        print("  attributed:", sorted(x[len(root):] for x in got))
        # gcc drops the -I spelling of the -isystem directory, so that
        # directory is searched after compat/.
        assert os.path.join(root, "compat/zlib.h") in expected
        if got != expected:
            failures.append(name)
finally:
    os.chdir("/")
    shutil.rmtree(base, ignore_errors=True)
assert not failures, failures
sys.exit(0)
