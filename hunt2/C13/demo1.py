"""C13b finding 1: a database entry for a fixed-form Fortran file (.f, .F, .ftn,
.fpp, .FOR, .FTN, .FPP) aborts the whole analysis.

Exit 0 if the tree behaves as the property demands, non-zero otherwise.
"""
import json
import logging
import os
import shutil
import subprocess
import sys
import tempfile
import warnings

warnings.simplefilter("ignore")
from codebasin import CodeBase, config, finder  # noqa: E402

logging.getLogger("codebasin").setLevel(logging.CRITICAL)

base = os.path.realpath(tempfile.mkdtemp(prefix="c13b_demo1_"))
try:
    root = os.path.join(base, "root")
    legacy = os.path.join(base, "legacy")  # outside the analysis root
    os.makedirs(os.path.join(root, "src"))
    os.makedirs(legacy)
    with open(os.path.join(root, "src", "main.c"), "w") as f:
        f.write("int main(void) { return 0; }\n")
    with open(os.path.join(legacy, "solver.F"), "w") as f:
        f.write("      program solver\n      print *, 1\n      end\n")

    # The reference accepts the Fortran file without diagnostics.
    if shutil.which("gfortran"):
        r = subprocess.run(
            ["gfortran", "-cpp", "-E", "solver.F"],
            cwd=legacy,
            capture_output=True,
            text=True,
        )
        assert r.returncode == 0 and not r.stderr.strip(), r.stderr

    db = [
        {
            "directory": "src",
            "file": "main.c",
            "command": "gcc -c main.c",
        },
        {
            "directory": legacy,
            "file": "solver.F",
            "command": "gfortran -c solver.F",
        },
    ]
    dbpath = os.path.join(base, "compile_commands.json")
    with open(dbpath, "w") as f:
        json.dump(db, f)

    os.chdir(root)
    aborted = None
    attributed = set()
    try:
        configuration = {"p": config.load_database(dbpath, root)}
        state = finder.find(
            root,
            CodeBase(root),
            configuration,
            summarize_only=False,
        )
        for fn, m in state.maps.items():
            if any("p" in s for s in m.values()):
                attributed.add(fn)
    except Exception as e:  # noqa: BLE001
        aborted = e

    main_c = os.path.join(root, "src", "main.c")
    print("aborted:", repr(aborted))
    print("attributed:", sorted(attributed))
    # The entry for solver.F is either analysed or skipped with a warning;
    # in neither case may it abort or alter the analysis of main.c.
    assert aborted is None, f"analysis aborted: {aborted}"
    assert main_c in attributed
finally:
    os.chdir("/")
    shutil.rmtree(base, ignore_errors=True)
sys.exit(0)
