"""C13b finding 4: -imacros FILE (the macro-only sibling of -include, resolved
like it: first in the command's working directory) is not understood, so the
macros of that file are missing and the headers that the entry's file includes
under their control are not attributed to the platform.

Exit 0 if the tree behaves as the property demands, non-zero otherwise.
"""
import json
import logging
import os
import re
import shutil
import subprocess
import sys
import tempfile
import warnings

warnings.simplefilter("ignore")
from codebasin import CodeBase, config, finder  # noqa: E402

logging.getLogger("codebasin").setLevel(logging.CRITICAL)

base = os.path.realpath(tempfile.mkdtemp(prefix="c13b_demo4_"))
try:
    root = os.path.join(base, "root")
    for d in ["src", "build", "include"]:
        os.makedirs(os.path.join(root, d), exist_ok=True)

    def w(p, t):
        with open(os.path.join(root, p), "w") as f:
            f.write(t)

    w(
        "src/main.c",
        "#ifdef HAVE_FAST_PATH\n"
        '#include "fast.h"\n'
        "#else\n"
        '#include "slow.h"\n'
        "#endif\n"
        "int main(void) { return 0; }\n",
    )
    w("include/fast.h", "int fast;\n")
    w("include/slow.h", "int slow;\n")
    w("build/autoconf.h", "#define HAVE_FAST_PATH 1\n")

    directory = "build"
    argv = [
        "gcc",
        "-imacros",
        "autoconf.h",
        "-I../include",
        "-c",
        "../src/main.c",
    ]
    cwd = os.path.join(root, directory)

    r = subprocess.run(
        ["gcc", "-E"] + argv[1:],
        cwd=cwd,
        capture_output=True,
        text=True,
    )
    assert r.returncode == 0 and not r.stderr.strip(), r.stderr
    expected = set()
    for line in r.stdout.splitlines():
        m = re.match(r'# \d+ "([^<"][^"]*)"', line)
        if m:
            p = os.path.realpath(os.path.join(cwd, m.group(1)))
            if os.path.isfile(p) and p.startswith(base):
                expected.add(p)

    db = [{"directory": directory, "file": "../src/main.c", "arguments": argv}]
    dbpath = os.path.join(base, "compile_commands.json")
    with open(dbpath, "w") as f:
        json.dump(db, f)

    os.chdir(root)
    configuration = {"p": config.load_database(dbpath, root)}
    state = finder.find(
        root,
        CodeBase(root),
        configuration,
        summarize_only=False,
    )
    got = {
        fn
        for fn, m in state.maps.items()
        if any("p" in s for s in m.values())
    }
    print("gcc reads :", sorted(x[len(root):] for x in expected))
    print("attributed:", sorted(x[len(root):] for x in got))
    fast = os.path.join(root, "include/fast.h")
    slow = os.path.join(root, "include/slow.h")
    assert fast in expected and slow not in expected
    # What main.c includes for this entry is fast.h, not slow.h.
    assert fast in got, "fast.h is not attributed"
    assert slow not in got, "slow.h is attributed"
finally:
    os.chdir("/")
    shutil.rmtree(base, ignore_errors=True)
sys.exit(0)
