"""C13b finding 5: the blanks of a header name written in angle brackets are
dropped (#include <my libs/util.h> is looked up as "mylibs/util.h"), so a header
reached through an -I directory whose sub-directory has a blank in its name is
not found and not attributed; the quoted form of the same name works.

Exit 0 if the tree behaves as the property demands, non-zero otherwise.
"""
import json
import logging
import os
import re
import shutil
import subprocess
import sys
import tempfile
import warnings

warnings.simplefilter("ignore")
from codebasin import CodeBase, config, finder  # noqa: E402

logging.getLogger("codebasin").setLevel(logging.CRITICAL)

base = os.path.realpath(tempfile.mkdtemp(prefix="c13b_demo5_"))
try:
    root = os.path.join(base, "root")
    for d in ["src", "build", "include/my libs"]:
        os.makedirs(os.path.join(root, d), exist_ok=True)

    def w(p, t):
        with open(os.path.join(root, p), "w") as f:
            f.write(t)

    w("src/main.c", "#include <my libs/util.h>\nint main(void) { return 0; }\n")
    w("include/my libs/util.h", "int util;\n")

    directory = "build"
    argv = ["gcc", "-I", "../include", "-c", "../src/main.c"]
    cwd = os.path.join(root, directory)

    r = subprocess.run(
        ["gcc", "-E"] + argv[1:],
        cwd=cwd,
        capture_output=True,
        text=True,
    )
    assert r.returncode == 0 and not r.stderr.strip(), r.stderr
    expected = set()
    for line in r.stdout.splitlines():
        m = re.match(r'# \d+ "([^<"][^"]*)"', line)
        if m:
            p = os.path.realpath(os.path.join(cwd, m.group(1)))
            if os.path.isfile(p) and p.startswith(base):
                expected.add(p)

    db = [{"directory": directory, "file": "../src/main.c", "arguments": argv}]
    dbpath = os.path.join(base, "compile_commands.json")
    with open(dbpath, "w") as f:
        json.dump(db, f)

    os.chdir(root)
    configuration = {"p": config.load_database(dbpath, root)}
    state = finder.find(
        root,
        CodeBase(root),
        configuration,
        summarize_only=False,
    )
    got = {
        fn
        for fn, m in state.maps.items()
        if any("p" in s for s in m.values())
    }
    print("gcc reads :", sorted(x[len(root):] for x in expected))
    print("attributed:", sorted(x[len(root):] for x in got))
    assert os.path.join(root, "include/my libs/util.h") in expected
    assert got == expected
finally:
    os.chdir("/")
    shutil.rmtree(base, ignore_errors=True)
sys.exit(0)
