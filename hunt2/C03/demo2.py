#!/usr/bin/env python
"""
C03b finding 2: `defined` is treated as the #if operator while the operand of
a computed #include is macro-expanded. Outside #if/#elif `defined` is an
ordinary identifier, so
    #define CFG_HDR <user-defined/config.h>
    #include CFG_HDR
must include user-defined/config.h. The tree raises ParseError("Expected
identifier after 'defined'") out of finder.find() instead.

Exits 0 if the tree behaves like a conforming preprocessor, non-zero
(failing assert) otherwise.
"""
import logging
import re
import shutil
import subprocess
import tempfile
from pathlib import Path

from codebasin import CodeBase, finder

logging.disable(logging.CRITICAL)

FILES = {
    "inc/user-defined/config.h": "int from_config;\n",
    "inc/defined.h": "int from_defined_h;\n",
    "main.c": """\
#define CFG_HDR <user-defined/config.h>
#include CFG_HDR
#define STR(x) #x
#define XSTR(x) STR(x)
#define NAME defined
#include XSTR(NAME.h)
int from_main;
""",
}


def associated_lines(state, name="P"):
    lines = []
    for fn in state.get_filenames():
        tree = state.get_tree(fn)
        assoc = state.get_map(fn)
        for node in tree.walk():
            if type(node).__name__ == "CodeNode" and name in assoc[node]:
                lines.extend(node.source or [])
    return " ".join(lines)


def main():
    d = tempfile.mkdtemp(prefix="c03b_demo2_")
    try:
        for name, text in FILES.items():
            path = Path(d) / name
            path.parent.mkdir(parents=True, exist_ok=True)
            path.write_text(text)
        src = Path(d) / "main.c"
        inc = Path(d) / "inc"

        # Reference: gcc accepts the input without any diagnostic.
        r = subprocess.run(
            [
                "gcc",
                "-E",
                "-P",
                "-std=c11",
                "-pedantic",
                "-Wall",
                f"-I{inc}",
                str(src),
            ],
            capture_output=True,
            text=True,
        )
        assert r.returncode == 0 and not r.stderr.strip(), r.stderr
        expected = sorted(re.findall(r"from_\w+", r.stdout))
        assert expected == ["from_config", "from_defined_h", "from_main"]

        codebase = CodeBase(d)
        cfg = {
            "P": [
                {
                    "file": str(src),
                    "defines": [],
                    "include_paths": [str(inc)],
                    "include_files": [],
                },
            ],
        }
        error = None
        got = None
        try:
            state = finder.find(d, codebase, cfg, summarize_only=False)
            got = sorted(set(re.findall(r"from_\w+", associated_lines(state))))
        except Exception as e:  # noqa: BLE001
            error = e
        print("gcc keeps:", expected)
        print("codebasin:", got if error is None else f"raised {error!r}")
        assert error is None, f"finder.find() raised {error!r}"
        assert got == expected, f"expected {expected}, got {got}"
    finally:
        shutil.rmtree(d, ignore_errors=True)


if __name__ == "__main__":
    main()
