#!/usr/bin/env python
"""
C03b finding 5: `x ## y` between two tokens of the replacement list that are
not parameters is pasted when the macro is *defined*; the pasted identifier is
then an ordinary member of the replacement list and is substituted again if it
happens to be spelled like a parameter:

    #define F(xy) x ## y
    F(1)            -> xy        (C: substitution happens before ##)
                    -> 1         (this tree)

Exits 0 if the tree behaves like a conforming preprocessor, non-zero
(failing assert) otherwise.
"""
import logging
import re
import shutil
import subprocess
import tempfile
from pathlib import Path

from codebasin import CodeBase, finder
from codebasin import preprocessor as pp
from codebasin.platform import Platform

logging.disable(logging.CRITICAL)

SOURCE = """\
#define F(xy) x ## y
#define xy 0
#define G(ab, c) [ab] a ## b c ## 1
#if F(1) == 0
int paste_ok;
#else
int paste_bad;
#endif
"""
LINE = "F(1) G(7, z)"


def associated_lines(state, name="P"):
    lines = []
    for fn in state.get_filenames():
        tree = state.get_tree(fn)
        assoc = state.get_map(fn)
        for node in tree.walk():
            if type(node).__name__ == "CodeNode" and name in assoc[node]:
                lines.extend(node.source or [])
    return " ".join(lines)


def main():
    d = tempfile.mkdtemp(prefix="c03b_demo5_")
    try:
        src = Path(d) / "main.c"
        src.write_text(SOURCE + LINE + "\n")
        r = subprocess.run(
            ["gcc", "-E", "-P", "-std=c11", "-pedantic", "-Wall", str(src)],
            capture_output=True,
            text=True,
        )
        assert r.returncode == 0 and not r.stderr.strip(), r.stderr
        expected_lines = sorted(re.findall(r"paste_\w+", r.stdout))
        assert expected_lines == ["paste_ok"], expected_lines
        expected_toks = r.stdout.strip().splitlines()[-1].split()
        # F(1) -> xy -> 0 ; G(7, z) -> [7] ab z1
        assert expected_toks == ["0", "[7]", "ab", "z1"], expected_toks

        p = Platform("P", d)
        for line in SOURCE.splitlines()[:3]:
            node = pp.DirectiveParser(pp.Lexer(line).tokenize()).parse()
            node.evaluate_for_platform(platform=p, filename=str(src))
        toks = pp.MacroExpander(p).expand(pp.Lexer(LINE).tokenize())
        got_toks = "".join(
            (" " if t.prev_white else "") + str(t.token) for t in toks
        ).split()
        print("gcc      :", expected_toks)
        print("codebasin:", got_toks)

        src.write_text(SOURCE)
        codebase = CodeBase(d)
        cfg = {
            "P": [
                {
                    "file": str(src),
                    "defines": [],
                    "include_paths": [],
                    "include_files": [],
                },
            ],
        }
        state = finder.find(d, codebase, cfg, summarize_only=False)
        got_lines = sorted(set(re.findall(r"paste_\w+", associated_lines(state))))
        print("gcc keeps:", expected_lines, " codebasin keeps:", got_lines)

        assert got_toks == expected_toks, f"{got_toks} != {expected_toks}"
        assert got_lines == expected_lines, f"{got_lines} != {expected_lines}"
    finally:
        shutil.rmtree(d, ignore_errors=True)


if __name__ == "__main__":
    main()
