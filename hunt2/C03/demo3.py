#!/usr/bin/env python
"""
C03b finding 3: a string literal that ends in an escaped backslash ("\\\\", i.e.
the two characters backslash backslash between the quotes) is not lexed as one
token: Lexer.string_constant() treats every `\\"` as an escaped quote without
asking whether the backslash is itself escaped. The literal then runs on to the
next quote on the line, which moves the commas and parentheses of a macro
invocation into or out of "strings":

    #define THIRD(a, b, c) c
    #if THIRD("\\\\", "a", 2) == 2      -> true  (gcc, clang)
                                       -> THIRD gets two arguments, the #if
                                          cannot be evaluated (this tree)

Exits 0 if the tree behaves like a conforming preprocessor, non-zero
(failing assert) otherwise.
"""
import logging
import re
import shutil
import subprocess
import tempfile
from pathlib import Path

from codebasin import CodeBase, finder
from codebasin import preprocessor as pp
from codebasin.platform import Platform

logging.disable(logging.CRITICAL)

SOURCE = r"""#define THIRD(a, b, c) c
#define STR(x) #x
#if THIRD("\\", "a", 2) == 2
int str_ok;
#else
int str_bad;
#endif
"""
LINE = r'STR("\\") THIRD("\\", "x", y)'


def associated_lines(state, name="P"):
    lines = []
    for fn in state.get_filenames():
        tree = state.get_tree(fn)
        assoc = state.get_map(fn)
        for node in tree.walk():
            if type(node).__name__ == "CodeNode" and name in assoc[node]:
                lines.extend(node.source or [])
    return " ".join(lines)


def main():
    d = tempfile.mkdtemp(prefix="c03b_demo3_")
    try:
        src = Path(d) / "main.c"
        src.write_text(SOURCE + LINE + "\n")
        r = subprocess.run(
            ["gcc", "-E", "-P", "-std=c11", "-pedantic", "-Wall", str(src)],
            capture_output=True,
            text=True,
        )
        assert r.returncode == 0 and not r.stderr.strip(), r.stderr
        expected_lines = sorted(re.findall(r"str_\w+", r.stdout))
        assert expected_lines == ["str_ok"], expected_lines
        expected_toks = r.stdout.strip().splitlines()[-1].split()
        assert expected_toks == [r'"\"\\\\\""', "y"], expected_toks

        p = Platform("P", d)
        for line in SOURCE.splitlines()[:2]:
            node = pp.DirectiveParser(pp.Lexer(line).tokenize()).parse()
            node.evaluate_for_platform(platform=p, filename=str(src))
        toks = pp.MacroExpander(p).expand(pp.Lexer(LINE).tokenize())
        got_toks = [
            f'"{t.token}"' if isinstance(t, pp.StringConstant) else str(t.token)
            for t in toks
        ]
        print("gcc      :", expected_toks)
        print("codebasin:", got_toks)

        src.write_text(SOURCE)
        codebase = CodeBase(d)
        cfg = {
            "P": [
                {
                    "file": str(src),
                    "defines": [],
                    "include_paths": [],
                    "include_files": [],
                },
            ],
        }
        error = None
        got_lines = None
        try:
            state = finder.find(d, codebase, cfg, summarize_only=False)
            got_lines = sorted(
                set(re.findall(r"str_\w+", associated_lines(state))),
            )
        except Exception as e:  # noqa: BLE001
            error = e
        print(
            "gcc keeps:",
            expected_lines,
            " codebasin:",
            got_lines if error is None else f"raised {error!r}",
        )

        assert got_toks == expected_toks, f"{got_toks} != {expected_toks}"
        assert error is None, f"finder.find() raised {error!r}"
        assert got_lines == expected_lines, f"{got_lines} != {expected_lines}"
    finally:
        shutil.rmtree(d, ignore_errors=True)


if __name__ == "__main__":
    main()
