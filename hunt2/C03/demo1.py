#!/usr/bin/env python
"""
C03b finding 1: pasting an encoding prefix onto a character constant
(L ## 'A', the Windows _T()/TEXT() idiom) yields the identifier `LA`
instead of the wide character constant L'A'.

Exits 0 if the tree behaves like a conforming preprocessor, non-zero
(failing assert) otherwise.
"""
import logging
import re
import shutil
import subprocess
import tempfile
from pathlib import Path

from codebasin import CodeBase, finder
from codebasin import preprocessor as pp
from codebasin.platform import Platform

logging.disable(logging.CRITICAL)

SOURCE = """\
#define __T(x) L ## x
#define _T(x) __T(x)
#define WIDE_A L ## 'A'
#define U16(c) u ## c
#if _T('A') == 65
int wide_ok;
#else
int wide_bad;
#endif
#if WIDE_A == 65 && U16('B') == 66
int wide_ok2;
#else
int wide_bad2;
#endif
"""


def associated_lines(state, name="P"):
    lines = []
    for fn in state.get_filenames():
        tree = state.get_tree(fn)
        assoc = state.get_map(fn)
        for node in tree.walk():
            if type(node).__name__ == "CodeNode" and name in assoc[node]:
                lines.extend(node.source or [])
    return " ".join(lines)


def main():
    d = tempfile.mkdtemp(prefix="c03b_demo1_")
    try:
        src = Path(d) / "main.c"
        src.write_text(SOURCE)

        # Reference: gcc accepts the input without any diagnostic.
        r = subprocess.run(
            ["gcc", "-E", "-P", "-std=c11", "-pedantic", "-Wall", str(src)],
            capture_output=True,
            text=True,
        )
        assert r.returncode == 0 and not r.stderr.strip(), r.stderr
        expected = sorted(re.findall(r"wide_\w+", r.stdout))
        assert expected == ["wide_ok", "wide_ok2"], expected

        # Token stream: _T('A') must be the single token L'A'.
        p = Platform("P", d)
        for line in SOURCE.splitlines()[:2]:
            node = pp.DirectiveParser(pp.Lexer(line).tokenize()).parse()
            node.evaluate_for_platform(platform=p, filename=str(src))
        toks = pp.MacroExpander(p).expand(pp.Lexer("_T('A')").tokenize())
        print("tokens of _T('A'):", toks)

        # #if truth value, end to end.
        codebase = CodeBase(d)
        cfg = {
            "P": [
                {
                    "file": str(src),
                    "defines": [],
                    "include_paths": [],
                    "include_files": [],
                },
            ],
        }
        state = finder.find(d, codebase, cfg, summarize_only=False)
        got = sorted(re.findall(r"wide_\w+", associated_lines(state)))
        print("gcc keeps:", expected, " codebasin keeps:", got)

        assert len(toks) == 1 and isinstance(toks[0], pp.CharacterConstant), (
            f"L ## 'A' did not give a character constant: {toks}"
        )
        assert got == expected, f"expected {expected}, got {got}"
    finally:
        shutil.rmtree(d, ignore_errors=True)


if __name__ == "__main__":
    main()
