#!/usr/bin/env python
"""
C03b finding 4: the result of ## is re-lexed with Lexer.tokenize_one(), whose
operator table lacks -> ++ -- += -= *= /= %= &= |= ^= <<= >>=; only the first
token that the lexer recognises is kept and the rest of the spelling is
silently dropped. CAT(-,>) therefore yields `-` instead of `->`, CAT(+,+)
yields `+`, CAT(<<,=) yields `<<`.

The token stream is compared with `gcc -E`, and the effect is shown end to
end with a computed #include whose name is built by ## and #.

Exits 0 if the tree behaves like a conforming preprocessor, non-zero
(failing assert) otherwise.
"""
import logging
import re
import shutil
import subprocess
import tempfile
from pathlib import Path

from codebasin import CodeBase, finder
from codebasin import preprocessor as pp
from codebasin.platform import Platform

logging.disable(logging.CRITICAL)

DEFS = [
    "#define CAT(a, b) a ## b",
    "#define ARROW - ## >",
    "#define STR(x) #x",
    "#define XSTR(x) STR(x)",
]
LINE = "XSTR(CAT(-,>)) XSTR(CAT(+,+)) XSTR(CAT(<<,=)) XSTR(CAT(-,=)) XSTR(ARROW)"

FILES = {
    "x->y.h": "int from_header;\n",
    "main.c": "\n".join(DEFS)
    + "\n#include XSTR(CAT(x-,>y.h))\nint from_main;\n",
}


def associated_lines(state, name="P"):
    lines = []
    for fn in state.get_filenames():
        tree = state.get_tree(fn)
        assoc = state.get_map(fn)
        for node in tree.walk():
            if type(node).__name__ == "CodeNode" and name in assoc[node]:
                lines.extend(node.source or [])
    return " ".join(lines)


def main():
    d = tempfile.mkdtemp(prefix="c03b_demo4_")
    try:
        # --- token stream ------------------------------------------------
        r = subprocess.run(
            ["gcc", "-E", "-P", "-std=c11", "-pedantic", "-Wall", "-x", "c", "-"],
            input="\n".join(DEFS) + "\n" + LINE + "\n",
            capture_output=True,
            text=True,
        )
        assert r.returncode == 0 and not r.stderr.strip(), r.stderr
        expected = re.findall(r'"([^"]*)"', r.stdout)
        assert expected == ["->", "++", "<<=", "-=", "->"], expected

        p = Platform("P", d)
        for line in DEFS:
            node = pp.DirectiveParser(pp.Lexer(line).tokenize()).parse()
            node.evaluate_for_platform(platform=p, filename="main.c")
        toks = pp.MacroExpander(p).expand(pp.Lexer(LINE).tokenize())
        got = [t.token for t in toks]
        print("gcc      :", expected)
        print("codebasin:", got)

        # --- end to end: computed include --------------------------------
        for name, text in FILES.items():
            (Path(d) / name).write_text(text)
        src = Path(d) / "main.c"
        r = subprocess.run(
            ["gcc", "-E", "-P", "-std=c11", "-pedantic", "-Wall", str(src)],
            capture_output=True,
            text=True,
        )
        assert r.returncode == 0 and not r.stderr.strip(), r.stderr
        expected_lines = sorted(re.findall(r"from_\w+", r.stdout))
        assert expected_lines == ["from_header", "from_main"]

        codebase = CodeBase(d)
        cfg = {
            "P": [
                {
                    "file": str(src),
                    "defines": [],
                    "include_paths": [],
                    "include_files": [],
                },
            ],
        }
        state = finder.find(d, codebase, cfg, summarize_only=False)
        got_lines = sorted(set(re.findall(r"from_\w+", associated_lines(state))))
        print("gcc keeps:", expected_lines, " codebasin keeps:", got_lines)

        assert got == expected, f"expected {expected}, got {got}"
        assert got_lines == expected_lines
    finally:
        shutil.rmtree(d, ignore_errors=True)


if __name__ == "__main__":
    main()
