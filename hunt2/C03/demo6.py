#!/usr/bin/env python
"""
C03b finding 6: the operands of ## are looked up in the parameter list by their
`.token` text without checking that they are identifiers. The text of a
character or string constant does not include its quotes, so a constant whose
content is spelled like a parameter ('c' / "a" next to parameter c / a) is
replaced by the argument:

    #define G(c) c ## 'c'
    G()          -> 'c'      (C: c is empty, ## with a placemarker keeps 'c')
                 -> nothing  (this tree: 'c' is taken for the parameter c)

Exits 0 if the tree behaves like a conforming preprocessor, non-zero
(failing assert) otherwise.
"""
import logging
import re
import shutil
import subprocess
import tempfile
from pathlib import Path

from codebasin import CodeBase, finder
from codebasin import preprocessor as pp
from codebasin.platform import Platform

logging.disable(logging.CRITICAL)

SOURCE = """\
#define G(c) c ## 'c'
#define H(a) "a" ## a
#define K(x, y) x ## 'y' - y ## 'x'
#if G() == 99
int lit_ok;
#else
int lit_bad;
#endif
#if K(,) == 1
int lit_ok2;
#else
int lit_bad2;
#endif
"""
LINE = "G() H() K(,)"


def associated_lines(state, name="P"):
    lines = []
    for fn in state.get_filenames():
        tree = state.get_tree(fn)
        assoc = state.get_map(fn)
        for node in tree.walk():
            if type(node).__name__ == "CodeNode" and name in assoc[node]:
                lines.extend(node.source or [])
    return " ".join(lines)


def main():
    d = tempfile.mkdtemp(prefix="c03b_demo6_")
    try:
        src = Path(d) / "main.c"
        src.write_text(SOURCE + LINE + "\n")
        r = subprocess.run(
            ["gcc", "-E", "-P", "-std=c11", "-pedantic", "-Wall", str(src)],
            capture_output=True,
            text=True,
        )
        assert r.returncode == 0 and not r.stderr.strip(), r.stderr
        expected_lines = sorted(re.findall(r"lit_\w+", r.stdout))
        assert expected_lines == ["lit_ok", "lit_ok2"], expected_lines
        expected_toks = r.stdout.strip().splitlines()[-1].split()
        assert expected_toks == ["'c'", '"a"', "'y'", "-", "'x'"], expected_toks

        p = Platform("P", d)
        for line in SOURCE.splitlines()[:3]:
            node = pp.DirectiveParser(pp.Lexer(line).tokenize()).parse()
            node.evaluate_for_platform(platform=p, filename=str(src))
        toks = pp.MacroExpander(p).expand(pp.Lexer(LINE).tokenize())
        got_toks = []
        for t in toks:
            if isinstance(t, pp.CharacterConstant):
                got_toks.append(f"{t.prefix}'{t.token}'")
            elif isinstance(t, pp.StringConstant):
                got_toks.append(f'"{t.token}"')
            else:
                got_toks.append(str(t.token))
        print("gcc      :", expected_toks)
        print("codebasin:", got_toks)

        src.write_text(SOURCE)
        codebase = CodeBase(d)
        cfg = {
            "P": [
                {
                    "file": str(src),
                    "defines": [],
                    "include_paths": [],
                    "include_files": [],
                },
            ],
        }
        error = None
        got_lines = None
        try:
            state = finder.find(d, codebase, cfg, summarize_only=False)
            got_lines = sorted(
                set(re.findall(r"lit_\w+", associated_lines(state))),
            )
        except Exception as e:  # noqa: BLE001
            error = e
        print(
            "gcc keeps:",
            expected_lines,
            " codebasin:",
            got_lines if error is None else f"raised {error!r}",
        )

        assert got_toks == expected_toks, f"{got_toks} != {expected_toks}"
        assert error is None, f"finder.find() raised {error!r}"
        assert got_lines == expected_lines, f"{got_lines} != {expected_lines}"
    finally:
        shutil.rmtree(d, ignore_errors=True)


if __name__ == "__main__":
    main()
