#!/usr/bin/env python3
"""
C18 demo 4: a source file (or header) that is reached through a symbolic
link.  The compiler looks for a quoted include next to the file *as it was
named*; the analysis looks next to the link's target, does not find the
header, and reports a missing include although every #include resolves.

Reference: `gcc -E` on both commands succeeds without any diagnostic.

Exits 0 if the analysis issues no warning, non-zero otherwise.
"""
import json
import os
import re
import shutil
import subprocess
import sys
import tempfile


def write(root, files):
    for rel, content in files.items():
        path = os.path.join(root, rel)
        os.makedirs(os.path.dirname(path), exist_ok=True)
        with open(path, "w") as f:
            f.write(content)


def run_cbi(root, platforms):
    """Run `python -m codebasin` (package from PYTHONPATH) with cwd=root.
    Returns (issued warnings, totals printed at the end)."""
    toml = []
    for name, db in platforms.items():
        with open(os.path.join(root, f"{name}.json"), "w") as f:
            json.dump(db, f)
        toml.append(f'[platform.{name}]\ncommands = "{name}.json"\n')
    with open(os.path.join(root, "analysis.toml"), "w") as f:
        f.write("\n".join(toml))
    p = subprocess.run(
        [sys.executable, "-W", "ignore", "-m", "codebasin", "-R", "summary",
         "analysis.toml"],
        cwd=root, capture_output=True, text=True,
    )
    assert p.returncode == 0, f"codebasin failed:\n{p.stdout}\n{p.stderr}"
    with open(os.path.join(root, "cbi.log")) as f:
        log = f.read()
    msgs = re.split(r"(?m)^(?=warning: |error: )", log)
    issued, totals = [], {"all": 0, "user": 0, "system": 0}
    for m in msgs:
        if not m.startswith("warning: "):
            continue
        w = m[len("warning: "):].rstrip("\n")
        for key, pat in [("all", r"(\d+) warnings generated during"),
                         ("user", r"(\d+) user include files could not"),
                         ("system", r"(\d+) system include files could not")]:
            t = re.match(pat, w)
            if t:
                totals[key] = int(t.group(1))
                break
        else:
            issued.append(w)
    return issued, totals

root = tempfile.mkdtemp(prefix="c18b_demo4_")
try:
    write(root, {
        # a shared source that is linked into each build directory, where a
        # build-specific configuration header sits next to it
        "common/solver.c": '#include "build_config.h"\nint solve(void) { return N; }\n',
        "common/solver.h": '#include "build_config.h"\nint solve(void);\n',
        "build_a/build_config.h": "#pragma once\n#define N 1\n",
        "build_a/main.c": '#include "solver.h"\nint main(void) { return solve(); }\n',
    })
    os.symlink("../common/solver.c", os.path.join(root, "build_a/solver.c"))
    os.symlink("../common/solver.h", os.path.join(root, "build_a/solver.h"))

    db = []
    for tu in ["build_a/solver.c", "build_a/main.c"]:
        ref = subprocess.run(["gcc", "-E", tu], cwd=root, capture_output=True, text=True)
        assert ref.returncode == 0 and ref.stderr == "", ref.stderr
        assert "build_a/build_config.h" in ref.stdout
        db.append({"file": tu, "directory": root, "arguments": ["gcc", "-c", tu]})
    print("gcc -E: both translation units preprocess without diagnostics")

    issued, totals = run_cbi(root, {"a": db})
    for w in issued:
        print("issued:", w.replace(root, "<root>"))
    print("totals:", totals)
    assert issued == [] and totals["all"] == 0, (
        "every #include resolves to a file, yet missing includes are reported")
finally:
    shutil.rmtree(root)
print("OK")
