#!/usr/bin/env python3
"""
C18 demo 3: one unrecognised directive in a header without a recognised
extension (here an X-macro table "ops.def") is reported twice when the
header is included from a C file and from a C++ file, but once when both
including files are C (or both C++).  "One warning per occurrence" cannot
depend on the languages of the including files.

Reference: `#ident "..."` is accepted by gcc without any diagnostic; the
analysis does not know it and (rightly) says so - but it must say so once.

Exits 0 if the number of warnings is the same in both layouts.
"""
import json
import os
import re
import shutil
import subprocess
import sys
import tempfile


def write(root, files):
    for rel, content in files.items():
        path = os.path.join(root, rel)
        os.makedirs(os.path.dirname(path), exist_ok=True)
        with open(path, "w") as f:
            f.write(content)


def run_cbi(root, platforms):
    """Run `python -m codebasin` (package from PYTHONPATH) with cwd=root.
    Returns (issued warnings, totals printed at the end)."""
    toml = []
    for name, db in platforms.items():
        with open(os.path.join(root, f"{name}.json"), "w") as f:
            json.dump(db, f)
        toml.append(f'[platform.{name}]\ncommands = "{name}.json"\n')
    with open(os.path.join(root, "analysis.toml"), "w") as f:
        f.write("\n".join(toml))
    p = subprocess.run(
        [sys.executable, "-W", "ignore", "-m", "codebasin", "-R", "summary",
         "analysis.toml"],
        cwd=root, capture_output=True, text=True,
    )
    assert p.returncode == 0, f"codebasin failed:\n{p.stdout}\n{p.stderr}"
    with open(os.path.join(root, "cbi.log")) as f:
        log = f.read()
    msgs = re.split(r"(?m)^(?=warning: |error: )", log)
    issued, totals = [], {"all": 0, "user": 0, "system": 0}
    for m in msgs:
        if not m.startswith("warning: "):
            continue
        w = m[len("warning: "):].rstrip("\n")
        for key, pat in [("all", r"(\d+) warnings generated during"),
                         ("user", r"(\d+) user include files could not"),
                         ("system", r"(\d+) system include files could not")]:
            t = re.match(pat, w)
            if t:
                totals[key] = int(t.group(1))
                break
        else:
            issued.append(w)
    return issued, totals


def count(second_tu):
    root = tempfile.mkdtemp(prefix="c18b_demo3_")
    try:
        write(root, {
            "src/ops.def": '#ident "$Id: ops.def 1.4 $"\nOP(add)\nOP(sub)\n',
            "src/a.c": '#define OP(x) int op_##x;\n#include "ops.def"\n',
            "src/" + second_tu: '#define OP(x) int op2_##x;\n#include "ops.def"\n',
        })
        for tu, cc in [("src/a.c", "gcc"), ("src/" + second_tu, "gcc")]:
            ref = subprocess.run([cc, "-E", tu], cwd=root, capture_output=True, text=True)
            assert ref.returncode == 0 and ref.stderr == "", ref.stderr
        db = [
            {"file": "src/a.c", "directory": root,
             "arguments": ["gcc", "-c", "src/a.c"]},
            {"file": "src/" + second_tu, "directory": root,
             "arguments": ["g++" if second_tu.endswith("pp") else "gcc", "-c",
                           "src/" + second_tu]},
        ]
        issued, totals = run_cbi(root, {"cpu": db})
        for w in issued:
            print(f"  [{second_tu}] issued:", w.replace(root, "<root>"))
        print(f"  [{second_tu}] totals:", totals)
        assert totals["all"] == len(issued)
        return len([w for w in issued if "ops.def:1:" in w and "unrecognized directive" in w])
    finally:
        shutil.rmtree(root)


same_language = count("b.c")
mixed_language = count("b.cpp")
print("warnings for the one #ident line: C+C:", same_language, " C+C++:", mixed_language)
assert same_language == 1
assert mixed_language == same_language, (
    "the single unrecognised directive in ops.def is reported "
    f"{mixed_language} times when the includers are C and C++")
print("OK")
