#!/usr/bin/env python3
"""
C18 demo 5: a command line that the analysis honours completely still gets
an "Unrecognized arguments" warning: a source file written after an option
that follows another source file (`gcc -O2 main.c -o prog util.c`) is
reported as an unrecognised argument.

Reference: gcc runs exactly this command without any diagnostic.

Exits 0 if no warning is issued, non-zero otherwise.
"""
import json
import os
import re
import shutil
import subprocess
import sys
import tempfile


def write(root, files):
    for rel, content in files.items():
        path = os.path.join(root, rel)
        os.makedirs(os.path.dirname(path), exist_ok=True)
        with open(path, "w") as f:
            f.write(content)


def run_cbi(root, platforms):
    """Run `python -m codebasin` (package from PYTHONPATH) with cwd=root.
    Returns (issued warnings, totals printed at the end)."""
    toml = []
    for name, db in platforms.items():
        with open(os.path.join(root, f"{name}.json"), "w") as f:
            json.dump(db, f)
        toml.append(f'[platform.{name}]\ncommands = "{name}.json"\n')
    with open(os.path.join(root, "analysis.toml"), "w") as f:
        f.write("\n".join(toml))
    p = subprocess.run(
        [sys.executable, "-W", "ignore", "-m", "codebasin", "-R", "summary",
         "analysis.toml"],
        cwd=root, capture_output=True, text=True,
    )
    assert p.returncode == 0, f"codebasin failed:\n{p.stdout}\n{p.stderr}"
    with open(os.path.join(root, "cbi.log")) as f:
        log = f.read()
    msgs = re.split(r"(?m)^(?=warning: |error: )", log)
    issued, totals = [], {"all": 0, "user": 0, "system": 0}
    for m in msgs:
        if not m.startswith("warning: "):
            continue
        w = m[len("warning: "):].rstrip("\n")
        for key, pat in [("all", r"(\d+) warnings generated during"),
                         ("user", r"(\d+) user include files could not"),
                         ("system", r"(\d+) system include files could not")]:
            t = re.match(pat, w)
            if t:
                totals[key] = int(t.group(1))
                break
        else:
            issued.append(w)
    return issued, totals

root = tempfile.mkdtemp(prefix="c18b_demo5_")
try:
    write(root, {
        "main.c": "int util(void);\nint main(void) { return util(); }\n",
        "util.c": "int util(void) { return 0; }\n",
    })
    argv = ["gcc", "-O2", "-DNDEBUG", "main.c", "-o", "prog", "util.c"]
    ref = subprocess.run(argv, cwd=root, capture_output=True, text=True)
    assert ref.returncode == 0 and ref.stderr == "", ref.stderr
    os.remove(os.path.join(root, "prog"))
    print("reference:", " ".join(argv), "-> accepted without diagnostics")

    db = [{"file": f, "directory": root, "arguments": argv} for f in ["main.c", "util.c"]]
    issued, totals = run_cbi(root, {"cpu": db})
    for w in issued:
        print("issued:", w)
    print("totals:", totals)
    assert issued == [] and totals["all"] == 0, (
        "-O2, -D, -o and the two source files are all honoured, yet: " + repr(issued))
finally:
    shutil.rmtree(root)
print("OK")
