#!/usr/bin/env python3
"""
C18 demo 6: the line reported for a missing include (and for an unrecognised
directive) is wrong when the directive follows the end of a comment that
began on an earlier line: the analysis names the line on which the comment
started, where there is no directive at all.

Reference: gcc's own diagnostic for the same file.

Exits 0 if the analysis names the line gcc names, non-zero otherwise.
"""
import json
import os
import re
import shutil
import subprocess
import sys
import tempfile


def write(root, files):
    for rel, content in files.items():
        path = os.path.join(root, rel)
        os.makedirs(os.path.dirname(path), exist_ok=True)
        with open(path, "w") as f:
            f.write(content)


def run_cbi(root, platforms):
    """Run `python -m codebasin` (package from PYTHONPATH) with cwd=root.
    Returns (issued warnings, totals printed at the end)."""
    toml = []
    for name, db in platforms.items():
        with open(os.path.join(root, f"{name}.json"), "w") as f:
            json.dump(db, f)
        toml.append(f'[platform.{name}]\ncommands = "{name}.json"\n')
    with open(os.path.join(root, "analysis.toml"), "w") as f:
        f.write("\n".join(toml))
    p = subprocess.run(
        [sys.executable, "-W", "ignore", "-m", "codebasin", "-R", "summary",
         "analysis.toml"],
        cwd=root, capture_output=True, text=True,
    )
    assert p.returncode == 0, f"codebasin failed:\n{p.stdout}\n{p.stderr}"
    with open(os.path.join(root, "cbi.log")) as f:
        log = f.read()
    msgs = re.split(r"(?m)^(?=warning: |error: )", log)
    issued, totals = [], {"all": 0, "user": 0, "system": 0}
    for m in msgs:
        if not m.startswith("warning: "):
            continue
        w = m[len("warning: "):].rstrip("\n")
        for key, pat in [("all", r"(\d+) warnings generated during"),
                         ("user", r"(\d+) user include files could not"),
                         ("system", r"(\d+) system include files could not")]:
            t = re.match(pat, w)
            if t:
                totals[key] = int(t.group(1))
                break
        else:
            issued.append(w)
    return issued, totals

root = tempfile.mkdtemp(prefix="c18b_demo6_")
try:
    write(root, {
        "src/a.c":
            "int before;\n"
            "/* The generated table lives in a separate file,\n"
            " * see tools/gen.py.\n"
            ' */ #include "table_generated.h"\n'    # line 4
            "int after;\n",
    })
    ref = subprocess.run(["gcc", "-E", "src/a.c"], cwd=root, capture_output=True, text=True)
    m = re.search(r"src/a\.c:(\d+):\d+: fatal error: table_generated\.h: No such file",
                  ref.stderr)
    assert m, ref.stderr
    ref_line = int(m.group(1))
    print("gcc names line", ref_line)
    assert ref_line == 4

    db = [{"file": "src/a.c", "directory": root, "arguments": ["gcc", "-c", "src/a.c"]}]
    issued, totals = run_cbi(root, {"cpu": db})
    for w in issued:
        print("issued:", w.replace(root, "<root>"))
    assert len(issued) == 1 and totals == {"all": 1, "user": 1, "system": 0}
    m = re.search(r"src/a\.c:(\d+): user include 'table_generated\.h' not found", issued[0])
    assert m, issued
    assert int(m.group(1)) == ref_line, (
        f"the missing include is on line {ref_line}, the warning names line {m.group(1)}")
finally:
    shutil.rmtree(root)
print("OK")
