#!/usr/bin/env python3
"""
C18 demo 2: #include directives in a preprocessed assembler file (.S) that
resolve to no file are dropped silently (as is every other directive there).

Reference: gcc runs the C preprocessor on .S files; `gcc -E entry.S` stops
with "regs.h: No such file or directory".

Exits 0 if the analysis reports the missing header, non-zero otherwise.
"""
import json
import os
import re
import shutil
import subprocess
import sys
import tempfile


def write(root, files):
    for rel, content in files.items():
        path = os.path.join(root, rel)
        os.makedirs(os.path.dirname(path), exist_ok=True)
        with open(path, "w") as f:
            f.write(content)


def run_cbi(root, platforms):
    """Run `python -m codebasin` (package from PYTHONPATH) with cwd=root.
    Returns (issued warnings, totals printed at the end)."""
    toml = []
    for name, db in platforms.items():
        with open(os.path.join(root, f"{name}.json"), "w") as f:
            json.dump(db, f)
        toml.append(f'[platform.{name}]\ncommands = "{name}.json"\n')
    with open(os.path.join(root, "analysis.toml"), "w") as f:
        f.write("\n".join(toml))
    p = subprocess.run(
        [sys.executable, "-W", "ignore", "-m", "codebasin", "-R", "summary",
         "analysis.toml"],
        cwd=root, capture_output=True, text=True,
    )
    assert p.returncode == 0, f"codebasin failed:\n{p.stdout}\n{p.stderr}"
    with open(os.path.join(root, "cbi.log")) as f:
        log = f.read()
    msgs = re.split(r"(?m)^(?=warning: |error: )", log)
    issued, totals = [], {"all": 0, "user": 0, "system": 0}
    for m in msgs:
        if not m.startswith("warning: "):
            continue
        w = m[len("warning: "):].rstrip("\n")
        for key, pat in [("all", r"(\d+) warnings generated during"),
                         ("user", r"(\d+) user include files could not"),
                         ("system", r"(\d+) system include files could not")]:
            t = re.match(pat, w)
            if t:
                totals[key] = int(t.group(1))
                break
        else:
            issued.append(w)
    return issued, totals

root = tempfile.mkdtemp(prefix="c18b_demo2_")
try:
    write(root, {
        "arch/entry.S":
            "/* low-level entry code */\n"
            '#include "regs.h"\n'              # line 2, does not exist
            "#ifdef CONFIG_SMP\n"
            "#include <asm/smp_missing.h>\n"   # line 4, does not exist
            "#endif\n"
            "\t.globl _start\n"
            "_start:\n"
            "\tmov %rsp, %rdi\n",
        "arch/main.c": '#include "regs.h"\nint main(void) { return 0; }\n',
    })

    # Reference: gcc honours the directives of a .S file.
    ref = subprocess.run(["gcc", "-E", "-DCONFIG_SMP", "arch/entry.S"], cwd=root,
                         capture_output=True, text=True)
    print("gcc:", ref.stderr.strip().splitlines()[0])
    assert ref.returncode != 0 and "entry.S:2" in ref.stderr and "regs.h" in ref.stderr
    # ... and accepts the file without any diagnostic once the headers exist.
    shadow = tempfile.mkdtemp(prefix="c18b_demo2_shadow_")
    write(shadow, {"regs.h": "", "asm/smp_missing.h": ""})
    ref = subprocess.run(["gcc", "-E", "-DCONFIG_SMP", "-I", shadow, "arch/entry.S"],
                         cwd=root, capture_output=True, text=True)
    shutil.rmtree(shadow)
    assert ref.returncode == 0 and ref.stderr == "", ref.stderr

    db = [
        {"file": "arch/entry.S", "directory": root,
         "arguments": ["gcc", "-DCONFIG_SMP", "-c", "arch/entry.S"]},
        {"file": "arch/main.c", "directory": root,
         "arguments": ["gcc", "-DCONFIG_SMP", "-c", "arch/main.c"]},
    ]
    issued, totals = run_cbi(root, {"cpu": db})
    for w in issued:
        print("issued:", w.replace(root, "<root>"))
    print("totals:", totals)

    # control: the same missing header is reported for the C file
    assert any("main.c:1: user include 'regs.h' not found" in w for w in issued)
    # the case: both missing headers of entry.S must be reported, with file,
    # line, name and form
    assert any("entry.S:2: user include 'regs.h' not found" in w for w in issued), \
        "missing \"regs.h\" of entry.S was dropped silently"
    assert any("entry.S:4: system include 'asm/smp_missing.h' not found" in w
               for w in issued), "missing <asm/smp_missing.h> of entry.S was dropped"
    assert totals == {"all": 3, "user": 2, "system": 1}, totals
finally:
    shutil.rmtree(root)
print("OK")
