#!/usr/bin/env python3
"""
C18 demo 1: `clang++ -fsycl` - an option the clang definition does not know
is neither reported nor ignored: argparse silently completes it to the
longer flag `-fsycl-is-device`.

Exits 0 if the option is reported (or is a flag the clang definition really
lists), non-zero otherwise.
"""
import json
import os
import re
import shutil
import subprocess
import sys
import tempfile


def write(root, files):
    for rel, content in files.items():
        path = os.path.join(root, rel)
        os.makedirs(os.path.dirname(path), exist_ok=True)
        with open(path, "w") as f:
            f.write(content)


def run_cbi(root, platforms):
    """Run `python -m codebasin` (package from PYTHONPATH) with cwd=root.
    Returns (issued warnings, totals printed at the end)."""
    toml = []
    for name, db in platforms.items():
        with open(os.path.join(root, f"{name}.json"), "w") as f:
            json.dump(db, f)
        toml.append(f'[platform.{name}]\ncommands = "{name}.json"\n')
    with open(os.path.join(root, "analysis.toml"), "w") as f:
        f.write("\n".join(toml))
    p = subprocess.run(
        [sys.executable, "-W", "ignore", "-m", "codebasin", "-R", "summary",
         "analysis.toml"],
        cwd=root, capture_output=True, text=True,
    )
    assert p.returncode == 0, f"codebasin failed:\n{p.stdout}\n{p.stderr}"
    with open(os.path.join(root, "cbi.log")) as f:
        log = f.read()
    msgs = re.split(r"(?m)^(?=warning: |error: )", log)
    issued, totals = [], {"all": 0, "user": 0, "system": 0}
    for m in msgs:
        if not m.startswith("warning: "):
            continue
        w = m[len("warning: "):].rstrip("\n")
        for key, pat in [("all", r"(\d+) warnings generated during"),
                         ("user", r"(\d+) user include files could not"),
                         ("system", r"(\d+) system include files could not")]:
            t = re.match(pat, w)
            if t:
                totals[key] = int(t.group(1))
                break
        else:
            issued.append(w)
    return issued, totals

root = tempfile.mkdtemp(prefix="c18b_demo1_")
try:
    write(root, {
        "src/kernel.cpp":
            "#ifdef __SYCL_DEVICE_ONLY__\n"
            '#include "device_only.hpp"\n'      # does not exist
            "#endif\n"
            "int host_code;\n",
    })
    entry = lambda flags: [{
        "file": "src/kernel.cpp", "directory": root,
        "arguments": ["clang++", *flags, "-c", "src/kernel.cpp"],
    }]

    # What does the tool itself say it knows about clang?
    import warnings
    warnings.simplefilter("ignore")
    from codebasin import config
    config._load_compilers()
    known = {f for opt in config._compilers["clang"].parser for f in opt["flags"]}
    print("flags the clang definition lists:", sorted(known))
    assert "-fsycl" not in known, "demo premise: -fsycl is not a clang flag of the tool"

    # Control: another unknown option of the same family is reported.
    issued, totals = run_cbi(root, {"gpu": entry(["-fsycl-unnamed-lambda"])})
    print("control  :", issued, totals)
    assert any("-fsycl-unnamed-lambda" in w for w in issued)

    # The case: -fsycl is unknown, so exactly one warning must name it, and
    # nothing else may be reported (__SYCL_DEVICE_ONLY__ is not defined by
    # this command line, so the missing header is in an unreached group).
    issued, totals = run_cbi(root, {"gpu": entry(["-fsycl"])})
    print("-fsycl   :", issued, totals)
    naming = [w for w in issued if re.search(r"(^|[\s'])-fsycl($|[\s'])", w)]
    assert len(naming) == 1, f"unknown option -fsycl not reported: {issued}"
    assert not any("device_only.hpp" in w for w in issued), (
        "-fsycl was taken for -fsycl-is-device: " + repr(issued))
    assert totals["all"] == len(issued) == 1
finally:
    shutil.rmtree(root)
print("OK")
