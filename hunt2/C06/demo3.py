#!/usr/bin/env python3
"""
C06 demo 3: cbi-tree --prune drops a file that every platform compiles,
because "unused" is decided from the counted lines only: a source file without
any counted line (an empty placeholder translation unit, or a file that holds
nothing but a licence comment) has no line that could carry a platform.

Exit status 0 if the tree behaves as the property demands, non-zero otherwise.
"""
import json
import os
import shutil
import subprocess
import sys
import tempfile

PY = sys.executable


def run(args, cwd):
    r = subprocess.run(
        [PY, "-W", "ignore", "-m"] + args,
        cwd=cwd,
        env=dict(os.environ),
        capture_output=True,
        text=True,
    )
    assert r.returncode == 0, (args, r.stdout[-2000:], r.stderr[-2000:])
    return r.stdout


def listed_files(out):
    res = []
    for line in out.splitlines():
        if line.startswith("[") and "-- " in line.split("]", 1)[1]:
            res.append(line.split("-- ", 1)[1])
    return sorted(res)


def main():
    base = os.path.realpath(tempfile.mkdtemp(prefix="c06b_demo3_"))
    try:
        root = os.path.join(base, "proj")
        os.makedirs(os.path.join(root, "src"))
        files = {
            "src/main.c": "int main(void) { return 0; }\n",
            # placeholder that keeps the static library non-empty on every platform
            "src/dummy.c": "/* intentionally empty */\n",
            # really unused
            "src/old.c": "int old;\n",
        }
        for rel, text in files.items():
            with open(os.path.join(root, rel), "w") as f:
                f.write(text)
        db = [
            {"directory": root, "file": f, "command": f"gcc -c {f}"}
            for f in ("src/main.c", "src/dummy.c")
        ]
        with open(os.path.join(root, "cpu.json"), "w") as f:
            json.dump(db, f)
        with open(os.path.join(root, "analysis.toml"), "w") as f:
            f.write('[platform.cpu]\ncommands = "cpu.json"\n')

        # reference: gcc compiles the placeholder without a diagnostic
        r = subprocess.run(
            ["gcc", "-Wall", "-c", "src/dummy.c", "-o", os.path.join(base, "d.o")],
            cwd=root, capture_output=True, text=True,
        )
        assert r.returncode == 0 and r.stderr == "", r.stderr

        full = listed_files(run(["codebasin.tree", "analysis.toml"], root))
        pruned = listed_files(run(["codebasin.tree", "--prune", "analysis.toml"], root))
        print("unpruned:", full)
        print("pruned  :", pruned)
        assert full == ["dummy.c", "main.c", "old.c"]
        # --prune drops exactly the files no platform uses: only old.c
        assert pruned == ["dummy.c", "main.c"], pruned
    finally:
        shutil.rmtree(base)


main()
