#!/usr/bin/env python3
"""
C06 demo 2: "-include" on a command that assembles a plain assembler source
(.s).  gcc does not preprocess such a file (the option is silently unused), so
the platform does not use the header; codebasin / cbi-tree / cbi-cov attribute
all lines of the header to the platform.

Exit status 0 if the tree behaves as the property demands, non-zero otherwise.
"""
import json
import os
import re
import shutil
import subprocess
import sys
import tempfile

PY = sys.executable

CONFIG_H = """\
#ifndef CONFIG_H
#define CONFIG_H
#define VERSION 3
#endif
"""

BOOT_S = """\
\t.text
\t.globl _start
_start:
\tret
"""

MAIN_C = """\
#include "config.h"
int main(void) { return VERSION; }
"""


def run(args, cwd):
    r = subprocess.run(
        [PY, "-W", "ignore", "-m"] + args,
        cwd=cwd,
        env=dict(os.environ),
        capture_output=True,
        text=True,
    )
    assert r.returncode == 0, (args, r.stdout[-2000:], r.stderr[-2000:])
    return r.stdout


def main():
    base = os.path.realpath(tempfile.mkdtemp(prefix="c06b_demo2_"))
    try:
        root = os.path.join(base, "proj")
        os.makedirs(os.path.join(root, "src"))
        os.makedirs(os.path.join(root, "inc"))
        for rel, text in (
            ("inc/config.h", CONFIG_H),
            ("src/boot.s", BOOT_S),
            ("src/main.c", MAIN_C),
        ):
            with open(os.path.join(root, rel), "w") as f:
                f.write(text)
        dbs = {
            # the firmware build only assembles boot.s, with the usual CFLAGS
            "firmware": [
                {
                    "directory": root,
                    "file": "src/boot.s",
                    "command": "gcc -Iinc -include inc/config.h -c src/boot.s",
                },
            ],
            "host": [
                {
                    "directory": root,
                    "file": "src/main.c",
                    "command": "gcc -Iinc -c src/main.c",
                },
            ],
        }
        for name, db in dbs.items():
            with open(os.path.join(root, f"{name}.json"), "w") as f:
                json.dump(db, f)
        with open(os.path.join(root, "analysis.toml"), "w") as f:
            f.write(
                '[platform.firmware]\ncommands = "firmware.json"\n\n'
                '[platform.host]\ncommands = "host.json"\n',
            )

        # Reference: gcc accepts the command without a diagnostic and never
        # opens config.h (-H lists every header that is read; an unreadable
        # header would be an error if it were used).
        r = subprocess.run(
            ["gcc", "-Wall", "-H", "-Iinc", "-include", "inc/config.h", "-c",
             "src/boot.s", "-o", os.path.join(base, "boot.o")],
            cwd=root, capture_output=True, text=True,
        )
        assert r.returncode == 0 and r.stderr == "", r.stderr
        r = subprocess.run(
            ["gcc", "-Wall", "-Iinc", "-include", "inc/does-not-exist.h", "-c",
             "src/boot.s", "-o", os.path.join(base, "boot.o")],
            cwd=root, capture_output=True, text=True,
        )
        assert r.returncode == 0 and r.stderr == "", r.stderr

        # cbi-cov for the firmware platform: config.h must be unused
        run(["codebasin.coverage", "compute", "-S", root, "-o", "cov.json", "firmware.json"], root)
        with open(os.path.join(root, "cov.json")) as f:
            cov = {e["file"]: e for e in json.load(f)}
        print("cbi-cov firmware:", {k: (v["used_lines"], v["unused_lines"]) for k, v in cov.items()})

        out = run(["codebasin", "-R", "summary", "analysis.toml"], root)
        rows = {}
        for line in out.splitlines():
            m = re.match(r"^│\s*\{(.*)\}\s*│\s*(\d+)\s*│\s*(\S+)\s*│$", line)
            if m:
                rows[frozenset(x for x in m.group(1).split(", ") if x)] = int(m.group(2))
        print("codebasin:", rows)

        # expected: boot.s (4 lines) {firmware}; main.c (2) + config.h (4) {host}
        expected = {frozenset({"firmware"}): 4, frozenset({"host"}): 6}
        assert cov["inc/config.h"]["used_lines"] == [], cov["inc/config.h"]
        assert rows == expected, (rows, expected)
    finally:
        shutil.rmtree(base)


main()
