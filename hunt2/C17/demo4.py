#!/usr/bin/env python
"""C17b finding 4: a Fortran fragment with a C/C++ extension (.inc, .h) that is
part of the code base and is #included from a free-form Fortran file is lexed
with the C rules: '!' comment lines are counted, a continuation line that starts
with the concatenation operator '//' is not."""
import logging
import os
import subprocess
import tempfile
from pathlib import Path

from codebasin import CodeBase, finder
from codebasin.preprocessor import CodeNode, DirectiveNode

logging.disable()

MAIN = """\
module params
#include "params.inc"
end module
"""
INC = """\
  ! Problem sizes -- don't edit by hand
#ifdef BIG
  integer, parameter :: n = 1000
#else
  integer, parameter :: n = 10
#endif
  character(len=*), parameter :: title = 'size: ' &
     // 'small'
  ! end of parameters
"""

with tempfile.TemporaryDirectory() as d:
    d = os.path.realpath(d)
    main = os.path.join(d, "params.F90")
    inc = os.path.join(d, "params.inc")
    Path(main).write_text(MAIN)
    Path(inc).write_text(INC)
    for args in (["-fsyntax-only"], ["-E"]):
        chk = subprocess.run(
            ["gfortran", "-cpp", *args, main],
            capture_output=True,
            text=True,
            cwd=d,
        )
        assert chk.returncode == 0 and not chk.stderr.strip(), chk.stderr

    codebase = CodeBase(d)
    conf = {
        "P": [
            {
                "file": main,
                "defines": [],
                "include_paths": [],
                "include_files": [],
            },
        ],
    }
    state = finder.find(d, codebase, conf)

    # Counted lines:
    #   params.F90: 1, 2, 3             -> {P}
    #   params.inc: 2, 4, 5, 6, 7, 8    -> {P};  3 -> {} ; 1 and 9 are comments
    setmap = dict(state.get_setmap(codebase))
    expected = {frozenset(["P"]): 9, frozenset(): 1}
    assert setmap == expected, (setmap, expected)

    tree = state.get_tree(inc)
    counted = set()
    for n in tree.walk():
        if isinstance(n, (CodeNode, DirectiveNode)):
            counted.update(n.lines)
    assert counted == {2, 3, 4, 5, 6, 7, 8}, sorted(counted)
print("ok")
