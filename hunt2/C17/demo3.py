#!/usr/bin/env python
"""C17b finding 3: free text with an apostrophe in a skipped conditional block
(#if 0 ... #endif) opens a character literal that is never closed, because the
Fortran lexer carries an open literal over a line end that has no '&'.  The
following ordinary comments are then counted as code (or, with an odd number
of quotes left, the whole run aborts)."""
import logging
import os
import subprocess
import tempfile
from pathlib import Path

from codebasin import CodeBase, finder
from codebasin.preprocessor import CodeNode, DirectiveNode

logging.disable()

MAIN = """\
program p
  integer :: x
#if 0
  TODO: this doesn't handle the periodic case yet
#endif
  ! initialise
  x = 1 ! it's one
  ! done
end program
"""
# Same, but the quotes do not pair up again: analysis aborts.
MAIN2 = MAIN.replace("it's one", "one")


def run(text):
    with tempfile.TemporaryDirectory() as d:
        d = os.path.realpath(d)
        main = os.path.join(d, "todo.F90")
        Path(main).write_text(text)
        for args in (["-fsyntax-only"], ["-E"]):
            chk = subprocess.run(
                ["gfortran", "-cpp", *args, main],
                capture_output=True,
                text=True,
            )
            assert chk.returncode == 0 and not chk.stderr.strip(), chk.stderr
        codebase = CodeBase(d)
        conf = {
            "P": [
                {
                    "file": main,
                    "defines": [],
                    "include_paths": [],
                    "include_files": [],
                },
            ],
        }
        state = finder.find(d, codebase, conf)
        tree = state.get_tree(main)
        counted = set()
        for n in tree.walk():
            if isinstance(n, (CodeNode, DirectiveNode)):
                counted.update(n.lines)
        return counted


counted = run(MAIN)
# lines 6 and 8 are ordinary comments, line 7 holds a statement
assert 7 in counted, sorted(counted)
assert 6 not in counted and 8 not in counted, (
    f"ordinary '!' comment lines counted: {sorted(counted)}"
)
assert counted - {4} == {1, 2, 3, 5, 7, 9}, sorted(counted)

try:
    counted = run(MAIN2)
except RuntimeError as e:
    raise AssertionError(f"analysis aborted: {e}")
assert counted - {4} == {1, 2, 3, 5, 7, 9}, sorted(counted)
print("ok")
