#!/usr/bin/env python
"""C17b finding 2: C block comments in the code part of a Fortran file are
removed by the preprocessor (gfortran -cpp, like gcc for C files), but the
tree only knows them inside directives: a directive written inside such a
comment is executed and the comment lines are counted as code."""
import logging
import os
import re
import subprocess
import tempfile
from pathlib import Path

from codebasin import CodeBase, finder
from codebasin.preprocessor import CodeNode, DirectiveNode

logging.disable()

MAIN = """\
/* Build options (see INSTALL):
#define USE_FAST_PATH
   -- disabled by default */
program p
  integer :: x
  x = 0   /* default */
#ifdef USE_FAST_PATH
  x = 1
#endif
  print *, x
end program
"""

with tempfile.TemporaryDirectory() as d:
    d = os.path.realpath(d)
    main = os.path.join(d, "opts.F90")
    Path(main).write_text(MAIN)

    chk = subprocess.run(
        ["gfortran", "-cpp", "-fsyntax-only", main],
        capture_output=True,
        text=True,
    )
    assert chk.returncode == 0 and not chk.stderr.strip(), chk.stderr
    out = subprocess.run(
        ["gfortran", "-cpp", "-E", main],
        capture_output=True,
        text=True,
    )
    assert out.returncode == 0 and not out.stderr.strip(), out.stderr
    ref, ln, cur = set(), 0, None
    for line in out.stdout.split("\n"):
        m = re.match(r'# (\d+) "([^"]*)"', line)
        if m:
            ln, cur = int(m.group(1)) - 1, m.group(2)
            continue
        ln += 1
        if cur == main and line.strip():
            ref.add(ln)
    # the reference: comment lines vanish, "x = 1" is not selected
    assert ref == {4, 5, 6, 10, 11}, ref

    # the same text as a C file is handled correctly by the tree, so this
    # is specific to the Fortran path ("exactly as they do in C files")
    codebase = CodeBase(d)
    conf = {
        "P": [
            {
                "file": main,
                "defines": [],
                "include_paths": [],
                "include_files": [],
            },
        ],
    }
    state = finder.find(d, codebase, conf)
    tree, amap = state.get_tree(main), state.get_map(main)
    counted, selected = set(), set()
    for n in tree.walk():
        if isinstance(n, (CodeNode, DirectiveNode)):
            counted.update(n.lines)
            if "P" in amap[n]:
                selected.update(n.lines)
    code_selected = selected - {7, 9}
    assert 8 not in selected, (
        "'x = 1' selected although USE_FAST_PATH is only 'defined' inside a "
        f"comment; selected={sorted(selected)}"
    )
    assert code_selected == ref, (sorted(code_selected), sorted(ref))
    assert counted == {4, 5, 6, 7, 8, 9, 10, 11}, sorted(counted)
print("ok")
