#!/usr/bin/env python
"""C17b finding 1: a Fortran fragment pulled in with #include in the middle of
a continued statement (WRF-style dummy-argument lists) ends in '&'; the tree
aborts the whole analysis with RuntimeError instead of counting/selecting."""
import logging
import os
import re
import subprocess
import sys
import tempfile
from pathlib import Path

from codebasin import CodeBase, finder
from codebasin.preprocessor import CodeNode, DirectiveNode

logging.disable()

MAIN = """\
subroutine solve(grid, &
#include "dummy_args.fi"
  n)
  integer :: grid, a, b, n
#ifdef HAVE_B
  b = 1
#endif
end subroutine
"""
FRAG = """\
  ! dummy arguments
#define HAVE_B
  a, b, &
"""


def gfortran_lines(path, wanted):
    """Physical lines of `wanted` that survive `gfortran -cpp -E`."""
    out = subprocess.run(
        ["gfortran", "-cpp", "-E", path],
        capture_output=True,
        text=True,
    )
    assert out.returncode == 0 and not out.stderr.strip(), out.stderr
    sel, ln, cur = set(), 0, None
    for line in out.stdout.split("\n"):
        m = re.match(r'# (\d+) "([^"]*)"', line)
        if m:
            ln, cur = int(m.group(1)) - 1, os.path.basename(m.group(2))
            continue
        ln += 1
        if cur == wanted and line.strip():
            sel.add(ln)
    return sel


with tempfile.TemporaryDirectory() as d:
    d = os.path.realpath(d)
    main = os.path.join(d, "solve.F90")
    frag = os.path.join(d, "dummy_args.fi")
    Path(main).write_text(MAIN)
    Path(frag).write_text(FRAG)

    # The reference accepts the input (also as a complete compilation).
    chk = subprocess.run(
        ["gfortran", "-cpp", "-fsyntax-only", main],
        capture_output=True,
        text=True,
    )
    assert chk.returncode == 0 and not chk.stderr.strip(), chk.stderr
    ref_main = gfortran_lines(main, "solve.F90")
    ref_frag = gfortran_lines(main, "dummy_args.fi")
    assert 6 in ref_main  # "b = 1" is selected: HAVE_B comes from the fragment
    assert 3 in ref_frag

    codebase = CodeBase(d)
    conf = {
        "P": [
            {
                "file": main,
                "defines": [],
                "include_paths": [],
                "include_files": [],
            },
        ],
    }
    try:
        state = finder.find(d, codebase, conf)
    except RuntimeError as e:
        raise AssertionError(
            f"analysis aborted on a valid Fortran include fragment: {e}",
        )

    def lines_of(fn):
        tree, amap = state.get_tree(fn), state.get_map(fn)
        counted, selected = set(), set()
        for n in tree.walk():
            if isinstance(n, (CodeNode, DirectiveNode)):
                counted.update(n.lines)
                if "P" in amap[n]:
                    selected.update(n.lines)
        return counted, selected

    counted, selected = lines_of(main)
    assert counted == {1, 2, 3, 4, 5, 6, 7, 8}, counted
    assert 6 in selected, selected
    counted, selected = lines_of(frag)
    # comment not counted; directive and statement text counted
    assert counted == {2, 3}, counted
    assert selected == {2, 3}, selected
print("ok")
