#!/usr/bin/env python3
"""
C05 demo 1: a backslash followed by blanks and a newline inside a // comment.

gcc and clang splice such a line ("backslash-space-newline"), and inside a
comment gcc does so without any diagnostic: the next physical line is part of
the comment and holds no code.  CBI only recognises a backslash that is the
very last character of the line, ends the comment, and counts the next line
as code.

Exits 0 if CBI counts exactly the lines that still hold code for the
compiler, non-zero otherwise.
"""
import logging
import os
import subprocess
import sys
import tempfile

from codebasin import preprocessor
from codebasin.file_parser import FileParser

logging.disable(logging.CRITICAL)

SOURCE = (
    "// Layout of the tree:   root\n"      # 1 comment
    "//                       /  \\ \n"    # 2 comment, ends in backslash + blank
    "int nodes;\n"                          # 3 still inside the comment (gcc, clang)
    "int leaves;\n"                         # 4 code
)


def reference_lines(path):
    """Lines that hold code according to gcc -E (must run without diagnostics)."""
    r = subprocess.run(
        ["gcc", "-E", "-x", "c", path], capture_output=True, text=True
    )
    assert r.returncode == 0 and r.stderr.strip() == "", r.stderr
    lines = set()
    cur = None
    for out in r.stdout.splitlines():
        if out.startswith("#"):
            parts = out.split()
            if len(parts) >= 3 and parts[1].isdigit():
                cur = int(parts[1]) if parts[2] == f'"{path}"' else None
            continue
        if cur is not None:
            if out.strip():
                lines.add(cur)
            cur += 1
    return lines


def cbi_lines(path):
    tree = FileParser(path).parse_file()
    lines = []
    for node in tree.walk():
        if isinstance(node, preprocessor.CodeNode):
            lines.extend(node.lines)
    return lines


def main():
    with tempfile.TemporaryDirectory() as tmp:
        path = os.path.join(tmp, "tree.c")
        with open(path, "w", newline="") as f:
            f.write(SOURCE)
        expected = reference_lines(path)
        got = cbi_lines(path)
    print("gcc -E keeps code on lines:", sorted(expected))
    print("CBI counts lines          :", sorted(got))
    assert expected == {4}, expected
    assert sorted(got) == sorted(expected), (
        f"CBI counts {sorted(got)}, the compiler sees code only on {sorted(expected)}"
    )


if __name__ == "__main__":
    main()
    sys.exit(0)
