#!/usr/bin/env python3
"""
C01 demo 3: a multi-character character constant that contains "/*" is taken
for the start of a block comment by the line cleaner (c_cleaner, state
SINGLE_QUOTATION), so the following conditional chain disappears until the
next "*/".  `gcc -E` accepts the file without any diagnostic (-Wmultichar is
only issued by the compiler proper, and the value is merely
implementation-defined).

Exits 0 iff codebasin analyses the file without failing and, for every marker
line `MK<line>`, reports the line as used exactly when `gcc -E` (which must
accept the file without any diagnostic) keeps it.
"""
import logging
import os
import re
import subprocess
import sys
import tempfile
import warnings

from codebasin import CodeBase, finder
from codebasin.preprocessor import CodeNode

logging.disable(logging.CRITICAL)
warnings.simplefilter("ignore")

SRC = "enum tok {\n  TOK_DIV = '/',\n  TOK_COMMENT = '/*',\n  TOK_MUL = '*'\n};\n#ifdef A\nint MK7;\n#else\nint MK9;\n#endif\nint MK11; /* an ordinary comment */\nint MK12;\n"
DEFINES = []
EXPECT_LIVE = {9, 11, 12}  # what gcc is expected to keep (sanity check of the demo)

with tempfile.TemporaryDirectory() as d:
    d = os.path.realpath(d)
    path = os.path.join(d, "t.c")
    with open(path, "w") as f:
        f.write(SRC)

    ref = subprocess.run(
        ["gcc", "-E"] + ["-D" + x for x in DEFINES] + [path],
        capture_output=True,
        text=True,
    )
    assert ref.returncode == 0 and ref.stderr == "", "gcc diagnostics: " + ref.stderr
    live = {int(m) for m in re.findall(r"\bMK(\d+)\b", ref.stdout)}
    assert live == EXPECT_LIVE, live

    configuration = {
        "P": [
            {
                "file": path,
                "defines": DEFINES,
                "include_paths": [],
                "include_files": [],
            },
        ],
    }
    try:
        state = finder.find(d, CodeBase(d), configuration)
    except Exception as e:  # the analysis must not fail on a valid program
        print(f"codebasin failed: {type(e).__name__}: {e}")
        raise AssertionError("analysis failed on a program gcc accepts silently") from e
    used = set()
    tree = state.get_tree(path)
    assoc = state.get_map(path)
    for node in tree.walk():
        if isinstance(node, CodeNode) and "P" in assoc[node]:
            used.update(node.lines)

marked = {int(m) for m in re.findall(r"\bMK(\d+)\b", SRC)}
print("gcc keeps marker lines :", sorted(live))
print("codebasin used lines   :", sorted(used & marked))
assert used & marked == live, (
    f"codebasin reports {sorted(used & marked)} as used, gcc compiles {sorted(live)}"
)
print("OK")
sys.exit(0)
