#!/usr/bin/env python3
"""
C01 demo 6: outside of literals a backslash is an ordinary (stray)
preprocessing token for gcc -E; the quote after it still opens a string.  The
line cleaner treats backslash + any character as an escape everywhere
(state ESCAPING pushed from TOPLEVEL/CPP_DIRECTIVE), so the string is not
recognised and the "/*" inside it opens a comment that swallows the following
conditional chain.

Exits 0 iff codebasin analyses the file without failing and, for every marker
line `MK<line>`, reports the line as used exactly when `gcc -E` (which must
accept the file without any diagnostic) keeps it.
"""
import logging
import os
import re
import subprocess
import sys
import tempfile
import warnings

from codebasin import CodeBase, finder
from codebasin.preprocessor import CodeNode

logging.disable(logging.CRITICAL)
warnings.simplefilter("ignore")

SRC = '#ifdef DOCS\n.ds Q \\"/* troff input kept next to the code"\n#endif\n#ifdef A\nint MK5;\n#else\nint MK7;\n#endif\nint MK9; /* an ordinary comment */\nint MK10;\n'
DEFINES = []
EXPECT_LIVE = {9, 10, 7}  # what gcc is expected to keep (sanity check of the demo)

with tempfile.TemporaryDirectory() as d:
    d = os.path.realpath(d)
    path = os.path.join(d, "t.c")
    with open(path, "w") as f:
        f.write(SRC)

    ref = subprocess.run(
        ["gcc", "-E"] + ["-D" + x for x in DEFINES] + [path],
        capture_output=True,
        text=True,
    )
    assert ref.returncode == 0 and ref.stderr == "", "gcc diagnostics: " + ref.stderr
    live = {int(m) for m in re.findall(r"\bMK(\d+)\b", ref.stdout)}
    assert live == EXPECT_LIVE, live

    configuration = {
        "P": [
            {
                "file": path,
                "defines": DEFINES,
                "include_paths": [],
                "include_files": [],
            },
        ],
    }
    try:
        state = finder.find(d, CodeBase(d), configuration)
    except Exception as e:  # the analysis must not fail on a valid program
        print(f"codebasin failed: {type(e).__name__}: {e}")
        raise AssertionError("analysis failed on a program gcc accepts silently") from e
    used = set()
    tree = state.get_tree(path)
    assoc = state.get_map(path)
    for node in tree.walk():
        if isinstance(node, CodeNode) and "P" in assoc[node]:
            used.update(node.lines)

marked = {int(m) for m in re.findall(r"\bMK(\d+)\b", SRC)}
print("gcc keeps marker lines :", sorted(live))
print("codebasin used lines   :", sorted(used & marked))
assert used & marked == live, (
    f"codebasin reports {sorted(used & marked)} as used, gcc compiles {sorted(live)}"
)
print("OK")
sys.exit(0)
