#!/usr/bin/env python3
"""
C01 demo 2: #pragma push_macro / pop_macro (accepted silently by gcc, clang
and MSVC) save and restore a macro definition.  codebasin ignores the pragmas,
so the #undef/#define made between them stay in force after pop_macro and the
following conditionals take the wrong branch.

Exits 0 iff codebasin analyses the file without failing and, for every marker
line `MK<line>`, reports the line as used exactly when `gcc -E` (which must
accept the file without any diagnostic) keeps it.
"""
import logging
import os
import re
import subprocess
import sys
import tempfile
import warnings

from codebasin import CodeBase, finder
from codebasin.preprocessor import CodeNode

logging.disable(logging.CRITICAL)
warnings.simplefilter("ignore")

SRC = '#define NDEBUG 1\n#pragma push_macro("NDEBUG")\n#undef NDEBUG\n#ifndef NDEBUG\nint MK5;\n#endif\n#pragma pop_macro("NDEBUG")\n#ifdef NDEBUG\nint MK9;\n#else\nint MK11;\n#endif\n'
DEFINES = []
EXPECT_LIVE = {9, 5}  # what gcc is expected to keep (sanity check of the demo)

with tempfile.TemporaryDirectory() as d:
    d = os.path.realpath(d)
    path = os.path.join(d, "t.c")
    with open(path, "w") as f:
        f.write(SRC)

    ref = subprocess.run(
        ["gcc", "-E"] + ["-D" + x for x in DEFINES] + [path],
        capture_output=True,
        text=True,
    )
    assert ref.returncode == 0 and ref.stderr == "", "gcc diagnostics: " + ref.stderr
    live = {int(m) for m in re.findall(r"\bMK(\d+)\b", ref.stdout)}
    assert live == EXPECT_LIVE, live

    configuration = {
        "P": [
            {
                "file": path,
                "defines": DEFINES,
                "include_paths": [],
                "include_files": [],
            },
        ],
    }
    try:
        state = finder.find(d, CodeBase(d), configuration)
    except Exception as e:  # the analysis must not fail on a valid program
        print(f"codebasin failed: {type(e).__name__}: {e}")
        raise AssertionError("analysis failed on a program gcc accepts silently") from e
    used = set()
    tree = state.get_tree(path)
    assoc = state.get_map(path)
    for node in tree.walk():
        if isinstance(node, CodeNode) and "P" in assoc[node]:
            used.update(node.lines)

marked = {int(m) for m in re.findall(r"\bMK(\d+)\b", SRC)}
print("gcc keeps marker lines :", sorted(live))
print("codebasin used lines   :", sorted(used & marked))
assert used & marked == live, (
    f"codebasin reports {sorted(used & marked)} as used, gcc compiles {sorted(live)}"
)
print("OK")
sys.exit(0)
