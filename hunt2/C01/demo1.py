#!/usr/bin/env python3
"""
C01 demo 1: -U on the compile command is ignored (so is -Wp,-D...).

The compile command `gcc -DNDEBUG -UNDEBUG -c t.c` leaves NDEBUG undefined
(gcc processes -D/-U in command-line order), so the `#ifndef NDEBUG` group is
compiled.  codebasin drops -UNDEBUG as an "unrecognized argument", keeps
NDEBUG defined and reports the group as unused.

Exits 0 iff codebasin's used lines agree with gcc for every marker line.
"""
import json
import logging
import os
import re
import subprocess
import sys
import tempfile

from codebasin import CodeBase, config, finder
from codebasin.preprocessor import CodeNode

logging.disable(logging.CRITICAL)

SRC = """\
#ifndef NDEBUG
int MK2_assertions_enabled;
#else
int MK4_assertions_disabled;
#endif
#ifdef KEEP
int MK7_keep;
#endif
"""
ARGS = ["gcc", "-DNDEBUG", "-DKEEP", "-UNDEBUG", "-c", "t.c"]

with tempfile.TemporaryDirectory() as d:
    d = os.path.realpath(d)
    src = os.path.join(d, "t.c")
    with open(src, "w") as f:
        f.write(SRC)
    db = os.path.join(d, "compile_commands.json")
    with open(db, "w") as f:
        json.dump([{"directory": d, "file": "t.c", "arguments": ARGS}], f)

    # Reference: the very same command, preprocessing only.
    ref = subprocess.run(
        ["gcc", "-E"] + [a for a in ARGS[1:] if a != "-c"],
        cwd=d,
        capture_output=True,
        text=True,
    )
    assert ref.returncode == 0 and ref.stderr == "", ref.stderr
    live = {int(m) for m in re.findall(r"\bMK(\d+)_", ref.stdout)}

    cwd = os.getcwd()
    os.chdir(d)
    try:
        configuration = {"cli": config.load_database(db, d)}
        state = finder.find(d, CodeBase(d), configuration)
    finally:
        os.chdir(cwd)
    used = set()
    tree = state.get_tree(src)
    assoc = state.get_map(src)
    for node in tree.walk():
        if isinstance(node, CodeNode) and assoc[node]:
            used.update(node.lines)

marked = {int(m) for m in re.findall(r"\bMK(\d+)_", SRC)}
print("gcc keeps marker lines :", sorted(live))
print("codebasin used lines   :", sorted(used & marked))
assert live == {2, 7}, live
assert used & marked == live, (
    f"codebasin reports {sorted(used & marked)} as used, gcc compiles {sorted(live)}"
)
print("OK")
sys.exit(0)
