#!/usr/bin/env python3
"""
C01 demo 5: ISO C (6.6p3) allows the comma operator in a subexpression of an
#if expression that is not evaluated; gcc accepts `#if 1 || (2, 3)` without
any diagnostic (and, without -pedantic, an evaluated comma as well).  The
expression evaluator has no comma operator: the analysis ends with
ParseError("Could not evaluate expression.").

Exits 0 iff codebasin analyses the file without failing and, for every marker
line `MK<line>`, reports the line as used exactly when `gcc -E` (which must
accept the file without any diagnostic) keeps it.
"""
import logging
import os
import re
import subprocess
import sys
import tempfile
import warnings

from codebasin import CodeBase, finder
from codebasin.preprocessor import CodeNode

logging.disable(logging.CRITICAL)
warnings.simplefilter("ignore")

SRC = '#define HAVE_X 1\n#if HAVE_X || (HAVE_Y, HAVE_Z)\nint MK3;\n#else\nint MK5;\n#endif\n'
DEFINES = []
EXPECT_LIVE = {3}  # what gcc is expected to keep (sanity check of the demo)

with tempfile.TemporaryDirectory() as d:
    d = os.path.realpath(d)
    path = os.path.join(d, "t.c")
    with open(path, "w") as f:
        f.write(SRC)

    ref = subprocess.run(
        ["gcc", "-E"] + ["-D" + x for x in DEFINES] + [path],
        capture_output=True,
        text=True,
    )
    assert ref.returncode == 0 and ref.stderr == "", "gcc diagnostics: " + ref.stderr
    live = {int(m) for m in re.findall(r"\bMK(\d+)\b", ref.stdout)}
    assert live == EXPECT_LIVE, live

    configuration = {
        "P": [
            {
                "file": path,
                "defines": DEFINES,
                "include_paths": [],
                "include_files": [],
            },
        ],
    }
    try:
        state = finder.find(d, CodeBase(d), configuration)
    except Exception as e:  # the analysis must not fail on a valid program
        print(f"codebasin failed: {type(e).__name__}: {e}")
        raise AssertionError("analysis failed on a program gcc accepts silently") from e
    used = set()
    tree = state.get_tree(path)
    assoc = state.get_map(path)
    for node in tree.walk():
        if isinstance(node, CodeNode) and "P" in assoc[node]:
            used.update(node.lines)

marked = {int(m) for m in re.findall(r"\bMK(\d+)\b", SRC)}
print("gcc keeps marker lines :", sorted(live))
print("codebasin used lines   :", sorted(used & marked))
assert used & marked == live, (
    f"codebasin reports {sorted(used & marked)} as used, gcc compiles {sorted(live)}"
)
print("OK")
sys.exit(0)
