"""C04 demo 5: a computed #include whose header name contains the word 'defined' aborts the analysis."""
import json, logging, os, re, shutil, subprocess, sys, tempfile

import codebasin
from codebasin import CodeBase, config, finder
from codebasin.preprocessor import CodeNode, DirectiveNode

logging.disable(logging.CRITICAL)
MARK = re.compile(r"\bm_[a-z0-9]+_\d+\b")


def reference(root, cwd, args, main, compiler="gcc"):
    """Markers that survive `gcc -E`; gcc must be silent."""
    r = subprocess.run([compiler, "-E", "-P"] + args + [main], cwd=cwd,
                       capture_output=True, text=True)
    assert r.returncode == 0 and not r.stderr.strip(), \
        f"input is not valid for {compiler}: {r.stderr}"
    return set(MARK.findall(r.stdout))


def codebasin_markers(root, cwd, args, main, compiler="gcc"):
    """Markers on the code lines that codebasin attributes to the platform."""
    db = os.path.join(root, "compile_commands.json")
    with open(db, "w") as f:
        json.dump([{"directory": cwd, "file": main,
                    "arguments": [compiler, "-c"] + args + [main]}], f)
    old = os.getcwd()
    os.chdir(root)
    try:
        conf = {"p": config.load_database(db, root)}
        state = finder.find(root, CodeBase(root), conf, summarize_only=False)
    finally:
        os.chdir(old)
    active = set()
    for fn in state.get_filenames():
        with open(fn) as f:
            text = f.read().split("\n")
        pairs = [(state.get_tree(fn), state.get_map(fn))]
        pairs += [v for (f2, _), v in state._alternates.items() if f2 == fn]
        for tree, amap in pairs:
            for node in tree.walk():
                if isinstance(node, CodeNode) and not isinstance(node, DirectiveNode):
                    if "p" in amap[node]:
                        for ln in node.lines:
                            if 1 <= ln <= len(text):
                                active.update(MARK.findall(text[ln - 1]))
    return active


def run_case(files, args, main="src/main.c", cwd_rel=".", compilers=("gcc", "clang")):
    root = os.path.realpath(tempfile.mkdtemp(prefix="c04b_demo_"))
    try:
        files = {k: v.replace("@ROOT@", root) for k, v in files.items()}
        args = [a.replace("@ROOT@", root) for a in args]
        main = main.replace("@ROOT@", root)
        for rel, text in files.items():
            p = os.path.join(root, rel)
            os.makedirs(os.path.dirname(p), exist_ok=True)
            with open(p, "w") as f:
                f.write(text)
        cwd = os.path.normpath(os.path.join(root, cwd_rel))
        os.makedirs(cwd, exist_ok=True)
        expected = reference(root, cwd, args, main, compilers[0])
        for other in compilers[1:]:
            if shutil.which(other):
                assert reference(root, cwd, args, main, other) == expected, \
                    f"{other} disagrees with {compilers[0]}"
        got = codebasin_markers(root, cwd, args, main, compilers[0])
        return expected, got
    finally:
        shutil.rmtree(root, ignore_errors=True)


FILES = {
    "inc/user/defined.h": "#define USER_TYPES 1\nint m_defined_1;\n",
    "src/main.c": (
        "#define USER_HEADER <user/defined.h>\n"
        "#include USER_HEADER\n"
        "#if USER_TYPES\n"
        "int m_main_1;\n"
        "#endif\n"
    ),
}
ARGS = ["-Iinc"]

if __name__ == "__main__":
    try:
        expected, got = run_case(FILES, ARGS)
    except AssertionError:
        raise
    except Exception as e:  # codebasin gives up on the whole code base
        raise AssertionError(f"codebasin raised {e!r}")
    assert expected == {"m_defined_1", "m_main_1"}, expected
    assert got == expected, f"compiler: {sorted(expected)}; codebasin: {sorted(got)}"
    print("ok")
