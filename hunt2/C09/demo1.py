"""C09: a code base whose directories overlap enumerates member files twice.

Layout (very common: a top-level `include` link into the source tree):

    proj/src/main.c
    proj/src/include/x.h
    proj/include -> src/include

    CodeBase("proj/src", "proj/include")

Exits 0 iff the enumeration yields every member file exactly once.
"""
import os
import sys
import tempfile
from pathlib import Path

import codebasin
from codebasin import CodeBase, finder

tmp = Path(tempfile.mkdtemp(prefix="c09b_demo1_")).resolve()
proj = tmp / "proj"
(proj / "src" / "include").mkdir(parents=True)
(proj / "src" / "main.c").write_text("int a;\nint b;\n")
(proj / "src" / "include" / "x.h").write_text("int h;\n")
os.symlink("src/include", proj / "include")

expected = sorted([str(proj / "src" / "main.c"), str(proj / "src" / "include" / "x.h")])

failures = []
for dirs in [
    (proj / "src", proj / "include"),      # second directory is a link into the first
    (proj / "src", proj / "src" / "include"),  # nested, no symlink involved
    (proj / "src", proj / "src"),          # the same directory twice
    (proj / "src", proj / "src" / ".." / "src"),  # the same directory, spelled differently
]:
    cb = CodeBase(*dirs)
    # every file is a member (sanity) ...
    assert all(f in cb for f in expected)
    enum = list(cb)
    print([str(d) for d in dirs], "->", enum)
    if sorted(enum) != expected:
        failures.append(("enumeration", dirs, enum))
    # ... and the consumer that counts lines must see 3 lines, not more.
    state = finder.find(str(proj), cb, {})
    total = sum(state.get_setmap(cb).values())
    print("   total SLOC:", total)
    if total != 3:
        failures.append(("sloc", dirs, total))

for f in failures:
    print("VIOLATION:", f)
assert not failures, "member files are enumerated (and counted) more than once"
print("ok")
