"""C09: with nested code-base directories, membership depends on the ORDER in
which the directories are listed.

    app/plugins/tests/t.c
    CodeBase("app", "app/plugins", exclude_patterns=["/tests/"])
    CodeBase("app/plugins", "app", exclude_patterns=["/tests/"])

`directories` is documented as "the set of source directories"; the property
defines membership through "a code-base directory", not "the first listed one".
Exits 0 iff both spellings of the same code base agree on membership and
enumeration.
"""
import tempfile
from pathlib import Path

from codebasin import CodeBase

tmp = Path(tempfile.mkdtemp(prefix="c09b_demo2_")).resolve()
app = tmp / "app"
(app / "plugins" / "tests").mkdir(parents=True)
(app / "tests").mkdir()
t = app / "plugins" / "tests" / "t.c"
t.write_text("int t;\n")
(app / "tests" / "u.c").write_text("int u;\n")
(app / "main.c").write_text("int m;\n")

pats = ["/tests/"]
cb1 = CodeBase(app, app / "plugins", exclude_patterns=pats)
cb2 = CodeBase(app / "plugins", app, exclude_patterns=pats)

m1, m2 = t in cb1, t in cb2
e1, e2 = sorted(set(cb1)), sorted(set(cb2))
print("t.c in CodeBase(app, app/plugins):", m1)
print("t.c in CodeBase(app/plugins, app):", m2)
print("enumeration 1:", e1)
print("enumeration 2:", e2)
assert m1 == m2, "membership depends on the order of the directory list"
assert e1 == e2, "enumeration depends on the order of the directory list"
print("ok")
