"""C09: `..c` / `..h` (a name made of dots and a suffix) is enumerated as a member
although the rest of the package does not recognise an extension in it; one
such file makes the whole analysis abort.

Exits 0 iff the two notions of "recognised extension" agree, i.e. every file
the code base enumerates can be handed to the parser.
"""
import tempfile
from pathlib import Path

from codebasin import CodeBase, finder
from codebasin.language import FileLanguage

tmp = Path(tempfile.mkdtemp(prefix="c09b_demo3_")).resolve()
(tmp / "main.c").write_text("int m;\n")
(tmp / "..c").write_text("int x;\n")

cb = CodeBase(tmp)
enum = sorted(cb)
print("enumerated:", enum)
for f in enum:
    lang = FileLanguage(f).get_language()
    print("  ", f, "->", lang)
    assert lang is not None, f"{f} is a member but has no recognised extension"
state = finder.find(str(tmp), cb, {})  # raises RuntimeError on the current tree
print(dict(state.get_setmap(cb)))
print("ok")
