#!/usr/bin/env python3
"""C15 demo 3: two places still cancel ".." after a directory symlink
textually (os.path.abspath) instead of letting the operating system decide:

(a) the value of -include            (config.load_database, include_files)
(b) a relative "directory" of a compilation-database entry

The file, -I and #include spellings were repaired earlier; these two were
not.  Each case is compared with the same code base with the alias replaced
by the canonical path; gcc -E (run in the directory the entry names) checks
that the reference accepts both and gives identical output.

Exit status 0: alias and canonical commands give the same attribution.
"""
import json
import logging
import os
import shutil
import subprocess
import sys
import tempfile
import warnings

warnings.simplefilter("ignore")
from codebasin import CodeBase, config, finder  # noqa: E402
from codebasin.preprocessor import CodeNode  # noqa: E402

logging.getLogger("codebasin").setLevel(logging.CRITICAL)
logging.getLogger("codebasin").addHandler(logging.NullHandler())
logging.getLogger("codebasin").propagate = False


def write(path, text):
    os.makedirs(os.path.dirname(path), exist_ok=True)
    with open(path, "w") as f:
        f.write(text)


def analyze(root, command):
    dbpath = os.path.join(os.path.dirname(root), "db.json")
    with open(dbpath, "w") as f:
        json.dump([command], f)
    db = config.load_database(dbpath, root)
    codebase = CodeBase(root)
    state = finder.find(root, codebase, {"p": db})
    result = {}
    for fn in state.get_filenames():
        tree, assoc = state.get_tree(fn), state.get_map(fn)
        for node in tree.walk():
            if isinstance(node, CodeNode):
                for line in node.lines:
                    result[(os.path.relpath(fn, root), line)] = bool(assoc[node])
    return result


def gcc(root, command):
    cwd = command["directory"]
    if not os.path.isabs(cwd):
        cwd = os.path.join(root, cwd)
    args = [a for a in command["arguments"][1:] if a != "-c"]
    ref = subprocess.run(
        ["gcc", "-E", "-P"] + args,
        cwd=cwd,
        capture_output=True,
        text=True,
    )
    assert ref.returncode == 0 and ref.stderr == "", ref.stderr
    return ref.stdout


def compare(root, label, alias_cmd, canonical_cmd):
    ref_alias, ref_canon = gcc(root, alias_cmd), gcc(root, canonical_cmd)
    assert ref_alias == ref_canon, "reference distinguishes the spellings"
    alias, canon = analyze(root, alias_cmd), analyze(root, canonical_cmd)
    diff = {
        k: (canon.get(k), alias.get(k))
        for k in sorted(set(canon) | set(alias))
        if canon.get(k) != alias.get(k)
    }
    print(label, "gcc:", repr(ref_alias), "differences (canonical, alias):", diff)
    return diff


BODY = "#ifdef REAL_PRE\nint real;\n#endif\n#ifdef WRONG_PRE\nint wrong;\n#endif\n"


def main():
    top = os.path.realpath(tempfile.mkdtemp(prefix="c15demo3_"))
    cwd = os.getcwd()
    failures = []
    try:
        root = os.path.join(top, "root")
        write(root + "/pkg/include/api.h", "int api;\n")
        write(root + "/pkg/pre.h", "#define REAL_PRE 1\n")
        write(root + "/pkg/main.c", BODY)
        write(root + "/pre.h", "#define WRONG_PRE 1\n")
        write(root + "/main.c", BODY)
        # "inc/.." is the directory pkg, not the root directory.
        os.symlink("pkg/include", root + "/inc")
        os.chdir(root)

        # (a) -include through "link/.."
        alias = {
            "directory": root,
            "file": "main.c",
            "arguments": ["gcc", "-include", "inc/../pre.h", "-c", "main.c"],
        }
        canon = dict(alias, arguments=["gcc", "-include", "pkg/pre.h", "-c", "main.c"])
        if compare(root, "(a) -include inc/../pre.h ", alias, canon):
            failures.append("a")

        # (b) relative "directory" through "link/.."
        arguments = ["gcc", "-include", "pre.h", "-c", "main.c"]
        alias = {"directory": "inc/..", "file": "main.c", "arguments": arguments}
        canon = {"directory": "pkg", "file": "main.c", "arguments": arguments}
        if compare(root, '(b) "directory": "inc/.." ', alias, canon):
            failures.append("b")
    finally:
        os.chdir(cwd)
        shutil.rmtree(top)
    assert not failures, f"alias and canonical spellings disagree in cases {failures}"


if __name__ == "__main__":
    main()
    print("OK")
    sys.exit(0)
