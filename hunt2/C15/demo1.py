#!/usr/bin/env python3
"""C15 demo 1: a forced include (-include) is looked up in the directory of
the *spelling* of the compiled file, so the same physical file compiled with
the same options is attributed differently when the compile command names it
through a symbolic link.

Exit status 0: the tree treats every alias of src/main.c alike.
"""
import json
import logging
import os
import shutil
import subprocess
import sys
import tempfile
import warnings

warnings.simplefilter("ignore")
from codebasin import CodeBase, config, finder  # noqa: E402
from codebasin.preprocessor import CodeNode  # noqa: E402

logging.getLogger("codebasin").setLevel(logging.CRITICAL)
logging.getLogger("codebasin").addHandler(logging.NullHandler())
logging.getLogger("codebasin").propagate = False


def write(path, text):
    os.makedirs(os.path.dirname(path), exist_ok=True)
    with open(path, "w") as f:
        f.write(text)


def analyze(root, command):
    """Return {line of src/main.c: used?} and the set map."""
    dbpath = os.path.join(os.path.dirname(root), "db.json")
    with open(dbpath, "w") as f:
        json.dump([command], f)
    db = config.load_database(dbpath, root)
    codebase = CodeBase(root)
    state = finder.find(root, codebase, {"p": db})
    main = os.path.join(root, "src", "main.c")
    tree, assoc = state.get_tree(main), state.get_map(main)
    used = {}
    for node in tree.walk():
        if isinstance(node, CodeNode):
            for line in node.lines:
                used[line] = bool(assoc[node])
    setmap = {tuple(sorted(k)): v for k, v in state.get_setmap(codebase).items()}
    return used, setmap


def main():
    top = os.path.realpath(tempfile.mkdtemp(prefix="c15demo1_"))
    cwd = os.getcwd()
    try:
        root = os.path.join(top, "root")
        # The header the build really uses (found through -Ibuild) ...
        write(root + "/build/config.h", "#define HAVE_FAST 1\n")
        # ... and a stale copy next to the source file.
        write(root + "/src/config.h", "#define HAVE_SLOW 1\n")
        write(
            root + "/src/main.c",
            "#ifdef HAVE_FAST\nint fast;\n#endif\n"
            "#ifdef HAVE_SLOW\nint slow;\n#endif\n",
        )
        os.makedirs(root + "/links")
        os.symlink("../src/main.c", root + "/links/main.c")  # file alias
        os.chdir(root)

        options = ["-Ibuild", "-include", "config.h"]
        results = {}
        for spelling in ["src/main.c", "links/main.c"]:
            # The reference accepts both spellings without diagnostics and
            # preprocesses them to the same text.
            ref = subprocess.run(
                ["gcc", "-E", "-P"] + options + [spelling],
                cwd=root,
                capture_output=True,
                text=True,
            )
            assert ref.returncode == 0 and ref.stderr == "", ref.stderr
            command = {
                "directory": root,
                "file": spelling,
                "arguments": ["gcc"] + options + ["-c", spelling],
            }
            results[spelling] = (analyze(root, command), ref.stdout)
            print(spelling, "-> tree:", results[spelling][0], "gcc:", repr(ref.stdout))

        canonical, alias = results["src/main.c"], results["links/main.c"]
        assert canonical[1] == alias[1], "gcc itself distinguishes the spellings"
        # C15: the same physical file, however it is reached, gets the same
        # attribution on the same lines and the same totals.
        assert canonical[0] == alias[0], (
            "src/main.c is attributed differently when the compile command "
            f"names it through links/main.c:\n  canonical {canonical[0]}\n"
            f"  alias     {alias[0]}"
        )
    finally:
        os.chdir(cwd)
        shutil.rmtree(top)


if __name__ == "__main__":
    main()
    print("OK")
    sys.exit(0)
