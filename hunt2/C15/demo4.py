#!/usr/bin/env python3
"""C15 demo 4 (package interface): a CodeBase whose directories overlap -
the same directory given a second time through a symbolic link or another
spelling, or a directory together with one of its sub-directories - yields
every shared physical file once per directory, and ParserState.get_setmap()
counts its lines once per directory.

Exit status 0: every physical file is yielded and counted once.
"""
import logging
import os
import shutil
import sys
import tempfile
import warnings

warnings.simplefilter("ignore")
from codebasin import CodeBase, finder  # noqa: E402

logging.getLogger("codebasin").setLevel(logging.CRITICAL)
logging.getLogger("codebasin").addHandler(logging.NullHandler())
logging.getLogger("codebasin").propagate = False


def write(path, text):
    os.makedirs(os.path.dirname(path), exist_ok=True)
    with open(path, "w") as f:
        f.write(text)


def total(root, *directories):
    codebase = CodeBase(*directories)
    state = finder.find(root, codebase, {})
    files = list(codebase)
    return sum(state.get_setmap(codebase).values()), files


def main():
    top = os.path.realpath(tempfile.mkdtemp(prefix="c15demo4_"))
    try:
        root = os.path.join(top, "root")
        write(root + "/src/a.c", "int a;\nint b;\n")
        write(root + "/lib/l.c", "int l;\n")
        os.symlink("root", top + "/rootlink")  # alias of the whole code base

        expected, files = total(root, root)
        assert expected == 3 and len(files) == 2, (expected, files)
        failures = []
        for label, dirs in [
            ("symlink to the same directory", [root, top + "/rootlink"]),
            ("another spelling of the same directory", [root, root + "/src/.."]),
            ("directory and its sub-directory", [root, root + "/src"]),
        ]:
            sloc, files = total(root, *dirs)
            physical = {os.path.realpath(f) for f in files}
            print(f"{label}: SLOC {sloc} (expected {expected}), "
                  f"{len(files)} paths for {len(physical)} physical files")
            if sloc != expected or len(files) != len(physical):
                failures.append(label)
        assert not failures, f"physical files counted more than once: {failures}"
    finally:
        shutil.rmtree(top)


if __name__ == "__main__":
    main()
    print("OK")
    sys.exit(0)
