#!/usr/bin/env python3
"""C15 demo 2: "-I is ignored for a directory that is also given with
-isystem" is decided by comparing normalised *spellings*
(os.path.normpath), not directories.

(a) -I names the -isystem directory through a symbolic link (or absolutely
    instead of relatively): the duplicate is not recognised and the header is
    taken from the wrong directory.
(b) -isystem names a directory as "link/..": normpath cancels the link
    textually, a different -I directory is taken for a duplicate and dropped,
    and its headers are no longer found.

Each case is compared with the same code base with the alias replaced by the
canonical path; gcc -E is used to check that the reference accepts both and
gives identical output for both.

Exit status 0: alias and canonical commands give the same attribution.
"""
import json
import logging
import os
import shutil
import subprocess
import sys
import tempfile
import warnings

warnings.simplefilter("ignore")
from codebasin import CodeBase, config, finder  # noqa: E402
from codebasin.preprocessor import CodeNode  # noqa: E402

logging.getLogger("codebasin").setLevel(logging.CRITICAL)
logging.getLogger("codebasin").addHandler(logging.NullHandler())
logging.getLogger("codebasin").propagate = False


def write(path, text):
    os.makedirs(os.path.dirname(path), exist_ok=True)
    with open(path, "w") as f:
        f.write(text)


def analyze(root, options):
    command = {
        "directory": root,
        "file": "main.c",
        "arguments": ["gcc"] + options + ["-c", "main.c"],
    }
    dbpath = os.path.join(os.path.dirname(root), "db.json")
    with open(dbpath, "w") as f:
        json.dump([command], f)
    db = config.load_database(dbpath, root)
    codebase = CodeBase(root)
    state = finder.find(root, codebase, {"p": db})
    result = {}
    for fn in state.get_filenames():
        tree, assoc = state.get_tree(fn), state.get_map(fn)
        for node in tree.walk():
            if isinstance(node, CodeNode):
                for line in node.lines:
                    result[(os.path.relpath(fn, root), line)] = bool(assoc[node])
    return result


def gcc(root, options):
    ref = subprocess.run(
        ["gcc", "-E", "-P"] + options + ["main.c"],
        cwd=root,
        capture_output=True,
        text=True,
    )
    assert ref.returncode == 0 and ref.stderr == "", ref.stderr
    return ref.stdout


def compare(root, label, alias_options, canonical_options):
    ref_alias, ref_canon = gcc(root, alias_options), gcc(root, canonical_options)
    assert ref_alias == ref_canon, "reference distinguishes the spellings"
    alias, canon = analyze(root, alias_options), analyze(root, canonical_options)
    diff = {k: (canon[k], alias[k]) for k in canon if canon[k] != alias[k]}
    print(label, "gcc:", repr(ref_alias), "differences (canonical, alias):", diff)
    return diff


def main():
    top = os.path.realpath(tempfile.mkdtemp(prefix="c15demo2_"))
    cwd = os.getcwd()
    failures = []
    try:
        # ---- (a) alias of the -isystem directory given with -I ----------
        root = os.path.join(top, "a", "root")
        write(root + "/inc/x.h", "#define FROM_INC 1\n")
        write(root + "/B/x.h", "#define FROM_B 1\n")
        write(
            root + "/main.c",
            "#include <x.h>\n#ifdef FROM_INC\nint inc;\n#endif\n"
            "#ifdef FROM_B\nint b;\n#endif\n",
        )
        os.symlink("inc", root + "/inc_link")  # directory alias
        os.chdir(root)
        canonical = ["-I", "inc", "-I", "B", "-isystem", "inc"]
        if compare(root, "(a1) symlink ", ["-I", "inc_link", "-I", "B", "-isystem", "inc"], canonical):
            failures.append("a1")
        if compare(root, "(a2) absolute", ["-I", root + "/inc", "-I", "B", "-isystem", "inc"], canonical):
            failures.append("a2")

        # ---- (b) -isystem link/.. is not the directory normpath says ----
        root = os.path.join(top, "b", "root")
        write(root + "/cfg.h", "#define HAVE_CFG 1\n")
        write(root + "/third_party/pkg/v1/include/pkg.h", "#define PKG 1\n")
        write(root + "/third_party/pkg/v1/version.h", "#define PKG_VERSION 1\n")
        write(
            root + "/main.c",
            "#include <cfg.h>\n#include <version.h>\n"
            "#ifdef HAVE_CFG\nint cfg;\n#endif\n"
            "#ifdef PKG_VERSION\nint version;\n#endif\n",
        )
        # "pkg_include/.." is third_party/pkg/v1, not the root directory.
        os.symlink("third_party/pkg/v1/include", root + "/pkg_include")
        os.chdir(root)
        if compare(
            root,
            "(b) link/..  ",
            ["-I", ".", "-isystem", "pkg_include/.."],
            ["-I", ".", "-isystem", "third_party/pkg/v1"],
        ):
            failures.append("b")
    finally:
        os.chdir(cwd)
        shutil.rmtree(top)
    assert not failures, f"alias and canonical spellings disagree in cases {failures}"


if __name__ == "__main__":
    main()
    print("OK")
    sys.exit(0)
